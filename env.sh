export GOFLAGS=-mod=mod GOPROXY=off GOSUMDB=off GOTOOLCHAIN=local
export GOCACHE=/verif/.cache/go-build
mkdir -p /verif/.work /verif/.cache/go-build
