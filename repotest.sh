#!/bin/bash
# Runs the repository's own suite on a throw-away copy of /repo's working tree (cwd never inside /repo).
export GOFLAGS=-mod=mod GOPROXY=off GOSUMDB=off GOTOOLCHAIN=local
rm -rf /var/tmp/verif-suite && mkdir -p /var/tmp/verif-suite && rsync -a --exclude .git /repo/ /var/tmp/verif-suite/ && cd /var/tmp/verif-suite && go test -vet=off -count=1 ./... 2>&1 | tail -${1:-6}; rc=${PIPESTATUS[0]}; cd /; rm -rf /var/tmp/verif-suite; exit $rc
