#!/usr/bin/env python3
# Regenerates MANIFEST.json from the table below (kept as code so it stays valid and consistent).
import json
checks = {
 "C01": ("model_checking", "bounded-exhaustive enumeration of JSON values x presentations (deviation-bounded DFS over whitespace gaps) executed on the real canonicaliser, against an independent reference encoder",
         "Every JSON text of the stated alphabet/bounds is executed on the real code and compared byte-for-byte with refjson; a coverage statement, not a sample. Right level because the property is a for-all over an input language whose interesting part (escapes, key order, -0, number spellings, corruption points) is small and enumerable.",
         "trusts encoding/json.Valid + refjson as validity oracle; values outside the alphabet (long strings, deep nesting) not covered", "4/C01"),
 "C20": ("model_checking", "exhaustive product of issue parameters x issue/validation instants (virtual clock via source instrumentation) x byte- and caveat-level alterations, executed on the real tokens package against a reference validity predicate",
         "All histories (issue instant, validation instant) over the boundary alphabet and all single alterations of each issued token are executed on the real code under an owned clock; the oracle is the four-clause reference predicate.",
         "trusts HMAC/macaroon library; macaroon location field and trailing bytes ignored by the decoder are unauthenticated by construction and not counted as alterations", "4/C20"),
 "C17": ("model_checking", "exhaustive enumeration of all strings up to a length bound over the identifier alphabets through every parser, all byte strings for base64, every size-limit shape (singles and pairs) per version, and the full version table, executed on the real code against grammar recognisers written from the specification",
         "Every string of the alphabet up to the bound is executed through every parser and compared with an independent recogniser; the version table is compared row by row through getters and behavioural probes. Right level: the identifier languages are regular and tiny, so exhaustive enumeration decides them within the bound.",
         "net/netip for IPv6 validity; limits probed at the boundary shapes listed in the evidence rule, not at every length", "4/C17"),
 "C05": ("model_checking", "bounded-exhaustive enumeration of events (every protected type x every subset of content keys and of extra top-level keys x every room version) executed on the real redaction entry points against per-version spec tables (refredact), with idempotence, identity and signature oracles",
         "Every event of the alphabet is redacted by the real code (RedactEventJSON and PDU.Redact) and compared value-for-value with an independent transcription of the specification's redaction tables; histories of interleaved cases share one process so hidden state between redactions is exercised.",
         "trusts ed25519/sha256; numbers outside +/-(2^53-1) and floats are outside the alphabet", "4/C05"),
 "C02": ("model_checking", "explicit-state search over operation sequences (sign by several identities / re-serialise / edit unsigned / foreign signature) up to a depth bound on generated objects, every transition executed on the real SignJSON/VerifyJSON/ListKeyIDs and compared with reference ed25519 signatures; every single-member mutation of every distinct reached state must fail",
         "All operation sequences up to the bound from all start objects are executed on the real code; states are deduplicated by exact text; the oracle is exact (deterministic ed25519 over the reference canonical form).",
         "ed25519 trusted; objects limited to the member menu", "4/C02"),
 "C03": ("model_checking", "bounded-exhaustive proto-event alphabet x all room versions built with the real EventBuilder; explicit-state search over edit sequences (SetUnsigned, SetUnsignedField, Sign, Redact, three re-parse paths, repeated accessors, builder reuse) with accessor-by-accessor comparison after every transition; hashed IDs compared with an independent reference (refevent); one-field differential pairs",
         "Every proto-event of the alphabet is built and driven through every edit sequence up to the depth bound on the real code; identity is compared with a reference hash computed from independent redaction/canonical-JSON code.",
         "sha256/ed25519 trusted; contents limited to the menu", "4/C03"),
 "C04": ("model_checking", "bounded-exhaustive product of built events x room versions x every single and pair of tamperings, parsed as untrusted input on the real code with interleaved genuine/tampered histories, against a reference content hash and reference redaction",
         "Every (event, tampering set) of the alphabet is parsed by the real NewEventFromUntrustedJSON; the verdict redacted/intact, the surfaced JSON and every accessor are compared with refevent/refredact; genuine and tampered copies alternate in one process so state carried between parses is exercised.",
         "sha256/ed25519 trusted; static verifier for signature verdicts; room version 8's specified redaction gap (join_authorised_via_users_server) is not judged", "4/C04"),
 "C06": ("fault_enumeration", "exhaustive product of event shapes x room versions x per-server signature/key fault states (all singles and pairs over 5 servers) x clock positions, through the real VerifyEventSignatures + KeyRing over a scripted key database under a virtual clock, against the reference required-signer set and key-validity rule",
         "Every assignment of fault states with at most two non-valid servers is executed on the real verification path; the verdict must equal 'every required server has a signature valid at origin_server_ts'.",
         "ed25519 trusted; pseudo-ID room version (mxid_mapping) not covered here", "4/C06"),
 "C13": ("model_checking", "deviation-bounded DFS (bound 2 quick / 3 thorough) over a choice tree of tamperings and header-syntax variants applied to requests built with the real client API, delivered to the real VerifyHTTPRequest + KeyRing under a virtual clock, against a reference header grammar and exact reference signatures",
         "Every combination of at most two (three) deviations from the transmitted request is executed on the real code; the oracle recomputes the signing object and the deterministic ed25519 signature independently.",
         "ed25519 trusted; net/http's own request construction limits which URIs are transmissible", "4/C13"),
 "C12": ("fault_enumeration", "deviation-bounded DFS (bound 3 quick / 4 thorough) over batches x database states x two fetchers' behaviours x boundary timestamps x validity rule x database faults on the real KeyRing.VerifyJSONs under a virtual clock, against a reference key-acquisition model with call-trace clauses; full products for CheckKeys and for Direct/Perspective fetchers over a scripted key client",
         "Every scenario within the deviation bound is executed on the real code; verdicts must lie between the reference model's 'must' and 'may' sets and the recorded calls to database and fetchers must satisfy the property's acquisition clauses.",
         "ed25519 trusted; unsolicited keys from fetchers are a documented don't-care", "4/C12"),
 "C16": ("model_checking", "exhaustive products: allow/deny CIDR list configurations x boundary addresses x network types through the real dialer control function (vs net/netip); server names x well-known outcomes x SRV outcomes through the real ResolveServer / LookupWellKnown with in-process HTTP and DNS stubs and a virtual clock (vs the specification's resolution steps); every success/failure plan of both connection passes through the real transport cache with scripted in-memory connections",
         "Each cell of the configuration/fault products is executed on the real code and compared with an independent reference of the resolution steps and the network policy; connection attempts are observed at the dial and HTTP level.",
         "net/netip and Go's DNS client trusted; unspecified outcomes (SERVFAIL on _matrix-fed, invalid delegated name) accepted either way", "4/C16"),
 "C07": ("model_checking", "full enumeration of the abstract auth-rule space per event class (pruned only by irrelevance) x room versions; every cell is concretised into real events and the real Allowed is compared with an independent reference of the rules (refauth); decisive cells (verdict flips on one coordinate) are counted",
         "Every cell of the rule space within the listed dimension menus is executed on the real code. The reference is a numbered transcription of the specification plus the documented departures D1-D16; any other disagreement is a violation.",
         "refauth may share a misreading with the code; mitigated by decisive-cell counts and the seeded-change runs", "4/C07, 5.1"),
 "C08": ("model_checking", "exhaustive one-step pairs (current content x every change of <=3 keys over a 4-value menu around the sender's level, 14 keys, 3 sender kinds, 16 versions) and explicit-state BFS over histories of accepted power-level events by three users, all through the real Allowed; oracle = invariant on effective levels computed from the two contents (independent of the reference rules)",
         "Every accepted event in the enumerated space is checked against a no-escalation invariant computed directly from the old and new contents; histories are explored breadth-first with the content as canonical state.",
         "event-type entries judged entry-against-entry as the specification does; users without an entry follow users_default", "4/C08"),
 "C09": ("model_checking", "explicit-state search over all sequences (depth 3 quick / 4 thorough) of (event, auth state) pairs through ONE reused allower context (in-package bridge), each step compared with a fresh Allowed; plus, for every cell of the auth rule space, every insertion order of the auth events, removal of un-needed events, only-needed state, added unrelated state, repetition, and the auth events AddAuthEvents selects",
         "Every history through the reused checker up to the depth bound and every presentation of every cell is executed on the real code; the oracle is metamorphic (verdict must equal the fresh / baseline verdict).",
         "the reuse alphabet (18-19 pairs) fixes which cached fields can interact", "4/C09"),
 "C10": ("model_checking", "bounded-exhaustive generation of room DAG histories (every pair / triple of honest branches of <=2 actions from a 25-27 action alphabet off a base room) x timestamp and event-ID tie-break patterns x algorithms v1 / v2 / v2.1, resolved by the real entry points and by an independent reference implementation (refstate over refauth); resolved event-ID sets must be equal",
         "Every generated history within the branch-length bound is resolved on the real code and compared with an independent implementation of the three algorithms; a mismatch reports the reference's intermediate stages.",
         "refstate/refauth are the definition (spec + DESIGN.md 5.2); histories are two- and three-way forks of short branches", "4/C10, 5.2"),
 "C11": ("model_checking", "every presentation (orders of state sets, of events within sets, of the auth list, duplicated auth entries, deprecated flat entry point) of generated fork scenarios; deviation-bounded DFS over the library's own map-iteration and set Slice() orders made explicit by source instrumentation (bound 1 quick / 2 thorough); every labelled DAG on <=4 (5) events through the three topological orderings in every presentation order",
         "Hidden nondeterminism (Go map order) is turned into enumerable choice points at check time from the current sources; every order within the deviation bound is executed on the real code and the resolved ID set must not change; well-formedness and topological validity are checked on every result.",
         "orders for maps larger than 4 limited to identity/reverse/rotations/adjacent swaps; each offered order is a legal Go iteration order", "4/C11"),
 "C14": ("fault_enumeration", "exhaustive single and pairwise per-event faults x event-provider behaviours on generated state / send_join responses (hash-derived IDs, reference signatures) through CheckStateResponse / CheckSendJoinResponse; missing or disallowed events at every depth through VerifyEventAuthChain / VerifyAuthRulesAtState; every batch of <=3 inputs through LoadAndVerify / RequestBackfill; oracle recomputed per event from VerifyEventSignatures and Allowed",
         "Every fault assignment within the bound is executed on the real verification functions; which events may leave is recomputed independently per event from the two sub-checks, so the plumbing (filtering, whole-response failure, classification, one result per input) is decided exactly.",
         "VerifyEventSignatures / Allowed used as sub-oracles (C06/C07 decide them); static key ring", "4/C14"),
 "C15": ("fault_enumeration", "exhaustive products of request parameters x event shapes x signature faults x querier answers x template-builder outcomes executed on the real HandleMakeJoin / HandleMakeLeave / HandleSendJoin / HandleInvite, and of scripted make_join x send_join remote answers on the real PerformJoin; guard-soundness oracle computed from the cell parameters plus reference signature verification of the returned event against the unmodified input",
         "Every cell of the stated parameter products is executed on the real handlers; an accepted cell that breaks any listed condition, or whose output lacks a valid local signature over the unmodified event, is a violation. Completeness is only a vacuity guard (each handler accepts some cell).",
         "Allowed / VerifyJSON sub-oracles (C07 / C02 decide them); HandleInviteV3 and PerformInvite (pseudo-ID rooms) not driven", "4/C15"),
}
pending = {}
props = [json.loads(l) for l in open('/verif/properties.jsonl')]
m = {"version":1,
 "setup_cmd":"./setup.sh",
 "hooks":{"guard":"verif (Go build tag)","enable":"go build -tags verif -overlay /verif/.work/<flavour>/overlay.json (bridge files live in /verif/mc/bridge and are added to the library packages by the overlay; /repo has no hook commits)",
          "baseline_off_cmd":"cd /repo && GOFLAGS=-mod=mod go test -vet=off -count=1 ./...","source_commits":[],"add_only":True},
 "engines":[{"name":"mc","path":"/verif/mc","serves_properties":sorted(checks),"kind_free_text":"hand-written Go explorer: deviation-bounded choice-tree DFS (explore), cooperative scheduler (sched), source instrumenter for map order / sync / clock (instr), reference models (ref/*), all executing the real library built from /repo's current tree"}],
 "checks":[], "not_applicable":[],
 "notes":"see DESIGN.md; known_findings.txt lists repaired defects (fixed:) and recorded findings (finding:)"}
for p in props:
    i=p["id"]
    if i in checks:
        cat,tech,text,note,ref=checks[i]
        m["checks"].append({"property_id":i,"quick_cmd":f"./check {i} --tier quick","thorough_cmd":f"./check {i} --tier thorough",
          "evidence_file":f"/verif/evidence/{i}.json","replay_cmd_template":f"./check {i} --replay {{path}}","engine":"mc",
          "level_claimed":{"category":cat,"text":text,"design_ref":"DESIGN.md §"+ref},"level_note":note,"technique":tech})
    else:
        m["not_applicable"].append({"property_id":i,"reason":pending.get(i,"check under construction in this session (design in DESIGN.md §4); not claimed until it runs clean")})
json.dump(m, open('/verif/MANIFEST.json','w'), indent=1)
print("checks:",len(m["checks"]),"not_applicable:",len(m["not_applicable"]))
