#!/bin/bash
# Offline setup: creates work dirs and pre-builds every check binary (warms the Go build cache).
set -u
cd /verif && . ./env.sh
mkdir -p /verif/.work/bin /verif/evidence /verif/replays
rc=0
for d in /verif/mc/cmd/*/; do
  id=$(basename "$d")
  /verif/mkoverlay "$id" || rc=2
  ov=/verif/.work/plain/overlay.json; [ -f "$d/INSTR" ] && ov=/verif/.work/instr/overlay.json
  (cd /verif/mc && go build -tags verif -overlay "$ov" -o "/verif/.work/bin/$id" "./cmd/$id") || rc=2
  if [ -f "$d/RACE" ]; then (cd /verif/mc && go build -race -tags verif -overlay "$ov" -o "/verif/.work/bin/$id-race" "./cmd/$id") || rc=2; fi
done
exit $rc
