#!/bin/bash
# usage: runall.sh [tier] — runs every registered check sequentially, prints one line per check
tier=${1:-quick}
cd /verif
for id in $(python3 -c "import json;print(' '.join(c['property_id'] for c in json.load(open('MANIFEST.json'))['checks']))"); do
  s=$(date +%s)
  out=$(./check $id --tier $tier 2>&1); rc=$?
  e=$(( $(date +%s) - s ))
  echo "$id rc=$rc ${e}s $(echo "$out" | grep -c '^VIOLATION') violations; $(echo "$out" | grep -c '^KNOWN-FINDING') known; $(echo "$out" | head -1 | cut -c1-150)"
done
