// Package srgen generates room DAG histories for the state-resolution checks
// (C10, C11): a fixed base room, then branches of honest actions (an action
// enters a branch only if the reference auth rules allow it in the branch's
// state). It yields the same history as real PDUs (for the library) and as
// abstract events (for refstate), with controllable timestamps and event IDs.
package srgen

import (
	"fmt"
	"sort"
	"strings"

	gmsl "github.com/matrix-org/gomatrixserverlib"

	"verif/mc/evgen"
	"verif/mc/ref/refauth"
	"verif/mc/ref/refjson"
	"verif/mc/ref/refversions"
)

const (
	Alice = "@alice:a.org"
	Bob   = "@bob:b.org"
	Carol = "@carol:c.org"
	Dave  = "@dave:d.org"
)

// E is one abstract event.
type E struct {
	ID      string
	Type    string
	SK      string
	Sender  string
	Content string
	Auth    []string // as stored (for v12 without the create event)
	Prev    []string
	TS      int64
	Depth   int64
	Seq     int  // creation order
	Rejected bool
}

func (e *E) Key() string { return e.Type + "\x00" + e.SK }

// AuthAll is the effective auth list (v12: create event first).
func (e *E) AuthAll(h *History) []string {
	if refversions.Get(h.Version).DomainlessRoomIDs && !(e.Type == "m.room.create" && e.SK == "") {
		return append([]string{h.CreateID}, e.Auth...)
	}
	return e.Auth
}

type State map[string]*E // key -> event

func (s State) clone() State {
	n := State{}
	for k, v := range s {
		n[k] = v
	}
	return n
}

// Action is something a user does at a branch tip.
type Action struct {
	Name    string
	Type    string
	SK      string
	Sender  string
	Content string
}

type History struct {
	Version  string
	CreateID string
	RoomID   string
	Events   map[string]*E
	Order    []*E // creation order
	IDMode   int  // 0: IDs ascend with creation order; 1: descend
	TSMode   int  // 0 ascending, 1 all equal, 2 descending
	seq      int
}

func member(m string) string { return `{"membership":"` + m + `"}` }

// Actions is the branch alphabet.
func Actions(version string) []Action {
	row := refversions.Get(version)
	pl := func(users string, extra string) string { return `{"users":{` + users + `}` + extra + `}` }
	a100 := `"` + Alice + `":100`
	if row.PrivilegedCreators {
		a100 = `"@nobody:a.org":1` // creators never appear in users
	}
	as := []Action{
		{"pl-promote-carol", "m.room.power_levels", "", Alice, pl(a100+`,"`+Bob+`":50,"`+Carol+`":50`, "")},
		{"pl-demote-bob", "m.room.power_levels", "", Alice, pl(a100, "")},
		{"pl-bob-self-demote", "m.room.power_levels", "", Bob, pl(a100+`,"`+Bob+`":0`, "")},
		{"pl-kick-100", "m.room.power_levels", "", Alice, pl(a100+`,"`+Bob+`":50`, `,"kick":100,"ban":100`)},
		{"pl-bob-invite-50", "m.room.power_levels", "", Bob, pl(a100+`,"`+Bob+`":50`, `,"invite":50`)},
		{"pl-events-default-50", "m.room.power_levels", "", Alice, pl(a100+`,"`+Bob+`":50`, `,"events_default":50,"state_default":50`)},
		{"pl-state-default-0", "m.room.power_levels", "", Alice, pl(a100+`,"`+Bob+`":50`, `,"state_default":0`)},
		{"jr-invite", "m.room.join_rules", "", Alice, `{"join_rule":"invite"}`},
		{"jr-public", "m.room.join_rules", "", Bob, `{"join_rule":"public"}`},
		{"alice-bans-bob", "m.room.member", Bob, Alice, member("ban")},
		{"alice-bans-carol", "m.room.member", Carol, Alice, member("ban")},
		{"alice-kicks-bob", "m.room.member", Bob, Alice, member("leave")},
		{"bob-kicks-carol", "m.room.member", Carol, Bob, member("leave")},
		{"bob-bans-carol", "m.room.member", Carol, Bob, member("ban")},
		{"alice-unbans-or-kicks-carol", "m.room.member", Carol, Alice, member("leave")},
		{"bob-invites-dave", "m.room.member", Dave, Bob, member("invite")},
		{"dave-joins", "m.room.member", Dave, Dave, member("join")},
		{"carol-leaves", "m.room.member", Carol, Carol, member("leave")},
		{"carol-joins", "m.room.member", Carol, Carol, member("join")},
		{"bob-joins", "m.room.member", Bob, Bob, member("join")},
		{"topic-alice", "m.room.topic", "", Alice, `{"topic":"alice"}`},
		{"topic-bob", "m.room.topic", "", Bob, `{"topic":"bob"}`},
		{"topic-carol", "m.room.topic", "", Carol, `{"topic":"carol"}`},
		{"name-bob", "m.room.name", "", Bob, `{"name":"bob"}`},
		{"carol-own-state", "x.user", Carol, Carol, `{"v":1}`},
		// state events of the special auth types under a NON-empty state key: ordinary state, not the room's join rules / power levels
		{"jr-legacy-key", "m.room.join_rules", "legacy", Alice, `{"join_rule":"invite"}`},
		{"pl-legacy-key", "m.room.power_levels", "legacy", Alice, pl(a100, `,"events_default":100`)},
	}
	if row.Knock {
		as = append(as, Action{"jr-knock", "m.room.join_rules", "", Alice, `{"join_rule":"knock"}`}, Action{"dave-knocks", "m.room.member", Dave, Dave, member("knock")})
	}
	return as
}

// New creates the base room.
func New(version string, idMode, tsMode int) (*History, State) {
	h := &History{Version: version, Events: map[string]*E{}, IDMode: idMode, TSMode: tsMode}
	row := refversions.Get(version)
	h.CreateID = "$create" + strings.Repeat("0", 37)
	h.RoomID = "!room:a.org"
	if row.DomainlessRoomIDs {
		h.RoomID = "!" + h.CreateID[1:]
	}
	if row.EventFormat == 1 {
		h.CreateID = "$create:a.org"
	}
	st := State{}
	cc := `{"creator":"` + Alice + `","room_version":"` + version + `"}`
	base := []Action{
		{"create", "m.room.create", "", Alice, cc},
		{"alice-joins", "m.room.member", Alice, Alice, member("join")},
		{"pl", "m.room.power_levels", "", Alice, `{"users":{"` + Alice + `":100,"` + Bob + `":50}}`},
		{"jr", "m.room.join_rules", "", Alice, `{"join_rule":"public"}`},
		{"bob-joins", "m.room.member", Bob, Bob, member("join")},
		{"carol-joins", "m.room.member", Carol, Carol, member("join")},
	}
	if row.PrivilegedCreators {
		base[2].Content = `{"users":{"` + Bob + `":50}}`
	}
	var tip []string
	for _, a := range base {
		e := h.Add(a, st, tip)
		st[e.Key()] = e
		tip = []string{e.ID}
	}
	return h, st
}

func (h *History) newID(name string) string {
	n := h.seq
	if h.IDMode == 1 {
		n = 999 - h.seq
	}
	tag := fmt.Sprintf("%03d%s", n, strings.NewReplacer("-", "", "_", "").Replace(name))
	if refversions.Get(h.Version).EventFormat == 1 {
		return "$" + tag + ":a.org"
	}
	if len(tag) > 43 {
		tag = tag[:43]
	}
	return "$" + tag + strings.Repeat("x", 43-len(tag))
}

// authFor selects the auth events of an event from a state, as the specification's selection rule says.
func authFor(a Action, st State) []*E {
	var out []*E
	add := func(k string) {
		if e := st[k]; e != nil {
			out = append(out, e)
		}
	}
	if a.Type == "m.room.create" {
		return nil
	}
	add("m.room.create\x00")
	add("m.room.power_levels\x00")
	add("m.room.member\x00" + a.Sender)
	if a.Type == "m.room.member" {
		if a.SK != a.Sender {
			add("m.room.member\x00" + a.SK)
		}
		if strings.Contains(a.Content, `"join"`) || strings.Contains(a.Content, `"invite"`) || strings.Contains(a.Content, `"knock"`) {
			add("m.room.join_rules\x00")
		}
	}
	return out
}

// Add appends the event for action a on top of the given tip, with auth events drawn from st.
func (h *History) Add(a Action, st State, prev []string) *E {
	h.seq++
	e := &E{Type: a.Type, SK: a.SK, Sender: a.Sender, Content: a.Content, Prev: append([]string(nil), prev...), Seq: h.seq}
	if a.Type == "m.room.create" {
		e.ID = h.CreateID
	} else {
		e.ID = h.newID(a.Name)
	}
	for _, ae := range authFor(a, st) {
		if refversions.Get(h.Version).DomainlessRoomIDs && ae.ID == h.CreateID {
			continue
		}
		e.Auth = append(e.Auth, ae.ID)
	}
	switch h.TSMode {
	case 0:
		e.TS = 1000 + int64(h.seq)
	case 1:
		e.TS = 1000
	case 2:
		e.TS = 2000 - int64(h.seq)
	}
	for _, p := range prev {
		if pe := h.Events[p]; pe != nil && pe.Depth >= e.Depth {
			e.Depth = pe.Depth + 1
		}
	}
	if e.Depth == 0 {
		e.Depth = 1
	}
	h.Events[e.ID] = e
	h.Order = append(h.Order, e)
	return e
}

// RefAllowed evaluates the reference auth rules for event e against a state.
func (h *History) RefAllowed(e *E, st State) bool {
	rs := &refauth.State{Version: h.Version, Members: map[string]*refauth.StateEvent{}, ThirdParty: map[string]*refauth.StateEvent{}}
	for _, se := range st {
		if se == nil {
			continue
		}
		c, _, err := refjson.Parse([]byte(se.Content))
		if err != nil {
			c = nil
		}
		x := &refauth.StateEvent{EventID: se.ID, Sender: se.Sender, RoomID: h.RoomID, Content: c}
		switch {
		case se.Type == "m.room.create" && se.SK == "":
			rs.Create = x
		case se.Type == "m.room.power_levels" && se.SK == "":
			rs.Power = x
		case se.Type == "m.room.join_rules" && se.SK == "":
			rs.JoinRules = x
		case se.Type == "m.room.member":
			rs.Members[se.SK] = x
		case se.Type == "m.room.third_party_invite":
			rs.ThirdParty[se.SK] = x
		}
	}
	c, _, _ := refjson.Parse([]byte(e.Content))
	sk := e.SK
	re := &refauth.Event{Type: e.Type, StateKey: &sk, Sender: e.Sender, RoomID: h.RoomID, Content: c, Prev: e.Prev, HasRoomIDField: true}
	return refauth.Allowed(re, rs).Allowed
}

// Branch extends the history from (state, tip) by the given actions; an action that the reference rules refuse
// is skipped (honest servers do not send it). Returns the state and tip reached and the events added.
func (h *History) Branch(st State, tip []string, actions []Action) (State, []string, []*E) {
	cur := st.clone()
	var added []*E
	for _, a := range actions {
		probe := &E{Type: a.Type, SK: a.SK, Sender: a.Sender, Content: a.Content, Prev: tip}
		as := State{}
		for _, ae := range authFor(a, cur) {
			as[ae.Key()] = ae
		}
		if !h.RefAllowed(probe, as) {
			continue
		}
		if old := cur[probe.Key()]; old != nil && old.Content == a.Content && old.Sender == a.Sender {
			continue // no-op
		}
		e := h.Add(a, cur, tip)
		cur[e.Key()] = e
		tip = []string{e.ID}
		added = append(added, e)
	}
	return cur, tip, added
}

// PDU builds the real event.
func (h *History) PDU(e *E) (gmsl.PDU, error) {
	room := h.RoomID
	isCreate := e.Type == "m.room.create" && e.SK == ""
	if isCreate && refversions.Get(h.Version).DomainlessRoomIDs {
		room = ""
	}
	prev, auth := e.Prev, e.Auth
	if prev == nil {
		prev = []string{}
	}
	if auth == nil {
		auth = []string{}
	}
	sk := e.SK
	ev := evgen.Ev{Type: e.Type, Sender: e.Sender, RoomID: room, StateKey: &sk, Content: e.Content, Prev: prev, Auth: auth, Depth: e.Depth, TS: e.TS, EventID: e.ID, NoHash: true}
	return gmsl.MustGetRoomVersion(gmsl.RoomVersion(h.Version)).NewEventFromTrustedJSONWithEventID(e.ID, ev.JSON(h.Version), false)
}

// SortedIDs lists a state's event IDs, sorted.
func SortedIDs(st State) []string {
	var out []string
	for _, e := range st {
		out = append(out, e.ID)
	}
	sort.Strings(out)
	return out
}
