// Package authgen turns one scenario description into both the concrete
// events the library sees (real PDUs + AuthEvents provider) and the abstract
// state the reference rules (refauth) see, so the two cannot drift apart.
package authgen

import (
	"crypto/ed25519"
	"encoding/base64"
	"fmt"
	"strings"

	gmsl "github.com/matrix-org/gomatrixserverlib"
	"github.com/matrix-org/gomatrixserverlib/spec"

	"verif/mc/evgen"
	"verif/mc/ref/refauth"
	"verif/mc/ref/refjson"
	"verif/mc/ref/refversions"
)

// SE describes one state (auth) event.
type SE struct {
	ID, Type, StateKey, Sender, Content string
	Room                                string // "" = the scenario's room
}

type Ev struct {
	Type     string
	StateKey *string
	Sender   string
	Content  string
	Prev     []string
	Redacts  string
	Room     string // "" = the scenario's room; "-" = no room_id field
}

type Scenario struct {
	Version string
	State   []SE
	Event   Ev
}

// CreateID is the event ID of the create event (43 URL-safe characters so that it is a valid v12 room ID).
const CreateID = "$createcreatecreatecreatecreatecreatecreate0"

func RoomOf(version string) string {
	if refversions.Get(version).DomainlessRoomIDs {
		return "!" + CreateID[1:]
	}
	return "!room:a.org"
}

func UID(_ spec.RoomID, s spec.SenderID) (*spec.UserID, error) { return spec.NewUserID(string(s), true) }

func mk(version string, id string, e evgen.Ev) (gmsl.PDU, error) {
	e.NoHash = true
	js := e.JSON(version)
	return gmsl.MustGetRoomVersion(gmsl.RoomVersion(version)).NewEventFromTrustedJSONWithEventID(id, js, false)
}

func (sc *Scenario) roomFor(r string, isCreate bool) string {
	switch r {
	case "-":
		return ""
	case "":
		if isCreate && refversions.Get(sc.Version).DomainlessRoomIDs {
			return ""
		}
		return RoomOf(sc.Version)
	}
	return r
}

// StatePDUs builds the auth events.
func (sc *Scenario) StatePDUs() ([]gmsl.PDU, error) {
	var out []gmsl.PDU
	for _, s := range sc.State {
		sk := s.StateKey
		isCreate := s.Type == "m.room.create" && sk == ""
		e := evgen.Ev{Type: s.Type, Sender: s.Sender, RoomID: sc.roomFor(s.Room, isCreate), StateKey: &sk, Content: s.Content, Prev: []string{}, Auth: []string{}, Depth: 1, TS: 1, EventID: s.ID}
		p, err := mk(sc.Version, s.ID, e)
		if err != nil {
			return nil, fmt.Errorf("state event %s: %w", s.ID, err)
		}
		out = append(out, p)
	}
	return out, nil
}

// EventPDU builds the event under test.
func (sc *Scenario) EventPDU() (gmsl.PDU, error) { return sc.EventPDUWithID("") }

// EventPDUWithID is EventPDU with a chosen event ID ("" = the standard one), for batches of several events under test.
func (sc *Scenario) EventPDUWithID(want string) (gmsl.PDU, error) {
	ev := sc.Event
	isCreate := ev.Type == "m.room.create" && ev.StateKey != nil && *ev.StateKey == ""
	prev := ev.Prev
	if prev == nil {
		prev = []string{}
	}
	e := evgen.Ev{Type: ev.Type, Sender: ev.Sender, RoomID: sc.roomFor(ev.Room, isCreate), StateKey: ev.StateKey, Content: ev.Content, Prev: prev, Auth: []string{}, Depth: 5, TS: 5, Redacts: ev.Redacts, EventID: "$event:a.org"}
	id := "$eventeventeventeventeventeventeventevent000"
	if refversions.Get(sc.Version).EventFormat == 1 {
		id = "$event:a.org"
	}
	if isCreate && refversions.Get(sc.Version).DomainlessRoomIDs {
		id = CreateID
	}
	if want != "" {
		id = want
		e.EventID = want
	}
	return mk(sc.Version, id, e)
}

// Ref builds the reference view of the same scenario.
func (sc *Scenario) Ref() (*refauth.Event, *refauth.State) {
	st := &refauth.State{Version: sc.Version, Members: map[string]*refauth.StateEvent{}, ThirdParty: map[string]*refauth.StateEvent{}, VerifySig: VerifySigned}
	rooms := map[string]bool{}
	for _, s := range sc.State {
		isCreate := s.Type == "m.room.create" && s.StateKey == ""
		room := sc.roomFor(s.Room, isCreate)
		if isCreate && refversions.Get(sc.Version).DomainlessRoomIDs && room == "" {
			room = "!" + s.ID[1:]
		}
		rooms[room] = true
		c, _, err := refjson.Parse([]byte(s.Content))
		if err != nil {
			c = nil
		}
		e := &refauth.StateEvent{EventID: s.ID, Sender: s.Sender, RoomID: room, Content: c}
		switch {
		case isCreate:
			st.Create = e
		case s.Type == "m.room.power_levels" && s.StateKey == "":
			st.Power = e
		case s.Type == "m.room.join_rules" && s.StateKey == "":
			st.JoinRules = e
		case s.Type == "m.room.member":
			st.Members[s.StateKey] = e
		case s.Type == "m.room.third_party_invite":
			st.ThirdParty[s.StateKey] = e
		}
	}
	st.MixedRooms = len(rooms) > 1
	ev := sc.Event
	isCreate := ev.Type == "m.room.create" && ev.StateKey != nil && *ev.StateKey == ""
	room := sc.roomFor(ev.Room, isCreate)
	c, _, err := refjson.Parse([]byte(ev.Content))
	if err != nil {
		c = nil
	}
	re := &refauth.Event{Type: ev.Type, StateKey: ev.StateKey, Sender: ev.Sender, RoomID: room, Content: c, Prev: ev.Prev, Redacts: ev.Redacts, HasRoomIDField: room != ""}
	if isCreate && refversions.Get(sc.Version).DomainlessRoomIDs && room == "" {
		re.RoomID = "!" + CreateID[1:]
	}
	return re, st
}

// ---- third-party invite signatures (D8): over {mxid, token}

var IDServerKey = evgen.NewKey("id.org", "ed25519:0", 55)
var OtherIDKey = evgen.NewKey("id.org", "ed25519:0", 56)

func SignedBlock(mxid, token string, k *evgen.Key, corrupt bool) string {
	obj := evgen.MustParse([]byte(fmt.Sprintf(`{"mxid":%q,"token":%q}`, mxid, token)))
	if k == nil {
		return fmt.Sprintf(`{"mxid":%q,"token":%q,"signatures":{}}`, mxid, token)
	}
	sig := evgen.ObjectSignature(obj, *k)
	if corrupt {
		sig = append([]byte(nil), sig...)
		sig[9] ^= 2
	}
	return fmt.Sprintf(`{"mxid":%q,"token":%q,"signatures":{%q:{%q:%q}}}`, mxid, token, k.Server, k.KeyID, base64.RawStdEncoding.EncodeToString(sig))
}

// VerifySigned is the reference signature check for D8.
func VerifySigned(signed *refjson.Value, domain, keyID, publicKeyB64 string) bool {
	pub, err := base64.RawStdEncoding.DecodeString(strings.TrimRight(publicKeyB64, "="))
	if err != nil || len(pub) != ed25519.PublicKeySize {
		return false
	}
	var sigB64 string
	stripped := &refjson.Value{Kind: refjson.Object}
	for _, m := range signed.Members {
		switch m.Key {
		case "mxid", "token":
			stripped.Members = append(stripped.Members, m)
		case "signatures":
			if d := evgen.Get(m.Val, domain); d != nil {
				if s := evgen.Get(d, keyID); s != nil {
					sigB64 = s.Str
				}
			}
		}
	}
	sig, err := base64.RawStdEncoding.DecodeString(sigB64)
	if err != nil || len(sig) != ed25519.SignatureSize {
		return false
	}
	return ed25519.Verify(pub, refjson.Canonical(stripped), sig)
}

// PseudoEncode returns the scenario re-encoded for a pseudo-ID room: every user ID of `users` is replaced, wherever it
// occurs (senders, state keys, keys and values inside contents), by a sender ID that is not a user ID (43 URL-safe base64
// characters, as a room key would be), together with the querier that maps the sender IDs back. The abstract scenario is
// the same; a library that confuses the two kinds of identifier somewhere treats the two encodings differently.
func (sc *Scenario) PseudoEncode(users []string) (*Scenario, spec.UserIDForSender) {
	var pairs []string
	back := map[string]string{}
	for i, u := range users {
		pid := strings.Repeat(string(rune('A'+i)), 40) + "key"
		pairs = append(pairs, u, pid)
		back[pid] = u
	}
	rep := strings.NewReplacer(pairs...)
	out := &Scenario{Version: sc.Version, Event: sc.Event}
	for _, se := range sc.State {
		se.Sender, se.StateKey, se.Content = rep.Replace(se.Sender), rep.Replace(se.StateKey), rep.Replace(se.Content)
		out.State = append(out.State, se)
	}
	out.Event.Sender, out.Event.Content = rep.Replace(sc.Event.Sender), rep.Replace(sc.Event.Content)
	if sc.Event.StateKey != nil {
		sk := rep.Replace(*sc.Event.StateKey)
		out.Event.StateKey = &sk
	}
	q := func(_ spec.RoomID, s spec.SenderID) (*spec.UserID, error) {
		if u, ok := back[string(s)]; ok {
			return spec.NewUserID(u, true)
		}
		return spec.NewUserID(string(s), true)
	}
	return out, q
}


// HistoricalEncode renames every listed user to a user ID of the "historical" grammar (capital letters and '+' in the
// localpart, same server). The auth rules are stated over users, never over the spelling of a localpart, so the verdict of
// a scenario must not change under a consistent renaming.
func (sc *Scenario) HistoricalEncode(users []string) *Scenario {
	var pairs []string
	for _, u := range users {
		i := strings.Index(u, ":")
		if i < 2 {
			continue
		}
		pairs = append(pairs, u, "@"+strings.ToUpper(u[1:2])+u[1:i]+"+H"+u[i:])
	}
	rep := strings.NewReplacer(pairs...)
	out := &Scenario{Version: sc.Version, Event: sc.Event}
	for _, se := range sc.State {
		se.Sender, se.StateKey, se.Content = rep.Replace(se.Sender), rep.Replace(se.StateKey), rep.Replace(se.Content)
		out.State = append(out.State, se)
	}
	out.Event.Sender, out.Event.Content = rep.Replace(sc.Event.Sender), rep.Replace(sc.Event.Content)
	if sc.Event.StateKey != nil {
		sk := rep.Replace(*sc.Event.StateKey)
		out.Event.StateKey = &sk
	}
	return out
}

// ScribblePowerLevels takes the parsed content of every power-levels event through the public accessor and overwrites it
// (every level, every map entry, extra entries), as a caller may who drafts the next power-levels event from the current
// one. What PowerLevels() hands out is the caller's; nothing the library decides afterwards may depend on it.
func ScribblePowerLevels(evs []gmsl.PDU) {
	for _, e := range evs {
		if e == nil || e.Type() != "m.room.power_levels" {
			continue
		}
		func() {
			defer func() { _ = recover() }()
			pl, err := e.PowerLevels()
			if err != nil || pl == nil {
				return
			}
			// towards "everything is allowed": every user at 2^40, every threshold at -7 (a library that kept reading the
			// scribbled copy would accept what the rules refuse, which the callers' oracles then report)
			for k := range pl.Users {
				pl.Users[k] = 1 << 40
			}
			if pl.Users != nil {
				pl.Users["@scribble:a.org"] = 1 << 40
			}
			for _, m := range []map[string]int64{pl.Events, pl.Notifications} {
				for k := range m {
					m[k] = -7
				}
				if m != nil {
					m["m.room.name"], m["m.room.topic"], m["room"] = -7, -7, -7
				}
			}
			pl.Ban, pl.Kick, pl.Invite, pl.Redact, pl.UsersDefault, pl.EventsDefault, pl.StateDefault = -7, -7, -7, -7, 1<<40, -7, -7
		}()
	}
}

// RunWith is Run with the caller's sender-ID resolution.
func (sc *Scenario) RunWith(q spec.UserIDForSender) (verdict error, buildErr error) {
	st, err := sc.StatePDUs()
	if err != nil {
		return nil, err
	}
	ev, err := sc.EventPDU()
	if err != nil {
		return nil, err
	}
	prov, err := gmsl.NewAuthEvents(st)
	if err != nil {
		return nil, err
	}
	ScribblePowerLevels(st)
	ScribblePowerLevels([]gmsl.PDU{ev})
	return gmsl.Allowed(ev, prov, q), nil
}

// Run executes the scenario on the library: verdict (nil = allowed), or a harness-level build error.
func (sc *Scenario) Run() (verdict error, buildErr error) {
	st, err := sc.StatePDUs()
	if err != nil {
		return nil, err
	}
	ev, err := sc.EventPDU()
	if err != nil {
		return nil, err
	}
	prov, err := gmsl.NewAuthEvents(st)
	if err != nil {
		return nil, err
	}
	ScribblePowerLevels(st)
	ScribblePowerLevels([]gmsl.PDU{ev})
	return gmsl.Allowed(ev, prov, UID), nil
}
