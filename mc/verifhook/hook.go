// Package verifhook is overlaid into the gomatrixserverlib module (as
// github.com/matrix-org/gomatrixserverlib/verifhook) by the verification build
// only. Instrumented library sources call it wherever the original code read
// the clock, iterated a map, used package sync, or spawned a goroutine. With no
// controller installed every hook degrades to the real behaviour.
package verifhook

import (
	"fmt"
	"reflect"
	"sort"
	"sync"
	"sync/atomic"
	"time"
)

// ---------------------------------------------------------------- clock ----

// Clock, when non-nil, replaces the wall clock.
var Clock func() time.Time

func Now() time.Time {
	if c := Clock; c != nil {
		return c()
	}
	return time.Now()
}
func Since(t time.Time) time.Duration { return Now().Sub(t) }
func Until(t time.Time) time.Duration { return t.Sub(Now()) }

// ------------------------------------------------------- iteration order ----

// Chooser, when non-nil, picks an iteration order: it is given the number of
// elements and a site label and returns a permutation of 0..n-1 (or nil for
// the canonical order).
var Chooser func(n int, site string) []int

// Order returns the keys of m in the order the controller chooses (canonical =
// sorted by formatted key). Without a controller it returns Go's native order.
func Order[K comparable, V any](m map[K]V, site string) []K {
	keys := make([]K, 0, len(m))
	for k := range m {
		keys = append(keys, k)
	}
	ch := Chooser
	if ch == nil || len(keys) < 2 {
		if ch != nil {
			return keys
		}
		return keys
	}
	strs := make([]string, len(keys))
	for i, k := range keys {
		strs[i] = fmt.Sprintf("%v", k)
	}
	idx := make([]int, len(keys))
	for i := range idx {
		idx[i] = i
	}
	sort.Slice(idx, func(a, b int) bool { return strs[idx[a]] < strs[idx[b]] })
	sorted := make([]K, len(keys))
	for i, j := range idx {
		sorted[i] = keys[j]
	}
	perm := ch(len(sorted), site)
	if perm == nil {
		return sorted
	}
	out := make([]K, len(sorted))
	for i, p := range perm {
		out[i] = sorted[p]
	}
	return out
}

// Permute reorders a slice whose order the library must not depend on
// (e.g. the result of a set's Slice()).
func Permute[T any](s []T, site string) []T {
	ch := Chooser
	if ch == nil || len(s) < 2 {
		return s
	}
	strs := make([]string, len(s))
	for i, k := range s {
		strs[i] = fmt.Sprintf("%v", k)
	}
	idx := make([]int, len(s))
	for i := range idx {
		idx[i] = i
	}
	sort.Slice(idx, func(a, b int) bool { return strs[idx[a]] < strs[idx[b]] })
	perm := ch(len(s), site)
	out := make([]T, len(s))
	for i := range idx {
		j := i
		if perm != nil {
			j = perm[i]
		}
		out[i] = s[idx[j]]
	}
	return out
}

// ------------------------------------------------------------ scheduler ----

// Scheduler is the cooperative scheduler: real goroutines, exactly one of
// which runs at any time. Install with Start, drive from the harness.
type Scheduler struct {
	// Pick chooses among the enabled thread ids; cur is the running thread's id
	// if it is still enabled (it is then enabled[0]), else -1.
	Pick    func(enabled []int, cur int, what string) int
	Horizon int

	threads   []*thread
	cur       *thread
	steps     int
	done      chan struct{}
	Err       string // "deadlock: ..." / "horizon exceeded" / panic text
	failed    bool
	Trace     []string
	KeepTrace bool
	now       time.Time
	timers    []*Timer

	live     sync.WaitGroup // goroutines of this execution that have not returned yet
	Leaked   bool           // threads were still running 10 s after the execution was aborted
	progress int            // scheduling points passed by threads that were not merely waiting (see WaitYield)
	// MaxAccesses bounds the accesses recorded in one execution: a loop without scheduling points that keeps touching
	// instrumented fields (a spin) fails the execution instead of exhausting memory. 0 = 200000.
	MaxAccesses int

	// TrackAccess turns on recording of the memory accesses the instrumented library reports (Access)
	TrackAccess bool
	Accesses    []AccessRec
}

// VC is a vector clock (thread id -> count); nil is the zero clock.
type VC map[int]int

func (a VC) copy() VC {
	out := make(VC, len(a))
	for k, v := range a {
		out[k] = v
	}
	return out
}

// join returns the component-wise maximum (a is modified and returned if non-nil).
func (a VC) join(b VC) VC {
	if a == nil {
		a = VC{}
	}
	for k, v := range b {
		if v > a[k] {
			a[k] = v
		}
	}
	return a
}

// leq reports a <= b component-wise (a happened before or equals b).
func (a VC) leq(b VC) bool {
	for k, v := range a {
		if v > b[k] {
			return false
		}
	}
	return true
}

// AccessRec is one reported memory access.
type AccessRec struct {
	Thread int
	Addr   uintptr
	Field  string
	Write  bool
	Site   string
	vc     VC
}

// Access is called by instrumented methods before a statement that reads or writes a field through the receiver.
func Access(obj interface{}, field string, write bool, site string) {
	s := active
	if s == nil || !s.TrackAccess {
		return
	}
	t := s.cur
	max := s.MaxAccesses
	if max == 0 {
		max = 200000
	}
	if len(s.Accesses) >= max {
		s.fail(fmt.Sprintf("livelock: thread %d made %d field accesses without reaching a scheduling point or finishing (last: %s %s)", t.id, max, site, field))
		panic(abortSignal{})
	}
	s.Accesses = append(s.Accesses, AccessRec{Thread: t.id, Addr: reflect.ValueOf(obj).Pointer(), Field: field, Write: write, Site: site, vc: t.vc.copy()})
}

// Races lists the pairs of recorded accesses to the same field of the same object, from different threads, at least
// one of them a write, that are not ordered by happens-before (spawn, join, mutex, wait group, atomic value, sync.Map).
func (s *Scheduler) Races() []string {
	var out []string
	seen := map[string]bool{}
	for i := range s.Accesses {
		a := &s.Accesses[i]
		for j := i + 1; j < len(s.Accesses); j++ {
			b := &s.Accesses[j]
			if a.Thread == b.Thread || a.Addr != b.Addr || (!a.Write && !b.Write) {
				continue
			}
			if a.Field != b.Field && a.Field != "*" && b.Field != "*" {
				continue
			}
			if a.vc.leq(b.vc) || b.vc.leq(a.vc) {
				continue
			}
			k := fmt.Sprintf("%s(%s,write=%v) || %s(%s,write=%v)", a.Site, a.Field, a.Write, b.Site, b.Field, b.Write)
			if !seen[k] {
				seen[k] = true
				out = append(out, k)
			}
		}
	}
	sort.Strings(out)
	return out
}

// tick advances the running thread's own component (after it released something others may acquire).
func (s *Scheduler) tick() {
	t := s.cur
	if t.vc == nil {
		t.vc = VC{}
	}
	t.vc[t.id]++
}

// release / acquire implement the happens-before edges of one synchronisation object.
func (s *Scheduler) release(obj *VC) {
	*obj = (*obj).join(s.cur.vc)
	s.tick()
}
func (s *Scheduler) acquire(obj *VC) {
	s.cur.vc = s.cur.vc.join(*obj)
}

type thread struct {
	vc       VC
	id       int
	wake     chan struct{}
	blocked  func() bool // non-nil: disabled while it returns true
	finished bool
	name     string
}

var active *Scheduler

// Active reports the installed scheduler (nil when free-running).
func Active() *Scheduler { return active }

type abortSignal struct{}

// Run executes main as thread 0 under a new scheduler and returns when every
// thread has finished, or on deadlock / horizon / panic (s.Err set).
func Run(s *Scheduler, main func()) {
	if active != nil {
		panic("verifhook: scheduler already active")
	}
	s.done = make(chan struct{})
	if s.Horizon == 0 {
		s.Horizon = 2000
	}
	active = s
	defer func() { active = nil }()
	t := s.newThread("main")
	s.cur = t
	s.live.Add(1)
	go func() {
		defer s.live.Done()
		s.body(t, main)
	}()
	<-s.done
	// every goroutine of this execution must be gone before the next one starts (after an abort they are still unwinding)
	gone := make(chan struct{})
	go func() { s.live.Wait(); close(gone) }()
	select {
	case <-gone:
	case <-time.After(10 * time.Second):
		s.Leaked = true
	}
}

func (s *Scheduler) newThread(name string) *thread {
	t := &thread{id: len(s.threads), wake: make(chan struct{}, 1), name: name, vc: VC{}}
	t.vc[t.id] = 1
	s.threads = append(s.threads, t)
	return t
}

func (s *Scheduler) body(t *thread, f func()) {
	ok := s.protect(t, f)
	if !ok {
		return
	}
	t.finished = true
	s.protect(t, func() { s.switchFrom(t, "exit") })
}

// protect runs f, turning a panic into a scheduler failure; false = aborted.
func (s *Scheduler) protect(t *thread, f func()) (ok bool) {
	defer func() {
		if r := recover(); r != nil {
			ok = false
			if _, is := r.(abortSignal); is {
				return // torn down
			}
			s.fail(fmt.Sprintf("panic in thread %d (%s): %v", t.id, t.name, r))
		}
	}()
	f()
	return true
}

func (s *Scheduler) fail(msg string) {
	if s.failed {
		return
	}
	s.failed = true
	s.Err = msg
	// release every parked thread so its goroutine can unwind
	for _, t := range s.threads {
		select {
		case t.wake <- struct{}{}:
		default:
		}
	}
	close(s.done)
}

func (s *Scheduler) enabled() []*thread {
	var out []*thread
	for _, t := range s.threads {
		if t.finished {
			continue
		}
		if t.blocked != nil {
			if t.blocked() {
				continue
			}
		}
		out = append(out, t)
	}
	return out
}

// switchFrom is called by the running thread t at a scheduling point (or when
// it blocks / exits): picks the next thread and hands over.
func (s *Scheduler) switchFrom(t *thread, what string) {
	if s.failed {
		panic(abortSignal{})
	}
	s.steps++
	if s.steps > s.Horizon {
		s.fail(fmt.Sprintf("horizon of %d steps exceeded (livelock?) at %s", s.Horizon, what))
		panic(abortSignal{})
	}
	en := s.enabled()
	if len(en) == 0 {
		all := true
		for _, x := range s.threads {
			if !x.finished {
				all = false
			}
		}
		if all {
			close(s.done)
			return
		}
		// maybe a pending timer can fire once the clock moves: that is the harness' job; here it is a deadlock
		var st []string
		for _, x := range s.threads {
			if !x.finished {
				st = append(st, fmt.Sprintf("%d(%s)", x.id, x.name))
			}
		}
		s.fail(fmt.Sprintf("deadlock: no enabled thread; unfinished: %v (at %s of thread %d)", st, what, t.id))
		if !t.finished {
			panic(abortSignal{})
		}
		return
	}
	// canonical order: running thread first if still enabled, then ascending ids
	ids := make([]int, 0, len(en))
	cur := -1
	for _, x := range en {
		if x == t {
			cur = t.id
		}
	}
	if cur >= 0 {
		ids = append(ids, cur)
	}
	for _, x := range en {
		if x != t {
			ids = append(ids, x.id)
		}
	}
	next := ids[0]
	if len(ids) > 1 {
		next = s.Pick(ids, cur, what)
	}
	if s.KeepTrace {
		s.Trace = append(s.Trace, fmt.Sprintf("t%d:%s->t%d", t.id, what, next))
	}
	if next == t.id {
		return
	}
	nt := s.threads[next]
	nt.blocked = nil
	s.cur = nt
	nt.wake <- struct{}{}
	if t.finished {
		return
	}
	<-t.wake
	if s.failed {
		panic(abortSignal{})
	}
}

// Point is a scheduling point of the running thread.
func Point(what string) {
	s := active
	if s == nil {
		return
	}
	s.progress++
	s.switchFrom(s.cur, what)
}

// WaitYield is called by a polling loop (instrumented select / channel receive) that found nothing ready: the thread is
// disabled until some other thread has passed a scheduling point. If nobody else can run, that is a deadlock.
func WaitYield(what string) {
	s := active
	if s == nil {
		time.Sleep(20 * time.Microsecond)
		return
	}
	t := s.cur
	mark := s.progress
	t.blocked = func() bool { return s.progress == mark }
	s.switchFrom(t, "wait:"+what)
	t.blocked = nil
}

// Recv is a blocking channel receive that the scheduler sees as a wait.
func Recv[T any](ch <-chan T) T {
	v, _ := Recv2(ch)
	return v
}

// Recv2 is Recv with the "ok" result.
func Recv2[T any](ch <-chan T) (T, bool) {
	if active == nil {
		v, ok := <-ch
		return v, ok
	}
	for {
		select {
		case v, ok := <-ch:
			Point("chan.recv")
			return v, ok
		default:
			WaitYield("recv")
		}
	}
}

// block parks the running thread until cond() is false.
func (s *Scheduler) block(what string, cond func() bool) {
	t := s.cur
	for cond() {
		t.blocked = cond
		s.switchFrom(t, "block:"+what)
		t.blocked = nil
	}
}

// Go spawns f as a new thread (a scheduling point for the spawner).
func Go(f func()) {
	s := active
	if s == nil {
		go f()
		return
	}
	t := s.newThread("go")
	t.vc = t.vc.join(s.cur.vc) // everything the spawner did happens before the new thread
	s.tick()
	started := false
	t.blocked = nil
	s.live.Add(1)
	go func() {
		defer s.live.Done()
		<-t.wake
		if s.failed {
			return
		}
		started = true
		s.body(t, f)
	}()
	_ = started
	Point("spawn")
}

// Steps reports scheduling points passed so far.
func (s *Scheduler) Steps() int { return s.steps }

// CurID is the running thread's id.
func (s *Scheduler) CurID() int { return s.cur.id }

// ---- virtual time under the scheduler

// SetNow / Advance move the scheduler's virtual clock (install Clock = s.Now).
func (s *Scheduler) SetNow(t time.Time) { s.now = t }
func (s *Scheduler) Now() time.Time     { return s.now }

// Advance moves virtual time forward and starts the threads of due timers.
func (s *Scheduler) Advance(d time.Duration) {
	s.now = s.now.Add(d)
	for _, tm := range s.timers {
		if !tm.fired && !tm.stopped && !s.now.Before(tm.when) {
			tm.fired = true
			f := tm.f
			Go(f)
		}
	}
}

// Timer mirrors *time.Timer for AfterFunc.
type Timer struct {
	real    *time.Timer
	when    time.Time
	f       func()
	fired   bool
	stopped bool
}

func (t *Timer) Stop() bool {
	if t.real != nil {
		return t.real.Stop()
	}
	was := !t.fired && !t.stopped
	t.stopped = true
	return was
}

// AfterFunc: under the scheduler the function runs as a new thread once the
// virtual clock has been advanced past the delay.
func AfterFunc(d time.Duration, f func()) *Timer {
	s := active
	if s == nil {
		return &Timer{real: time.AfterFunc(d, f)}
	}
	tm := &Timer{when: s.now.Add(d), f: f}
	s.timers = append(s.timers, tm)
	return tm
}

// PendingTimers counts timers neither fired nor stopped.
func (s *Scheduler) PendingTimers() int {
	n := 0
	for _, t := range s.timers {
		if !t.fired && !t.stopped {
			n++
		}
	}
	return n
}

// ------------------------------------------------------------ sync shims ----

// Mutex replaces sync.Mutex in instrumented sources.
type Mutex struct {
	real   sync.Mutex
	held   bool
	holder int
	vc     VC
}

func (m *Mutex) Lock() {
	s := active
	if s == nil {
		m.real.Lock()
		return
	}
	Point("lock")
	s.block("mutex", func() bool { return m.held })
	m.held = true
	m.holder = s.cur.id
	s.acquire(&m.vc)
}

func (m *Mutex) Unlock() {
	s := active
	if s == nil {
		if m.held { // locked under a scheduler that is gone (aborted execution unwinding)
			m.held = false
			return
		}
		m.real.Unlock()
		return
	}
	if !m.held {
		panic("verifhook: unlock of unlocked mutex")
	}
	s.release(&m.vc)
	m.held = false
	Point("unlock")
}

func (m *Mutex) TryLock() bool {
	s := active
	if s == nil {
		return m.real.TryLock()
	}
	Point("trylock")
	if m.held {
		return false
	}
	m.held = true
	m.holder = s.cur.id
	s.acquire(&m.vc)
	return true
}

// RWMutex: modelled as exclusive for writers, shared for readers.
type RWMutex struct {
	real    sync.RWMutex
	writer  bool
	readers int
	vc      VC // one clock for readers and writers: orders reader sections too (may hide a race, never invents one)
}

func (m *RWMutex) Lock() {
	s := active
	if s == nil {
		m.real.Lock()
		return
	}
	Point("wlock")
	s.block("rwmutex-w", func() bool { return m.writer || m.readers > 0 })
	m.writer = true
	s.acquire(&m.vc)
}
func (m *RWMutex) Unlock() {
	if active == nil {
		m.real.Unlock()
		return
	}
	active.release(&m.vc)
	m.writer = false
	Point("wunlock")
}
func (m *RWMutex) RLock() {
	s := active
	if s == nil {
		m.real.RLock()
		return
	}
	Point("rlock")
	s.block("rwmutex-r", func() bool { return m.writer })
	m.readers++
	s.acquire(&m.vc)
}
func (m *RWMutex) RUnlock() {
	if active == nil {
		m.real.RUnlock()
		return
	}
	active.release(&m.vc)
	m.readers--
	Point("runlock")
}

// WaitGroup replaces sync.WaitGroup.
type WaitGroup struct {
	real sync.WaitGroup
	n    int
	vc   VC
}

func (w *WaitGroup) Add(d int) {
	if active == nil {
		w.real.Add(d)
		return
	}
	w.n += d
	if w.n < 0 {
		panic("verifhook: negative WaitGroup counter")
	}
	if d < 0 {
		active.release(&w.vc)
	}
	Point("wg.add")
}
func (w *WaitGroup) Done() { w.Add(-1) }
func (w *WaitGroup) Wait() {
	s := active
	if s == nil {
		w.real.Wait()
		return
	}
	Point("wg.wait")
	s.block("waitgroup", func() bool { return w.n > 0 })
	s.acquire(&w.vc)
}

// Map replaces sync.Map.
type Map struct {
	real sync.Map
	m    map[interface{}]interface{}
	vc   VC
}

func (m *Map) Load(k interface{}) (interface{}, bool) {
	if active == nil {
		return m.real.Load(k)
	}
	Point("map.load")
	active.acquire(&m.vc)
	v, ok := m.m[k]
	return v, ok
}
func (m *Map) Store(k, v interface{}) {
	if active == nil {
		m.real.Store(k, v)
		return
	}
	Point("map.store")
	active.release(&m.vc)
	if m.m == nil {
		m.m = map[interface{}]interface{}{}
	}
	m.m[k] = v
}
func (m *Map) Delete(k interface{}) {
	if active == nil {
		m.real.Delete(k)
		return
	}
	Point("map.delete")
	active.release(&m.vc)
	delete(m.m, k)
}
func (m *Map) LoadOrStore(k, v interface{}) (interface{}, bool) {
	if active == nil {
		return m.real.LoadOrStore(k, v)
	}
	Point("map.loadorstore")
	active.acquire(&m.vc)
	active.release(&m.vc)
	if old, ok := m.m[k]; ok {
		return old, true
	}
	if m.m == nil {
		m.m = map[interface{}]interface{}{}
	}
	m.m[k] = v
	return v, false
}
func (m *Map) Range(f func(k, v interface{}) bool) {
	if active == nil {
		m.real.Range(f)
		return
	}
	Point("map.range")
	active.acquire(&m.vc)
	keys := make([]interface{}, 0, len(m.m))
	for k := range m.m {
		keys = append(keys, k)
	}
	sort.Slice(keys, func(i, j int) bool { return fmt.Sprint(keys[i]) < fmt.Sprint(keys[j]) })
	for _, k := range keys {
		v, ok := m.m[k]
		if !ok {
			continue
		}
		if !f(k, v) {
			return
		}
	}
}

// Len is for harness observation only.
func (m *Map) Len() int {
	if active == nil {
		n := 0
		m.real.Range(func(_, _ interface{}) bool { n++; return true })
		return n
	}
	return len(m.m)
}

// AtomicValue replaces atomic.Value.
type AtomicValue struct {
	real atomic.Value
	v    interface{}
	vc   VC
}

func (a *AtomicValue) Load() interface{} {
	if active == nil {
		return a.real.Load()
	}
	Point("atomic.load")
	active.acquire(&a.vc)
	return a.v
}
func (a *AtomicValue) Store(v interface{}) {
	if active == nil {
		a.real.Store(v)
		return
	}
	Point("atomic.store")
	active.release(&a.vc)
	a.v = v
}
