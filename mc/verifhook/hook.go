// Package verifhook is overlaid into the gomatrixserverlib module (as
// github.com/matrix-org/gomatrixserverlib/verifhook) by the verification build
// only. Instrumented library sources call it wherever the original code read
// the clock, iterated a map, used package sync, or spawned a goroutine. With no
// controller installed every hook degrades to the real behaviour.
package verifhook

import (
	"fmt"
	"sort"
	"sync"
	"sync/atomic"
	"time"
)

// ---------------------------------------------------------------- clock ----

// Clock, when non-nil, replaces the wall clock.
var Clock func() time.Time

func Now() time.Time {
	if c := Clock; c != nil {
		return c()
	}
	return time.Now()
}
func Since(t time.Time) time.Duration { return Now().Sub(t) }
func Until(t time.Time) time.Duration { return t.Sub(Now()) }

// ------------------------------------------------------- iteration order ----

// Chooser, when non-nil, picks an iteration order: it is given the number of
// elements and a site label and returns a permutation of 0..n-1 (or nil for
// the canonical order).
var Chooser func(n int, site string) []int

// Order returns the keys of m in the order the controller chooses (canonical =
// sorted by formatted key). Without a controller it returns Go's native order.
func Order[K comparable, V any](m map[K]V, site string) []K {
	keys := make([]K, 0, len(m))
	for k := range m {
		keys = append(keys, k)
	}
	ch := Chooser
	if ch == nil || len(keys) < 2 {
		if ch != nil {
			return keys
		}
		return keys
	}
	strs := make([]string, len(keys))
	for i, k := range keys {
		strs[i] = fmt.Sprintf("%v", k)
	}
	idx := make([]int, len(keys))
	for i := range idx {
		idx[i] = i
	}
	sort.Slice(idx, func(a, b int) bool { return strs[idx[a]] < strs[idx[b]] })
	sorted := make([]K, len(keys))
	for i, j := range idx {
		sorted[i] = keys[j]
	}
	perm := ch(len(sorted), site)
	if perm == nil {
		return sorted
	}
	out := make([]K, len(sorted))
	for i, p := range perm {
		out[i] = sorted[p]
	}
	return out
}

// Permute reorders a slice whose order the library must not depend on
// (e.g. the result of a set's Slice()).
func Permute[T any](s []T, site string) []T {
	ch := Chooser
	if ch == nil || len(s) < 2 {
		return s
	}
	strs := make([]string, len(s))
	for i, k := range s {
		strs[i] = fmt.Sprintf("%v", k)
	}
	idx := make([]int, len(s))
	for i := range idx {
		idx[i] = i
	}
	sort.Slice(idx, func(a, b int) bool { return strs[idx[a]] < strs[idx[b]] })
	perm := ch(len(s), site)
	out := make([]T, len(s))
	for i := range idx {
		j := i
		if perm != nil {
			j = perm[i]
		}
		out[i] = s[idx[j]]
	}
	return out
}

// ------------------------------------------------------------ scheduler ----

// Scheduler is the cooperative scheduler: real goroutines, exactly one of
// which runs at any time. Install with Start, drive from the harness.
type Scheduler struct {
	// Pick chooses among the enabled thread ids; cur is the running thread's id
	// if it is still enabled (it is then enabled[0]), else -1.
	Pick    func(enabled []int, cur int, what string) int
	Horizon int

	threads []*thread
	cur     *thread
	steps   int
	done    chan struct{}
	Err     string // "deadlock: ..." / "horizon exceeded" / panic text
	failed  bool
	Trace   []string
	KeepTrace bool
	now     time.Time
	timers  []*Timer
}

type thread struct {
	id      int
	wake    chan struct{}
	blocked func() bool // non-nil: disabled while it returns true
	finished bool
	name    string
}

var active *Scheduler

// Active reports the installed scheduler (nil when free-running).
func Active() *Scheduler { return active }

type abortSignal struct{}

// Run executes main as thread 0 under a new scheduler and returns when every
// thread has finished, or on deadlock / horizon / panic (s.Err set).
func Run(s *Scheduler, main func()) {
	if active != nil {
		panic("verifhook: scheduler already active")
	}
	s.done = make(chan struct{})
	if s.Horizon == 0 {
		s.Horizon = 2000
	}
	active = s
	defer func() { active = nil }()
	t := s.newThread("main")
	s.cur = t
	go s.body(t, main)
	<-s.done
}

func (s *Scheduler) newThread(name string) *thread {
	t := &thread{id: len(s.threads), wake: make(chan struct{}, 1), name: name}
	s.threads = append(s.threads, t)
	return t
}

func (s *Scheduler) body(t *thread, f func()) {
	ok := s.protect(t, f)
	if !ok {
		return
	}
	t.finished = true
	s.protect(t, func() { s.switchFrom(t, "exit") })
}

// protect runs f, turning a panic into a scheduler failure; false = aborted.
func (s *Scheduler) protect(t *thread, f func()) (ok bool) {
	defer func() {
		if r := recover(); r != nil {
			ok = false
			if _, is := r.(abortSignal); is {
				return // torn down
			}
			s.fail(fmt.Sprintf("panic in thread %d (%s): %v", t.id, t.name, r))
		}
	}()
	f()
	return true
}

func (s *Scheduler) fail(msg string) {
	if s.failed {
		return
	}
	s.failed = true
	s.Err = msg
	// release every parked thread so its goroutine can unwind
	for _, t := range s.threads {
		select {
		case t.wake <- struct{}{}:
		default:
		}
	}
	close(s.done)
}

func (s *Scheduler) enabled() []*thread {
	var out []*thread
	for _, t := range s.threads {
		if t.finished {
			continue
		}
		if t.blocked != nil {
			if t.blocked() {
				continue
			}
		}
		out = append(out, t)
	}
	return out
}

// switchFrom is called by the running thread t at a scheduling point (or when
// it blocks / exits): picks the next thread and hands over.
func (s *Scheduler) switchFrom(t *thread, what string) {
	if s.failed {
		panic(abortSignal{})
	}
	s.steps++
	if s.steps > s.Horizon {
		s.fail(fmt.Sprintf("horizon of %d steps exceeded (livelock?) at %s", s.Horizon, what))
		panic(abortSignal{})
	}
	en := s.enabled()
	if len(en) == 0 {
		all := true
		for _, x := range s.threads {
			if !x.finished {
				all = false
			}
		}
		if all {
			close(s.done)
			return
		}
		// maybe a pending timer can fire once the clock moves: that is the harness' job; here it is a deadlock
		var st []string
		for _, x := range s.threads {
			if !x.finished {
				st = append(st, fmt.Sprintf("%d(%s)", x.id, x.name))
			}
		}
		s.fail(fmt.Sprintf("deadlock: no enabled thread; unfinished: %v (at %s of thread %d)", st, what, t.id))
		if !t.finished {
			panic(abortSignal{})
		}
		return
	}
	// canonical order: running thread first if still enabled, then ascending ids
	ids := make([]int, 0, len(en))
	cur := -1
	for _, x := range en {
		if x == t {
			cur = t.id
		}
	}
	if cur >= 0 {
		ids = append(ids, cur)
	}
	for _, x := range en {
		if x != t {
			ids = append(ids, x.id)
		}
	}
	next := ids[0]
	if len(ids) > 1 {
		next = s.Pick(ids, cur, what)
	}
	if s.KeepTrace {
		s.Trace = append(s.Trace, fmt.Sprintf("t%d:%s->t%d", t.id, what, next))
	}
	if next == t.id {
		return
	}
	nt := s.threads[next]
	nt.blocked = nil
	s.cur = nt
	nt.wake <- struct{}{}
	if t.finished {
		return
	}
	<-t.wake
	if s.failed {
		panic(abortSignal{})
	}
}

// Point is a scheduling point of the running thread.
func Point(what string) {
	s := active
	if s == nil {
		return
	}
	s.switchFrom(s.cur, what)
}

// block parks the running thread until cond() is false.
func (s *Scheduler) block(what string, cond func() bool) {
	t := s.cur
	for cond() {
		t.blocked = cond
		s.switchFrom(t, "block:"+what)
		t.blocked = nil
	}
}

// Go spawns f as a new thread (a scheduling point for the spawner).
func Go(f func()) {
	s := active
	if s == nil {
		go f()
		return
	}
	t := s.newThread("go")
	started := false
	t.blocked = nil
	go func() {
		<-t.wake
		if s.failed {
			return
		}
		started = true
		s.body(t, f)
	}()
	_ = started
	Point("spawn")
}

// Steps reports scheduling points passed so far.
func (s *Scheduler) Steps() int { return s.steps }

// CurID is the running thread's id.
func (s *Scheduler) CurID() int { return s.cur.id }

// ---- virtual time under the scheduler

// SetNow / Advance move the scheduler's virtual clock (install Clock = s.Now).
func (s *Scheduler) SetNow(t time.Time) { s.now = t }
func (s *Scheduler) Now() time.Time     { return s.now }

// Advance moves virtual time forward and starts the threads of due timers.
func (s *Scheduler) Advance(d time.Duration) {
	s.now = s.now.Add(d)
	for _, tm := range s.timers {
		if !tm.fired && !tm.stopped && !s.now.Before(tm.when) {
			tm.fired = true
			f := tm.f
			Go(f)
		}
	}
}

// Timer mirrors *time.Timer for AfterFunc.
type Timer struct {
	real    *time.Timer
	when    time.Time
	f       func()
	fired   bool
	stopped bool
}

func (t *Timer) Stop() bool {
	if t.real != nil {
		return t.real.Stop()
	}
	was := !t.fired && !t.stopped
	t.stopped = true
	return was
}

// AfterFunc: under the scheduler the function runs as a new thread once the
// virtual clock has been advanced past the delay.
func AfterFunc(d time.Duration, f func()) *Timer {
	s := active
	if s == nil {
		return &Timer{real: time.AfterFunc(d, f)}
	}
	tm := &Timer{when: s.now.Add(d), f: f}
	s.timers = append(s.timers, tm)
	return tm
}

// PendingTimers counts timers neither fired nor stopped.
func (s *Scheduler) PendingTimers() int {
	n := 0
	for _, t := range s.timers {
		if !t.fired && !t.stopped {
			n++
		}
	}
	return n
}

// ------------------------------------------------------------ sync shims ----

// Mutex replaces sync.Mutex in instrumented sources.
type Mutex struct {
	real   sync.Mutex
	held   bool
	holder int
}

func (m *Mutex) Lock() {
	s := active
	if s == nil {
		m.real.Lock()
		return
	}
	Point("lock")
	s.block("mutex", func() bool { return m.held })
	m.held = true
	m.holder = s.cur.id
}

func (m *Mutex) Unlock() {
	s := active
	if s == nil {
		m.real.Unlock()
		return
	}
	if !m.held {
		panic("verifhook: unlock of unlocked mutex")
	}
	m.held = false
	Point("unlock")
}

func (m *Mutex) TryLock() bool {
	s := active
	if s == nil {
		return m.real.TryLock()
	}
	Point("trylock")
	if m.held {
		return false
	}
	m.held = true
	m.holder = s.cur.id
	return true
}

// RWMutex: modelled as exclusive for writers, shared for readers.
type RWMutex struct {
	real    sync.RWMutex
	writer  bool
	readers int
}

func (m *RWMutex) Lock() {
	s := active
	if s == nil {
		m.real.Lock()
		return
	}
	Point("wlock")
	s.block("rwmutex-w", func() bool { return m.writer || m.readers > 0 })
	m.writer = true
}
func (m *RWMutex) Unlock() {
	if active == nil {
		m.real.Unlock()
		return
	}
	m.writer = false
	Point("wunlock")
}
func (m *RWMutex) RLock() {
	s := active
	if s == nil {
		m.real.RLock()
		return
	}
	Point("rlock")
	s.block("rwmutex-r", func() bool { return m.writer })
	m.readers++
}
func (m *RWMutex) RUnlock() {
	if active == nil {
		m.real.RUnlock()
		return
	}
	m.readers--
	Point("runlock")
}

// WaitGroup replaces sync.WaitGroup.
type WaitGroup struct {
	real sync.WaitGroup
	n    int
}

func (w *WaitGroup) Add(d int) {
	if active == nil {
		w.real.Add(d)
		return
	}
	w.n += d
	if w.n < 0 {
		panic("verifhook: negative WaitGroup counter")
	}
	Point("wg.add")
}
func (w *WaitGroup) Done() { w.Add(-1) }
func (w *WaitGroup) Wait() {
	s := active
	if s == nil {
		w.real.Wait()
		return
	}
	Point("wg.wait")
	s.block("waitgroup", func() bool { return w.n > 0 })
}

// Map replaces sync.Map.
type Map struct {
	real sync.Map
	m    map[interface{}]interface{}
}

func (m *Map) Load(k interface{}) (interface{}, bool) {
	if active == nil {
		return m.real.Load(k)
	}
	Point("map.load")
	v, ok := m.m[k]
	return v, ok
}
func (m *Map) Store(k, v interface{}) {
	if active == nil {
		m.real.Store(k, v)
		return
	}
	Point("map.store")
	if m.m == nil {
		m.m = map[interface{}]interface{}{}
	}
	m.m[k] = v
}
func (m *Map) Delete(k interface{}) {
	if active == nil {
		m.real.Delete(k)
		return
	}
	Point("map.delete")
	delete(m.m, k)
}
func (m *Map) LoadOrStore(k, v interface{}) (interface{}, bool) {
	if active == nil {
		return m.real.LoadOrStore(k, v)
	}
	Point("map.loadorstore")
	if old, ok := m.m[k]; ok {
		return old, true
	}
	if m.m == nil {
		m.m = map[interface{}]interface{}{}
	}
	m.m[k] = v
	return v, false
}
func (m *Map) Range(f func(k, v interface{}) bool) {
	if active == nil {
		m.real.Range(f)
		return
	}
	Point("map.range")
	keys := make([]interface{}, 0, len(m.m))
	for k := range m.m {
		keys = append(keys, k)
	}
	sort.Slice(keys, func(i, j int) bool { return fmt.Sprint(keys[i]) < fmt.Sprint(keys[j]) })
	for _, k := range keys {
		v, ok := m.m[k]
		if !ok {
			continue
		}
		if !f(k, v) {
			return
		}
	}
}

// Len is for harness observation only.
func (m *Map) Len() int {
	if active == nil {
		n := 0
		m.real.Range(func(_, _ interface{}) bool { n++; return true })
		return n
	}
	return len(m.m)
}

// AtomicValue replaces atomic.Value.
type AtomicValue struct {
	real atomic.Value
	v    interface{}
}

func (a *AtomicValue) Load() interface{} {
	if active == nil {
		return a.real.Load()
	}
	Point("atomic.load")
	return a.v
}
func (a *AtomicValue) Store(v interface{}) {
	if active == nil {
		a.real.Store(v)
		return
	}
	Point("atomic.store")
	a.v = v
}
