// instr rewrites the library's sources (from a scratch copy of /repo's current
// tree) so that hidden nondeterminism becomes explicit: map iteration order,
// set Slice() order, the wall clock, package sync and goroutine spawns all go
// through verifhook. It emits rewritten files plus a `go build -overlay` JSON;
// /repo itself is never written.
package main

import (
	"bytes"
	"encoding/json"
	"flag"
	"fmt"
	"go/ast"
	"go/format"
	"go/importer"
	"go/parser"
	"go/token"
	"go/types"
	"os"
	"path/filepath"
	"sort"
	"strings"
)

const hookPath = "github.com/matrix-org/gomatrixserverlib/verifhook"

var stats = map[string]int{}
var skipped []string

func main() {
	repo := flag.String("repo", "/repo", "library tree (read only)")
	src := flag.String("src", "", "scratch copy of the tree used for type checking")
	out := flag.String("out", "", "output dir")
	bridge := flag.String("bridge", "", "bridge dir")
	hook := flag.String("hook", "", "verifhook dir")
	flag.Parse()
	overlay := map[string]string{}
	// bridge + hook package
	overlay[filepath.Join(*repo, "zz_verif_bridge.go")] = filepath.Join(*bridge, "root_bridge.go")
	overlay[filepath.Join(*repo, "fclient/zz_verif_bridge.go")] = filepath.Join(*bridge, "fclient_bridge.go")
	if _, err := os.Stat(filepath.Join(*bridge, "root_bridge_instr.go")); err == nil {
		overlay[filepath.Join(*repo, "zz_verif_bridge_instr.go")] = filepath.Join(*bridge, "root_bridge_instr.go")
	}
	if _, err := os.Stat(filepath.Join(*bridge, "fclient_bridge_instr.go")); err == nil {
		overlay[filepath.Join(*repo, "fclient/zz_verif_bridge_instr.go")] = filepath.Join(*bridge, "fclient_bridge_instr.go")
	}
	hf, _ := filepath.Glob(filepath.Join(*hook, "*.go"))
	for _, f := range hf {
		overlay[filepath.Join(*repo, "verifhook", filepath.Base(f))] = f
	}
	for _, pkg := range []string{".", "fclient", "tokens"} {
		if err := doPkg(*src, *repo, *out, pkg, overlay); err != nil {
			fmt.Fprintln(os.Stderr, "instr:", err)
			os.Exit(2)
		}
	}
	b, _ := json.MarshalIndent(map[string]interface{}{"Replace": overlay}, "", " ")
	if err := os.WriteFile(filepath.Join(*out, "overlay.json"), b, 0o644); err != nil {
		fmt.Fprintln(os.Stderr, err)
		os.Exit(2)
	}
	keys := make([]string, 0, len(stats))
	for k := range stats {
		keys = append(keys, k)
	}
	sort.Strings(keys)
	sb, _ := json.Marshal(map[string]interface{}{"rewrites": stats, "skipped": skipped, "unshimmed_sync_in_access_logged_methods": unshimmed})
	_ = os.WriteFile(filepath.Join(*out, "instr-stats.json"), sb, 0o644)
}

func doPkg(src, repo, out, pkg string, overlay map[string]string) error {
	dir := filepath.Join(src, pkg)
	fset := token.NewFileSet()
	pkgs, err := parser.ParseDir(fset, dir, func(fi os.FileInfo) bool { return !strings.HasSuffix(fi.Name(), "_test.go") }, parser.ParseComments)
	if err != nil {
		return err
	}
	for _, p := range pkgs {
		var files []*ast.File
		var names []string
		for fn := range p.Files {
			names = append(names, fn)
		}
		sort.Strings(names)
		for _, fn := range names {
			files = append(files, p.Files[fn])
		}
		var terr []string
		conf := types.Config{Importer: importer.ForCompiler(fset, "source", nil), Error: func(err error) { terr = append(terr, err.Error()) }}
		info := &types.Info{Types: map[ast.Expr]types.TypeAndValue{}, Uses: map[*ast.Ident]types.Object{}, Defs: map[*ast.Ident]types.Object{}, Selections: map[*ast.SelectorExpr]*types.Selection{}}
		old, _ := os.Getwd()
		_ = os.Chdir(dir)
		_, _ = conf.Check(p.Name, fset, files, info)
		_ = os.Chdir(old)
		if len(terr) > 0 {
			return fmt.Errorf("type errors in %s: %v", pkg, terr[:1])
		}
		for i, f := range files {
			base := filepath.Base(names[i])
			changed := rewriteFile(fset, f, info, pkg+"/"+base)
			if !changed {
				continue
			}
			var buf bytes.Buffer
			if err := format.Node(&buf, fset, f); err != nil {
				return fmt.Errorf("%s: %v", names[i], err)
			}
			od := filepath.Join(out, "src", pkg)
			_ = os.MkdirAll(od, 0o755)
			of := filepath.Join(od, base)
			if err := os.WriteFile(of, buf.Bytes(), 0o644); err != nil {
				return err
			}
			overlay[filepath.Join(repo, pkg, base)] = of
		}
	}
	return nil
}

func sel(x, s string) *ast.SelectorExpr {
	return &ast.SelectorExpr{X: ast.NewIdent(x), Sel: ast.NewIdent(s)}
}

func isPkgIdent(info *types.Info, e ast.Expr, path string) bool {
	id, ok := e.(*ast.Ident)
	if !ok {
		return false
	}
	pn, ok := info.Uses[id].(*types.PkgName)
	return ok && pn.Imported().Path() == path
}

func simpleExpr(e ast.Expr) bool {
	switch x := e.(type) {
	case *ast.Ident:
		return true
	case *ast.SelectorExpr:
		return simpleExpr(x.X)
	case *ast.ParenExpr:
		return simpleExpr(x.X)
	case *ast.StarExpr:
		return simpleExpr(x.X)
	case *ast.IndexExpr:
		return simpleExpr(x.X) && simpleExpr(x.Index)
	case *ast.BasicLit:
		return true
	}
	return false
}

var tmpN int

func rewriteFile(fset *token.FileSet, f *ast.File, info *types.Info, name string) bool {
	changed := false
	site := func(n ast.Node) *ast.BasicLit {
		p := fset.Position(n.Pos())
		return &ast.BasicLit{Kind: token.STRING, Value: fmt.Sprintf("%q", fmt.Sprintf("%s:%d", name, p.Line))}
	}
	// pass 1: expression-level rewrites
	ast.Inspect(f, func(n ast.Node) bool {
		switch x := n.(type) {
		case *ast.SelectorExpr:
			if isPkgIdent(info, x.X, "time") {
				switch x.Sel.Name {
				case "Now", "Since", "Until", "AfterFunc":
					x.X = ast.NewIdent("verifhook")
					stats["time."+x.Sel.Name]++
					changed = true
				}
			} else if isPkgIdent(info, x.X, "sync") {
				switch x.Sel.Name {
				case "Mutex", "RWMutex", "WaitGroup", "Map":
					x.X = ast.NewIdent("verifhook")
					stats["sync."+x.Sel.Name]++
					changed = true
				}
			} else if isPkgIdent(info, x.X, "sync/atomic") && x.Sel.Name == "Value" {
				x.X = ast.NewIdent("verifhook")
				x.Sel = ast.NewIdent("AtomicValue")
				stats["atomic.Value"]++
				changed = true
			}
		}
		return true
	})
	// pass 2: statement-level rewrites inside every block
	var fixBlock func(list []ast.Stmt) []ast.Stmt
	fixStmt := func(s ast.Stmt) ast.Stmt {
		switch x := s.(type) {
		case *ast.GoStmt:
			call := x.Call
			var pre []ast.Stmt
			for i, a := range call.Args {
				if _, lit := a.(*ast.BasicLit); lit {
					continue
				}
				tmpN++
				t := fmt.Sprintf("verifArg%d", tmpN)
				pre = append(pre, &ast.AssignStmt{Lhs: []ast.Expr{ast.NewIdent(t)}, Tok: token.DEFINE, Rhs: []ast.Expr{a}})
				call.Args[i] = ast.NewIdent(t)
			}
			goCall := &ast.ExprStmt{X: &ast.CallExpr{Fun: sel("verifhook", "Go"), Args: []ast.Expr{
				&ast.FuncLit{Type: &ast.FuncType{Params: &ast.FieldList{}}, Body: &ast.BlockStmt{List: []ast.Stmt{&ast.ExprStmt{X: call}}}}}}}
			stats["go-stmt"]++
			changed = true
			return &ast.BlockStmt{List: append(pre, goCall)}
		case *ast.SelectStmt:
			// a blocking select becomes a polling loop whose waits the scheduler sees:
			//   verifRetryN: select { ...; default: verifhook.WaitYield("select"); goto verifRetryN }
			for _, c := range x.Body.List {
				if c.(*ast.CommClause).Comm == nil {
					return s // already non-blocking
				}
			}
			tmpN++
			label := fmt.Sprintf("verifRetry%d", tmpN)
			x.Body.List = append(x.Body.List, &ast.CommClause{Body: []ast.Stmt{
				&ast.ExprStmt{X: &ast.CallExpr{Fun: sel("verifhook", "WaitYield"), Args: []ast.Expr{&ast.BasicLit{Kind: token.STRING, Value: `"select"`}}}},
				&ast.BranchStmt{Tok: token.GOTO, Label: ast.NewIdent(label)},
			}})
			stats["select"]++
			changed = true
			return &ast.LabeledStmt{Label: ast.NewIdent(label), Stmt: x}
		case *ast.RangeStmt:
			tv, ok := info.Types[x.X]
			if !ok {
				return s
			}
			switch tv.Type.Underlying().(type) {
			case *types.Chan:
				x.Body.List = append([]ast.Stmt{&ast.ExprStmt{X: &ast.CallExpr{Fun: sel("verifhook", "Point"), Args: []ast.Expr{&ast.BasicLit{Kind: token.STRING, Value: `"chan.recv"`}}}}}, x.Body.List...)
				stats["range-chan"]++
				changed = true
			case *types.Map:
				if x.Key == nil {
					skipped = append(skipped, fmt.Sprintf("%s:%d range without key", name, fset.Position(x.Pos()).Line))
					return s
				}
				if !simpleExpr(x.X) {
					skipped = append(skipped, fmt.Sprintf("%s:%d range over non-simple expression", name, fset.Position(x.Pos()).Line))
					return s
				}
				tmpN++
				kv := fmt.Sprintf("verifK%d", tmpN)
				vv := fmt.Sprintf("verifV%d", tmpN)
				okv := fmt.Sprintf("verifOK%d", tmpN)
				var pre []ast.Stmt
				pre = append(pre, &ast.AssignStmt{Lhs: []ast.Expr{ast.NewIdent(vv), ast.NewIdent(okv)}, Tok: token.DEFINE,
					Rhs: []ast.Expr{&ast.IndexExpr{X: x.X, Index: ast.NewIdent(kv)}}})
				pre = append(pre, &ast.IfStmt{Cond: &ast.UnaryExpr{Op: token.NOT, X: ast.NewIdent(okv)}, Body: &ast.BlockStmt{List: []ast.Stmt{&ast.BranchStmt{Tok: token.CONTINUE}}}})
				pre = append(pre, &ast.AssignStmt{Lhs: []ast.Expr{ast.NewIdent("_")}, Tok: token.ASSIGN, Rhs: []ast.Expr{ast.NewIdent(vv)}})
				isBlank := func(e ast.Expr) bool {
					id, ok := e.(*ast.Ident)
					return ok && id.Name == "_"
				}
				if !isBlank(x.Key) {
					pre = append(pre, &ast.AssignStmt{Lhs: []ast.Expr{x.Key}, Tok: x.Tok, Rhs: []ast.Expr{ast.NewIdent(kv)}})
				}
				if x.Value != nil && !isBlank(x.Value) {
					pre = append(pre, &ast.AssignStmt{Lhs: []ast.Expr{x.Value}, Tok: x.Tok, Rhs: []ast.Expr{ast.NewIdent(vv)}})
				}
				x.Body.List = append(pre, x.Body.List...)
				x.X = &ast.CallExpr{Fun: sel("verifhook", "Order"), Args: []ast.Expr{x.X, site(x)}}
				x.Key = ast.NewIdent("_")
				x.Value = ast.NewIdent(kv)
				x.Tok = token.DEFINE
				stats["range-map"]++
				changed = true
			}
		}
		return s
	}
	fixBlock = func(list []ast.Stmt) []ast.Stmt {
		for i, s := range list {
			if ls, ok := s.(*ast.LabeledStmt); ok {
				if inner, isSel := ls.Stmt.(*ast.SelectStmt); isSel {
					// keep the user's label on the select itself (break L), ours goes in front
					if r, ok := fixStmt(inner).(*ast.LabeledStmt); ok {
						ls.Stmt = r.Stmt
						r.Stmt = ls
						list[i] = r
					}
					continue
				}
				ls.Stmt = fixStmt(ls.Stmt)
				continue
			}
			list[i] = fixStmt(s)
		}
		return list
	}
	ast.Inspect(f, func(n ast.Node) bool {
		switch x := n.(type) {
		case *ast.BlockStmt:
			x.List = fixBlock(x.List)
		case *ast.CaseClause:
			x.Body = fixBlock(x.Body)
		case *ast.CommClause:
			x.Body = fixBlock(x.Body)
		}
		return true
	})
	// pass 2b: blocking receives outside select: <-ch becomes verifhook.Recv(ch) (a wait the scheduler sees)
	inSelectComm := map[ast.Node]bool{}
	ast.Inspect(f, func(n ast.Node) bool {
		if cc, ok := n.(*ast.CommClause); ok && cc.Comm != nil {
			ast.Inspect(cc.Comm, func(m ast.Node) bool {
				if m != nil {
					inSelectComm[m] = true
				}
				return true
			})
		}
		return true
	})
	recvCall := func(u *ast.UnaryExpr, two bool) ast.Expr {
		name := "Recv"
		if two {
			name = "Recv2"
		}
		stats["chan-recv"]++
		changed = true
		return &ast.CallExpr{Fun: sel("verifhook", name), Args: []ast.Expr{u.X}}
	}
	isRecv := func(e ast.Expr) (*ast.UnaryExpr, bool) {
		u, ok := e.(*ast.UnaryExpr)
		if ok && u.Op == token.ARROW && !inSelectComm[u] {
			return u, true
		}
		return nil, false
	}
	ast.Inspect(f, func(n ast.Node) bool {
		switch x := n.(type) {
		case *ast.AssignStmt:
			if inSelectComm[x] {
				return true
			}
			if len(x.Rhs) == 1 {
				if u, ok := isRecv(x.Rhs[0]); ok {
					x.Rhs[0] = recvCall(u, len(x.Lhs) == 2)
				}
			}
		case *ast.ExprStmt:
			if inSelectComm[x] {
				return true
			}
			if u, ok := isRecv(x.X); ok {
				x.X = recvCall(u, false)
			}
		case *ast.ReturnStmt:
			for i, r := range x.Results {
				if u, ok := isRecv(r); ok {
					x.Results[i] = recvCall(u, false)
				}
			}
		case *ast.CallExpr:
			for i, a := range x.Args {
				if u, ok := isRecv(a); ok {
					x.Args[i] = recvCall(u, false)
				}
			}
		}
		return true
	})
	// pass 3: set.Slice() -> Permute
	wrapped := map[*ast.CallExpr]bool{}
	var wrapSlice func(e *ast.Expr)
	wrapSlice = func(e *ast.Expr) {
		call, ok := (*e).(*ast.CallExpr)
		if !ok || wrapped[call] {
			return
		}
		se, ok := call.Fun.(*ast.SelectorExpr)
		if !ok || se.Sel.Name != "Slice" {
			return
		}
		tv, ok := info.Types[se.X]
		if !ok || !strings.Contains(tv.Type.String(), "go-set") {
			return
		}
		wrapped[call] = true
		*e = &ast.CallExpr{Fun: sel("verifhook", "Permute"), Args: []ast.Expr{call, site(call)}}
		stats["set.Slice"]++
		changed = true
	}
	ast.Inspect(f, func(n ast.Node) bool {
		switch x := n.(type) {
		case *ast.AssignStmt:
			for i := range x.Rhs {
				wrapSlice(&x.Rhs[i])
			}
		case *ast.RangeStmt:
			wrapSlice(&x.X)
		case *ast.CallExpr:
			for i := range x.Args {
				wrapSlice(&x.Args[i])
			}
		case *ast.ReturnStmt:
			for i := range x.Results {
				wrapSlice(&x.Results[i])
			}
		}
		return true
	})
	if addAccessLogging(f, info, name) {
		changed = true
	}
	if !changed {
		return false
	}
	// imports: add verifhook, drop imports that became unused
	used := map[string]bool{}
	ast.Inspect(f, func(n ast.Node) bool {
		if se, ok := n.(*ast.SelectorExpr); ok {
			if id, ok := se.X.(*ast.Ident); ok {
				if pn, ok := info.Uses[id].(*types.PkgName); ok {
					used[pn.Imported().Path()] = true
				}
			}
		}
		return true
	})
	for _, d := range f.Decls {
		gd, ok := d.(*ast.GenDecl)
		if !ok || gd.Tok != token.IMPORT {
			continue
		}
		var keep []ast.Spec
		for _, sp := range gd.Specs {
			is := sp.(*ast.ImportSpec)
			path := strings.Trim(is.Path.Value, `"`)
			if (path == "time" || path == "sync" || path == "sync/atomic") && !used[path] {
				continue
			}
			keep = append(keep, sp)
		}
		keep = append(keep, &ast.ImportSpec{Path: &ast.BasicLit{Kind: token.STRING, Value: fmt.Sprintf("%q", hookPath)}})
		gd.Specs = keep
		gd.Lparen = token.Pos(1) // force parenthesised form
		break
	}
	// drop stale f.Imports-based unused detection; also remove comments attached to deleted specs (none)
	return true
}

// accessTypes are the struct types whose pointer-receiver methods get memory-access logging: every statement that
// reads or writes a field through the receiver is preceded by verifhook.Access(recv, field, isWrite, site). The harness
// derives data races from these records with vector clocks (exhaustively over schedules), see cmd/c19.
var accessTypes = map[string]bool{"eventV1": true, "eventV2": true, "eventV3": true, "DNSCache": true, "destinationTripper": true}

// unshimmed reports uses of synchronisation primitives the scheduler does not model (written to the stats file).
var unshimmed = map[string]int{}

func addAccessLogging(f *ast.File, info *types.Info, name string) bool {
	changed := false
	for _, d := range f.Decls {
		fd, ok := d.(*ast.FuncDecl)
		if !ok || fd.Recv == nil || fd.Body == nil || len(fd.Recv.List) != 1 || len(fd.Recv.List[0].Names) != 1 {
			continue
		}
		st, ok := fd.Recv.List[0].Type.(*ast.StarExpr)
		if !ok {
			continue
		}
		tn, ok := st.X.(*ast.Ident)
		if !ok || !accessTypes[tn.Name] {
			continue
		}
		recvIdent := fd.Recv.List[0].Names[0]
		recvObj := info.Defs[recvIdent]
		if recvObj == nil || recvIdent.Name == "_" {
			continue
		}
		isRecv := func(e ast.Expr) bool {
			id, ok := e.(*ast.Ident)
			return ok && info.Uses[id] == recvObj
		}
		type acc struct {
			field string
			write bool
		}
		// fieldOf: e.f (a field, not a method) or *e
		fieldOf := func(e ast.Expr) (string, bool) {
			switch x := e.(type) {
			case *ast.SelectorExpr:
				if isRecv(x.X) {
					if sel := info.Selections[x]; sel != nil && sel.Kind() == types.FieldVal {
						return x.Sel.Name, true
					}
				}
			case *ast.StarExpr:
				if isRecv(x.X) {
					return "*", true
				}
			}
			return "", false
		}
		var collect func(e ast.Expr, out *[]acc)
		collect = func(e ast.Expr, out *[]acc) {
			if e == nil {
				return
			}
			ast.Inspect(e, func(n ast.Node) bool {
				switch x := n.(type) {
				case *ast.FuncLit:
					return false
				case ast.Expr:
					if fl, ok := fieldOf(x); ok {
						*out = append(*out, acc{fl, false})
					}
				}
				return true
			})
		}
		// rootWrite: the field written by an assignment target such as e.f, e.f.g, e.f[k], *e
		var rootWrite func(e ast.Expr, out *[]acc)
		rootWrite = func(e ast.Expr, out *[]acc) {
			switch x := e.(type) {
			case *ast.ParenExpr:
				rootWrite(x.X, out)
			case *ast.IndexExpr:
				collect(x.Index, out)
				rootWrite(x.X, out)
			case *ast.SelectorExpr:
				if fl, ok := fieldOf(x); ok {
					*out = append(*out, acc{fl, true})
					return
				}
				rootWrite(x.X, out)
			case *ast.StarExpr:
				if fl, ok := fieldOf(x); ok {
					*out = append(*out, acc{fl, true})
					return
				}
				collect(x.X, out)
			}
		}
		var header func(s ast.Stmt, out *[]acc)
		header = func(s ast.Stmt, out *[]acc) {
			switch x := s.(type) {
			case *ast.AssignStmt:
				for _, r := range x.Rhs {
					collect(r, out)
				}
				for _, l := range x.Lhs {
					if x.Tok == token.DEFINE {
						continue
					}
					rootWrite(l, out)
				}
			case *ast.IncDecStmt:
				rootWrite(x.X, out)
			case *ast.ExprStmt:
				if call, ok := x.X.(*ast.CallExpr); ok {
					if id, ok := call.Fun.(*ast.Ident); ok && id.Name == "delete" && len(call.Args) == 2 {
						rootWrite(call.Args[0], out)
						collect(call.Args[1], out)
						return
					}
				}
				collect(x.X, out)
			case *ast.ReturnStmt:
				for _, r := range x.Results {
					collect(r, out)
				}
			case *ast.IfStmt:
				if x.Init != nil {
					header(x.Init, out)
				}
				collect(x.Cond, out)
				if e, ok := x.Else.(*ast.IfStmt); ok {
					header(e, out)
				}
			case *ast.ForStmt:
				if x.Init != nil {
					header(x.Init, out)
				}
				collect(x.Cond, out)
				if x.Post != nil {
					header(x.Post, out)
				}
			case *ast.RangeStmt:
				collect(x.X, out)
			case *ast.SwitchStmt:
				if x.Init != nil {
					header(x.Init, out)
				}
				collect(x.Tag, out)
				for _, c := range x.Body.List {
					for _, e := range c.(*ast.CaseClause).List {
						collect(e, out)
					}
				}
			case *ast.TypeSwitchStmt:
				if x.Init != nil {
					header(x.Init, out)
				}
				header(x.Assign, out)
			case *ast.DeferStmt:
				collect(x.Call, out)
			case *ast.GoStmt:
				collect(x.Call, out)
			case *ast.SendStmt:
				collect(x.Chan, out)
				collect(x.Value, out)
			case *ast.DeclStmt:
				if gd, ok := x.Decl.(*ast.GenDecl); ok {
					for _, sp := range gd.Specs {
						if vs, ok := sp.(*ast.ValueSpec); ok {
							for _, v := range vs.Values {
								collect(v, out)
							}
						}
					}
				}
			case *ast.LabeledStmt:
				header(x.Stmt, out)
			}
		}
		var fix func(list []ast.Stmt) []ast.Stmt
		fix = func(list []ast.Stmt) []ast.Stmt {
			var outList []ast.Stmt
			for _, s := range list {
				var as []acc
				header(s, &as)
				seen := map[acc]bool{}
				for _, a := range as {
					if seen[a] || (!a.write && seen[acc{a.field, true}]) {
						continue
					}
					seen[a] = true
					w := "false"
					if a.write {
						w = "true"
					}
					outList = append(outList, &ast.ExprStmt{X: &ast.CallExpr{Fun: sel("verifhook", "Access"), Args: []ast.Expr{
						ast.NewIdent(recvIdent.Name), &ast.BasicLit{Kind: token.STRING, Value: fmt.Sprintf("%q", a.field)}, ast.NewIdent(w),
						&ast.BasicLit{Kind: token.STRING, Value: fmt.Sprintf("%q", tn.Name+"."+fd.Name.Name)}}}})
					stats["access-log"]++
					changed = true
				}
				outList = append(outList, s)
			}
			return outList
		}
		ast.Inspect(fd.Body, func(n ast.Node) bool {
			switch x := n.(type) {
			case *ast.FuncLit:
				return false
			case *ast.BlockStmt:
				x.List = fix(x.List)
			case *ast.CaseClause:
				x.Body = fix(x.Body)
			case *ast.CommClause:
				x.Body = fix(x.Body)
			}
			return true
		})
		// synchronisation the scheduler does not model, used inside these methods: the vector-clock verdict is then unusable
		ast.Inspect(fd.Body, func(n ast.Node) bool {
			switch y := n.(type) {
			case *ast.SendStmt, *ast.SelectStmt:
				unshimmed[tn.Name+"."+fd.Name.Name+": channel operation"]++
			case *ast.UnaryExpr:
				if y.Op == token.ARROW {
					unshimmed[tn.Name+"."+fd.Name.Name+": channel operation"]++
				}
			case *ast.CallExpr:
				if id, ok := y.Fun.(*ast.Ident); ok && id.Name == "close" {
					unshimmed[tn.Name+"."+fd.Name.Name+": channel operation"]++
				}
			}
			if se, ok := n.(*ast.SelectorExpr); ok {
				if isPkgIdent(info, se.X, "sync/atomic") && se.Sel.Name != "Value" {
					unshimmed[tn.Name+"."+fd.Name.Name+": atomic."+se.Sel.Name]++
				}
				if tv, ok := info.Types[se.X]; ok && tv.Type != nil {
					ts := strings.TrimPrefix(tv.Type.String(), "*")
					if strings.HasPrefix(ts, "sync.Once") || strings.HasPrefix(ts, "sync.Cond") || (strings.HasPrefix(ts, "sync/atomic.") && ts != "sync/atomic.Value") {
						unshimmed[tn.Name+"."+fd.Name.Name+": "+ts]++
					}
				}
			}
			return true
		})
	}
	return changed
}
