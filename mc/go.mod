module verif/mc

go 1.23.0

require (
	github.com/matrix-org/gomatrixserverlib v0.0.0
	github.com/miekg/dns v1.1.66
	github.com/sirupsen/logrus v1.9.3
	golang.org/x/crypto v0.38.0
	gopkg.in/macaroon.v2 v2.1.0
)

require (
	github.com/anishathalye/porcupine v1.3.0
	github.com/hashicorp/go-set/v3 v3.0.0 // indirect
	github.com/matrix-org/gomatrix v0.0.0-20220926102614-ceba4d9f7530 // indirect
	github.com/matrix-org/util v0.0.0-20221111132719-399730281e66 // indirect
	github.com/oleiade/lane/v2 v2.0.0 // indirect
	github.com/tidwall/gjson v1.18.0 // indirect
	github.com/tidwall/match v1.1.1 // indirect
	github.com/tidwall/pretty v1.2.1 // indirect
	github.com/tidwall/sjson v1.2.5
	golang.org/x/exp v0.0.0-20220827204233-334a2380cb91 // indirect
	golang.org/x/net v0.40.0 // indirect
	golang.org/x/sys v0.33.0 // indirect
)

replace github.com/matrix-org/gomatrixserverlib => /repo
