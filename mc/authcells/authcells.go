// Package authcells enumerates the abstract authorisation rule space per event
// class and concretises every cell into an authgen.Scenario (used by C07, C09).
package authcells

import (
	"fmt"
	"regexp"
	"strings"

	"verif/mc/authgen"
	"verif/mc/evgen"
	"verif/mc/ref/refversions"
)

const (
	C = "@c:a.org" // room creator
	T = "@t:a.org" // target
	X = "@x:a.org" // authorising user for restricted joins
)

type Cell struct {
	Class  string
	Coord  []int
	Labels []string
	Sc     authgen.Scenario
}

func (c Cell) Key() string { return c.Class + fmt.Sprint(c.Coord) }

func member(user, membership string) authgen.SE {
	return authgen.SE{ID: "$m" + strings.NewReplacer("@", "", ":", "_", ".", "_").Replace(user) + strings.Repeat("m", 30), Type: "m.room.member", StateKey: user, Sender: user, Content: `{"membership":"` + membership + `"}`}
}

func createSE(version string, federate int, extra string) authgen.SE {
	c := `{"creator":"` + C + `","room_version":"` + version + `"` + extra
	switch federate {
	case 1:
		c += `,"m.federate":true`
	case 2:
		c += `,"m.federate":false`
	}
	return authgen.SE{ID: authgen.CreateID, Type: "m.room.create", StateKey: "", Sender: C, Content: c + "}"}
}

var memberships = []string{"", "join", "invite", "leave", "ban", "knock"} // "" = no member event
var joinRules = []string{"", "public", "invite", "knock", "restricted", "knock_restricted", "bogus"}

func jrSE(rule string) (authgen.SE, bool) {
	if rule == "" {
		return authgen.SE{}, false
	}
	return authgen.SE{ID: "$jr" + strings.Repeat("j", 41), Type: "m.room.join_rules", StateKey: "", Sender: C, Content: `{"join_rule":"` + rule + `"}`}, true
}

// power-level configurations: content with %S / %T replaced by sender / target
var plConfigs = []string{
	"", // no power_levels event
	`{}`,
	`{"users":{"%S":50}}`,
	`{"users":{"%S":49}}`,
	`{"users":{"%S":50,"%T":50}}`,
	`{"users":{"%S":50,"%T":51}}`,
	`{"users":{"%S":100,"%T":50,"@x:a.org":70},"ban":60,"kick":40,"invite":70,"redact":55,"state_default":45,"events_default":5}`,
	`{"users":{"%S":69,"@x:a.org":69},"invite":70,"ban":69,"kick":70}`,
	`{"users":{"%S":"50","%T":" 7 "},"ban":"50","kick":50.9}`,
	`{"users":{"%T":10},"users_default":50}`,
	`{"users":{"%S":51,"%T":50,"@x:a.org":0},"invite":0}`,
	// levels at the ends of the int64 range (a rule written as level+1 or -level wraps there)
	`{"users":{"%S":50,"%T":9223372036854775807}}`,
	`{"users":{"%S":9223372036854775807,"%T":9223372036854775806},"ban":9223372036854775807,"users_default":-9223372036854775808}`,
}

func plSE(cfg int, sender, target string) (authgen.SE, bool) {
	if plConfigs[cfg] == "" {
		return authgen.SE{}, false
	}
	c := strings.NewReplacer("%S", sender, "%T", target).Replace(plConfigs[cfg])
	return authgen.SE{ID: "$pl" + strings.Repeat("p", 41), Type: "m.room.power_levels", StateKey: "", Sender: C, Content: c}, true
}

// federation configurations: (m.federate mode, sender server)
var fedConfigs = []struct {
	fed    int
	server string
}{{0, "a.org"}, {0, "b.org"}, {2, "a.org"}, {2, "b.org"}, {1, "b.org"}}

func baseState(version string, fed int, pl int, rule string, sender, target string) []authgen.SE {
	st := []authgen.SE{createSE(version, fed, "")}
	if s, ok := plSE(pl, sender, target); ok {
		st = append(st, s)
	}
	if s, ok := jrSE(rule); ok {
		st = append(st, s)
	}
	return st
}

func GenMember(version string) []Cell {
	var out []Cell
	newMs := []string{"join", "invite", "leave", "ban", "knock", "bogus"}
	for ni, nm := range newMs {
		for fi, fc := range fedConfigs {
			for _, senderIsCreator := range []int{0, 1} {
				sender := "@s:" + fc.server
				if senderIsCreator == 1 {
					if fc.server != "a.org" {
						continue
					}
					sender = C
				}
				for pi := range plConfigs {
					// self
					for oi, old := range memberships {
						for ri, rule := range joinRules {
							vias := []int{0}
							if nm == "join" && (rule == "restricted" || rule == "knock_restricted") {
								vias = []int{0, 1, 2, 3, 4, 5}
							}
							for _, via := range vias {
								if via == 5 && sender == C {
									continue // the joiner cannot be its own authoriser (would put two member events of one user into the state)
								}
								prevs := []int{0}
								if senderIsCreator == 1 && nm == "join" {
									prevs = []int{0, 1, 2}
								}
								for _, pv := range prevs {
									st := baseState(version, fc.fed, pi, rule, sender, T)
									if old != "" {
										st = append(st, member(sender, old))
									}
									content := `{"membership":"` + nm + `"`
									switch via {
									case 1: // authoriser joined (level depends on the PL config)
										st = append(st, member(X, "join"))
										content += `,"join_authorised_via_users_server":"` + X + `"`
									case 2: // authoriser not joined
										st = append(st, member(X, "leave"))
										content += `,"join_authorised_via_users_server":"` + X + `"`
									case 3: // authoriser has no member event
										content += `,"join_authorised_via_users_server":"` + X + `"`
									case 4: // malformed
										content += `,"join_authorised_via_users_server":"not-a-user-id"`
									case 5: // the creator authorises (privileged in v12; 2^53-1 without a PL event)
										st = append(st, member(C, "join"))
										content += `,"join_authorised_via_users_server":"` + C + `"`
									}
									content += "}"
									prev := []string{"$someprev" + strings.Repeat("x", 34)}
									switch pv {
									case 1:
										prev = []string{authgen.CreateID}
									case 2:
										prev = []string{authgen.CreateID, "$other" + strings.Repeat("x", 37)}
									}
									sc := authgen.Scenario{Version: version, State: st, Event: authgen.Ev{Type: "m.room.member", StateKey: evgen.S(sender), Sender: sender, Content: content, Prev: prev}}
									out = append(out, Cell{"member-self", []int{ni, fi, senderIsCreator, pi, oi, ri, via, pv}, []string{"new=" + nm, fmt.Sprint("fed=", fc), fmt.Sprint("creator=", senderIsCreator), fmt.Sprint("pl=", pi), "old=" + old, "rule=" + rule, fmt.Sprint("via=", via), fmt.Sprint("prev=", pv)}, sc})
								}
							}
						}
					}
					// other
					targets := []string{T}
					if refversions.Get(version).PrivilegedCreators || pi <= 3 {
						targets = []string{T, C, "@d:a.org"} // the create sender and an additional creator as targets
					}
					for tgi, T := range targets {
						if T == sender {
							continue
						}
					for si, sold := range memberships {
						for ti, told := range memberships {
							st := baseState(version, fc.fed, pi, "invite", sender, T)
							if refversions.Get(version).PrivilegedCreators {
								st[0] = createSE(version, fc.fed, `,"additional_creators":["@d:a.org"]`)
								if pi > 0 && (T == C || T == "@d:a.org") {
									// creators never appear in the users map of a v12 room
									st[1].Content = strings.NewReplacer(`,"`+T+`":50`, "", `,"`+T+`":51`, "", `"`+T+`":10`, "", `"`+T+`":" 7 "`, `"@z:a.org":7`).Replace(st[1].Content)
								}
							}
							if sold != "" {
								st = append(st, member(sender, sold))
							}
							if told != "" {
								st = append(st, member(T, told))
							}
							sc := authgen.Scenario{Version: version, State: st, Event: authgen.Ev{Type: "m.room.member", StateKey: evgen.S(T), Sender: sender, Content: `{"membership":"` + nm + `"}`, Prev: []string{"$someprev" + strings.Repeat("x", 34)}}}
							out = append(out, Cell{"member-other", []int{ni, fi, senderIsCreator, pi, si, ti, tgi}, []string{"new=" + nm, fmt.Sprint("fed=", fc), fmt.Sprint("creator=", senderIsCreator), fmt.Sprint("pl=", pi), "sender-old=" + sold, "target-old=" + told, "target=" + T}, sc})
						}
					}
					}
				}
			}
		}
	}
	return out
}

func GenThirdParty(version string) []Cell {
	var out []Cell
	for mi, mxid := range []string{T, "@other:a.org"} {
		for ti, tokenMode := range []string{"match", "absent-event", "no-token"} {
			for ki, keys := range []string{"right", "wrong", "wrong+right", "none", "malformed-short"} {
				for si, sig := range []string{"valid", "corrupt", "none", "other-key"} {
					for fi, fc := range fedConfigs {
						for smi, sm := range []string{"join", "leave"} {
							for tmi, tm := range []string{"", "ban", "join"} {
								sender := "@s:" + fc.server
								st := baseState(version, fc.fed, 1, "invite", sender, T)
								st = append(st, member(sender, sm))
								if tm != "" {
									st = append(st, member(T, tm))
								}
								pk := func(k evgen.Key) string { return `{"public_key":"` + b64(k.Pub) + `","key_validity_url":"https://id.org/v"}` }
								var pks string
								switch keys {
								case "right":
									pks = pk(authgen.IDServerKey)
								case "wrong":
									pks = pk(authgen.OtherIDKey)
								case "wrong+right":
									pks = pk(authgen.OtherIDKey) + "," + pk(authgen.IDServerKey)
								case "malformed-short":
									pks = `{"public_key":"AAAA","key_validity_url":"x"}`
								}
								if tokenMode != "absent-event" {
									st = append(st, authgen.SE{ID: "$tpi" + strings.Repeat("t", 40), Type: "m.room.third_party_invite", StateKey: "tok", Sender: sender, Content: `{"display_name":"d","key_validity_url":"https://id.org/v","public_key":"` + b64(authgen.IDServerKey.Pub) + `","public_keys":[` + pks + `]}`})
								}
								token := "tok"
								if tokenMode == "no-token" {
									token = ""
								}
								var k *evgen.Key
								corrupt := false
								switch sig {
								case "valid":
									k = &authgen.IDServerKey
								case "corrupt":
									k, corrupt = &authgen.IDServerKey, true
								case "other-key":
									k = &authgen.OtherIDKey
								}
								signed := authgen.SignedBlock(mxid, token, k, corrupt)
								content := `{"membership":"invite","third_party_invite":{"display_name":"d","signed":` + signed + `}}`
								sc := authgen.Scenario{Version: version, State: st, Event: authgen.Ev{Type: "m.room.member", StateKey: evgen.S(T), Sender: sender, Content: content, Prev: []string{"$p" + strings.Repeat("x", 42)}}}
								out = append(out, Cell{"member-3pid", []int{mi, ti, ki, si, fi, smi, tmi, 0}, []string{"mxid=" + mxid, "token=" + tokenMode, "keys=" + keys, "sig=" + sig, fmt.Sprint("fed=", fc), "sender=" + sm, "target=" + tm, "membership=invite"}, sc})
								// the same third_party_invite block kept on a later join / leave of the invited user
								if fc.server == "a.org" && smi == 0 {
									for nmi, nm := range []string{"join", "leave"} {
										c2 := `{"membership":"` + nm + `","third_party_invite":{"display_name":"d","signed":` + signed + `}}`
										st2 := append([]authgen.SE(nil), st...)
										if tm == "" {
											st2 = append(st2, member(T, "invite"))
										}
										sc2 := authgen.Scenario{Version: version, State: st2, Event: authgen.Ev{Type: "m.room.member", StateKey: evgen.S(T), Sender: T, Content: c2, Prev: []string{"$p" + strings.Repeat("x", 42)}}}
										out = append(out, Cell{"member-3pid", []int{mi, ti, ki, si, fi, smi, tmi, 1 + nmi}, []string{"mxid=" + mxid, "token=" + tokenMode, "keys=" + keys, "sig=" + sig, fmt.Sprint("fed=", fc), "sender=" + sm, "target=" + tm, "membership=" + nm + " (self)"}, sc2})
									}
								}
							}
						}
					}
				}
			}
		}
	}
	return out
}

func b64(b []byte) string { return evgen.B64(b) }

func GenCreate(version string) []Cell {
	var out []Cell
	row := refversions.Get(version)
	for pi, prev := range [][]string{nil, {"$p" + strings.Repeat("x", 42)}} {
		for si, sk := range []*string{evgen.S(""), evgen.S("x"), nil} {
			for ri, room := range []string{"", "!other:b.org", "-"} {
				for vi, rv := range []string{"", `"` + version + `"`, `"1"`, `"unknown.version"`, `5`, `null`} {
					for ci, creator := range []string{`"` + C + `"`, "", `null`, `5`} {
						for ai, ac := range []string{"", `["@d:a.org"]`, `["not a user"]`, `[5]`, `"x"`} {
							if ai > 0 && !row.DomainlessRoomIDs {
								continue
							}
							var parts []string
							if rv != "" {
								parts = append(parts, `"room_version":`+rv)
							}
							if creator != "" {
								parts = append(parts, `"creator":`+creator)
							}
							if ac != "" {
								parts = append(parts, `"additional_creators":`+ac)
							}
							r := room
							if row.DomainlessRoomIDs {
								switch ri {
								case 0:
									r = "" // no room_id field (as v12 requires)
								case 1:
									r = "!" + authgen.CreateID[1:] // room_id present
								case 2:
									continue
								}
							} else if ri == 2 {
								continue
							}
							sc := authgen.Scenario{Version: version, Event: authgen.Ev{Type: "m.room.create", StateKey: sk, Sender: C, Content: "{" + strings.Join(parts, ",") + "}", Prev: prev, Room: r}}
							out = append(out, Cell{"create", []int{pi, si, ri, vi, ci, ai}, []string{fmt.Sprint("prev=", len(prev)), fmt.Sprint("sk=", si), "room=" + r, "room_version=" + rv, "creator=" + creator, "additional=" + ac}, sc})
						}
					}
				}
			}
		}
	}
	return out
}

func GenOther(version string) []Cell {
	var out []Cell
	types := []struct {
		typ string
		sk  func(sender string) *string
	}{
		{"m.room.message", func(string) *string { return nil }},
		{"m.room.topic", func(string) *string { return evgen.S("") }},
		{"m.room.third_party_invite", func(string) *string { return evgen.S("tok") }},
		{"x.user.state", func(s string) *string { return evgen.S(s) }},
		{"x.user.state", func(string) *string { return evgen.S(T) }},
		{"x.user.state", func(string) *string { return evgen.S("@") }},
		{"m.room.aliases", func(s string) *string { return evgen.S(s[strings.IndexByte(s, ':')+1:]) }},
		{"m.room.aliases", func(string) *string { return evgen.S("c.org") }},
		{"m.room.aliases", func(string) *string { return nil }},
		{"m.room.join_rules", func(string) *string { return evgen.S("") }},
		{"m.room.redaction", func(string) *string { return nil }},
	}
	pls := []string{"", `{}`, `{"users":{"%S":50}}`, `{"users":{"%S":49}}`, `{"users":{"%S":50},"events":{"%E":51}}`, `{"users":{"%S":50},"events":{"%E":50}}`, `{"users":{"%S":10},"events":{"%E":10},"state_default":99,"events_default":99}`,
		`{"users":{"%S":4},"events_default":5,"state_default":4,"invite":5}`, `{"users":{"%S":5},"events_default":5,"state_default":6,"invite":5,"redact":6}`, `{"users_default":55,"state_default":55,"redact":56}`}
	for ti, tp := range types {
		for fi, fc := range fedConfigs {
			for ci, sIsC := range []int{0, 1} {
				sender := "@s:" + fc.server
				if sIsC == 1 {
					if fc.server != "a.org" {
						continue
					}
					sender = C
				}
				for mi, sm := range memberships {
					for pi, pl := range pls {
						for cri, cr := range []int{0, 1, 2} { // create: present / absent / other room
							for rdi, rd := range []string{"", "$target:a.org", "$target:b.org", "$nocolon"} {
								if (tp.typ != "m.room.redaction") != (rd == "") {
									continue
								}
								rvs := []string{version}
								if tp.typ == "m.room.redaction" {
									rvs = []string{version, "1", "", "3"}
								}
								for rvi, rv := range rvs {
									var st []authgen.SE
									cs := createSE(version, fc.fed, "")
									if rv != version {
										if rv == "" {
											cs.Content = strings.Replace(cs.Content, `,"room_version":"`+version+`"`, "", 1)
										} else {
											cs.Content = strings.Replace(cs.Content, `"room_version":"`+version+`"`, `"room_version":"`+rv+`"`, 1)
										}
									}
									switch cr {
									case 0:
										st = append(st, cs)
									case 2:
										if refversions.Get(version).DomainlessRoomIDs {
											continue
										}
										cs.Room = "!elsewhere:a.org"
										st = append(st, cs)
									}
									if pl != "" {
										c := strings.NewReplacer("%S", sender, "%E", tp.typ).Replace(pl)
										room := ""
										if cr == 2 {
											room = "!elsewhere:a.org"
										}
										st = append(st, authgen.SE{ID: "$pl" + strings.Repeat("p", 41), Type: "m.room.power_levels", StateKey: "", Sender: C, Content: c, Room: room})
									}
									if sm != "" {
										m := member(sender, sm)
										if cr == 2 {
											m.Room = "!elsewhere:a.org"
										}
										st = append(st, m)
									}
									sc := authgen.Scenario{Version: version, State: st, Event: authgen.Ev{Type: tp.typ, StateKey: tp.sk(sender), Sender: sender, Content: `{"k":"v","join_rule":"public"}`, Prev: []string{"$p" + strings.Repeat("x", 42)}, Redacts: rd}}
									out = append(out, Cell{"other", []int{ti, fi, ci, mi, pi, cri, rdi, rvi}, []string{"type=" + tp.typ, fmt.Sprint("sk#", ti), fmt.Sprint("fed=", fc), fmt.Sprint("creator=", sIsC), "sender=" + sm, fmt.Sprint("pl=", pi), fmt.Sprint("create=", cr), "redacts=" + rd, "create.room_version=" + rv}, sc})
								}
							}
						}
					}
				}
			}
		}
	}
	// auth events drawn from two rooms
	if !refversions.Get(version).DomainlessRoomIDs {
		sender := "@s:a.org"
		st := baseState(version, 0, 1, "public", sender, T)
		m := member(sender, "join")
		m.Room = "!elsewhere:a.org"
		st = append(st, m)
		out = append(out, Cell{"other", []int{99}, []string{"mixed rooms"}, authgen.Scenario{Version: version, State: st, Event: authgen.Ev{Type: "m.room.message", Sender: sender, Content: `{}`, Prev: []string{"$p:a.org"}}}})
	}
	return out
}

var senderEntry = regexp.MustCompile(`"@c:a\.org":("[^"]*"|[0-9.]+),?`)

func GenPowerLevels(version string) []Cell {
	var out []Cell
	S := "@s:a.org"
	olds := []string{"", `{"users":{"%S":50}}`, `{"users":{"%S":50,"%T":50,"@u:a.org":49},"events":{"m.room.name":50,"m.x":51},"notifications":{"room":49,"x":51},"users_default":0}`,
		`{"users":{"%S":50},"ban":51,"kick":49,"events_default":0,"users_default":49,"state_default":50}`,
		`{"users":{"%S":50,"%T":10},"users_default":60,"events":{"m.room.name":100}}`}
	edits := []string{
		`%OLD`, // unchanged
		`{"users":{"%S":50},"users_default":51}`, `{"users":{"%S":50},"users_default":50}`, `{"users":{"%S":50},"users_default":1}`,
		`{"users":{"%S":50,"%T":51}}`, `{"users":{"%S":50,"%T":50}}`, `{"users":{"%S":51}}`, `{"users":{"%S":49}}`, `{"users":{}}`,
		`{"users":{"%S":50},"ban":51}`, `{"users":{"%S":50},"ban":50}`, `{"users":{"%S":50},"kick":51}`, `{"users":{"%S":50},"invite":51}`, `{"users":{"%S":50},"redact":51}`,
		`{"users":{"%S":50},"state_default":51}`, `{"users":{"%S":50},"events_default":51}`, `{"users":{"%S":50},"events":{"m.room.name":51}}`, `{"users":{"%S":50},"events":{"m.room.name":50}}`,
		`{"users":{"%S":50},"events":{"m.x":0}}`, `{"users":{"%S":50},"events":{}}`, `{"users":{"%S":50},"notifications":{"room":51}}`, `{"users":{"%S":50},"notifications":{"room":50}}`, `{"users":{"%S":50},"notifications":{"room":49,"x":50}}`, `{"users":{"%S":50},"notifications":{}}`,
		`{"users":{"%S":50,"no-sigil:a.org":1}}`, `{"users":{"%S":50,"@nocolon":1}}`, `{"users":{"%S":50,"":1}}`,
		`{"users":{"%S":"50"}}`, `{"users":{"%S":50.5}}`, `{"users":{"%S":50},"ban":"50"}`, `{"users":{"%S":50},"ban":1.5}`, `{"users":{"%S":50},"ban":null}`, `{"users":{"%S":50},"ban":"x"}`, `{"users":null}`, `{"users":5}`, `[]`,
		`{"users":{"%S":50,"@c:a.org":100}}`, `{"users":{"%S":50,"@d:a.org":1}}`,
		`{"users":{"%S":50,"%T":50,"@u:a.org":49},"events":{"m.room.name":50,"m.x":51},"notifications":{"room":49,"x":51},"users_default":0,"invite":50}`,
		`{"users":{"%S":50,"%T":50},"events":{"m.room.name":50,"m.x":51},"notifications":{"room":49,"x":51},"users_default":0}`,
		`{"users":{"%S":50,"%T":50,"@u:a.org":50},"events":{"m.room.name":50,"m.x":51},"notifications":{"room":49,"x":51},"users_default":0}`,
		`{"users":{"%S":50,"%T":49,"@u:a.org":49},"events":{"m.room.name":50,"m.x":51},"notifications":{"room":49,"x":51},"users_default":0}`,
		`{"users":{"%S":50,"%T":50,"@u:a.org":49},"events":{"m.room.name":50},"notifications":{"room":49,"x":51},"users_default":0}`,
		`{"users":{"%S":50,"%T":50,"@u:a.org":49},"events":{"m.room.name":50,"m.x":51},"notifications":{"room":49},"users_default":0}`,
		`{"users":{"%S":50,"%T":50,"@u:a.org":49},"events":{"m.room.name":50,"m.x":51},"notifications":{"room":48,"x":51},"users_default":0}`,
	}
	edits = append(edits, `{"users":{"%S":50},"users_default":60,"events":{"m.room.name":100}}`, `{"users":{"%S":50,"%T":10},"users_default":60}`, `{"users":{"%S":50,"%T":10},"users_default":60,"events":{"m.room.name":100}}`, `{"users":{"%S":50,"%T":60},"users_default":60,"events":{"m.room.name":100}}`)
	for oi, old := range olds {
		for ei, ed := range edits {
			senders := []string{S, C}
			if refversions.Get(version).PrivilegedCreators {
				// the additional creator as sender (in particular of the room's first power-levels event, when the levels in
				// force are the defaults the library makes up for the create event's sender)
				senders = append(senders, "@d:a.org")
			}
			for si, sender := range senders {
				for mi, sm := range []string{"join", "leave"} {
					extra := ""
					if refversions.Get(version).PrivilegedCreators {
						extra = `,"additional_creators":["@d:a.org"]`
					}
					st := []authgen.SE{createSE(version, 0, extra)}
					rep := strings.NewReplacer("%S", sender, "%T", T)
					strip := func(c string) string { return c }
					if (sender == C || sender == "@d:a.org") && refversions.Get(version).PrivilegedCreators {
						// a v12 creator may not appear in users: drop the sender entry from both contents
						strip = func(c string) string {
							re := senderEntry
							if sender != C {
								re = regexp.MustCompile(`"` + regexp.QuoteMeta(sender) + `":("[^"]*"|[0-9.]+),?`)
							}
							c = re.ReplaceAllString(c, "")
							return strings.ReplaceAll(c, ",}", "}")
						}
					}
					if old != "" {
						st = append(st, authgen.SE{ID: "$pl" + strings.Repeat("p", 41), Type: "m.room.power_levels", StateKey: "", Sender: C, Content: strip(rep.Replace(old))})
					}
					st = append(st, member(sender, sm))
					content := ed
					if ed == "%OLD" {
						content = old
						if old == "" {
							content = "{}"
						}
					}
					content = rep.Replace(content)
					if ei != 36 { // edit 36 names the creator on purpose
						content = strip(content)
					}
					sc := authgen.Scenario{Version: version, State: st, Event: authgen.Ev{Type: "m.room.power_levels", StateKey: evgen.S(""), Sender: sender, Content: content, Prev: []string{"$p" + strings.Repeat("x", 42)}}}
					out = append(out, Cell{"power-levels", []int{oi, ei, si, mi}, []string{fmt.Sprint("old#", oi), fmt.Sprint("new#", ei), "sender=" + sender, "membership=" + sm}, sc})
				}
			}
		}
	}
	return out
}


// GenCaseVariants: member names inside event CONTENT that differ from the specified name only in letter case. JSON member
// names are case sensitive: {"Membership":"join"} has no membership, {"Join_Rule":"public"} no join rule. One cell per
// kind; Labels[0] names the kind.
func GenCaseVariants(version string) []Cell {
	S := "@s:a.org"
	prev := []string{"$p" + strings.Repeat("x", 42)}
	jr := func(content string) authgen.SE {
		return authgen.SE{ID: "$jr" + strings.Repeat("j", 41), Type: "m.room.join_rules", StateKey: "", Sender: C, Content: content}
	}
	pl := func(content string) authgen.SE {
		return authgen.SE{ID: "$pl" + strings.Repeat("p", 41), Type: "m.room.power_levels", StateKey: "", Sender: C, Content: content}
	}
	joinEv := func(content string) authgen.Ev {
		return authgen.Ev{Type: "m.room.member", StateKey: evgen.S(S), Sender: S, Content: content, Prev: prev}
	}
	base := []authgen.SE{createSE(version, 0, ""), member(C, "join")}
	with := func(extra ...authgen.SE) []authgen.SE { return append(append([]authgen.SE(nil), base...), extra...) }
	kinds := []struct {
		name string
		sc   authgen.Scenario
	}{
		{"control:join-public", authgen.Scenario{Version: version, State: with(jr(`{"join_rule":"public"}`)), Event: joinEv(`{"membership":"join"}`)}},
		{"membership", authgen.Scenario{Version: version, State: with(jr(`{"join_rule":"public"}`)), Event: joinEv(`{"Membership":"join"}`)}},
		{"membership-upper", authgen.Scenario{Version: version, State: with(jr(`{"join_rule":"public"}`)), Event: joinEv(`{"MEMBERSHIP":"join"}`)}},
		{"join_rule", authgen.Scenario{Version: version, State: with(jr(`{"Join_Rule":"public"}`)), Event: joinEv(`{"membership":"join"}`)}},
		{"member-state-membership", authgen.Scenario{Version: version, State: with(jr(`{"join_rule":"invite"}`), authgen.SE{ID: "$ms" + strings.Repeat("m", 41), Type: "m.room.member", StateKey: S, Sender: C, Content: `{"Membership":"invite"}`}), Event: joinEv(`{"membership":"join"}`)}},
		{"power-levels-ban", authgen.Scenario{Version: version, State: with(member(S, "join"), pl(`{"users":{"`+C+`":100},"Ban":0}`)), Event: authgen.Ev{Type: "m.room.member", StateKey: evgen.S("@t:a.org"), Sender: S, Content: `{"membership":"ban"}`, Prev: prev}}},
		{"power-levels-users", authgen.Scenario{Version: version, State: with(member(S, "join"), pl(`{"Users":{"`+S+`":100},"users":{"`+C+`":100}}`)), Event: authgen.Ev{Type: "m.room.name", StateKey: evgen.S(""), Sender: S, Content: `{}`, Prev: prev}}},
	}
	var out []Cell
	for i, k := range kinds {
		out = append(out, Cell{"case-variant", []int{i}, []string{k.name}, k.sc})
	}
	return out
}
