// Package evalpha is the proto-event alphabet shared by the event checks
// (C03, C04): a small generator of ProtoEvents for every room version and
// helpers to build them with the real EventBuilder.
package evalpha

import (
	"strings"
	"time"

	gmsl "github.com/matrix-org/gomatrixserverlib"
	"github.com/matrix-org/gomatrixserverlib/spec"

	"verif/mc/evgen"
	"verif/mc/ref/refversions"
)

type Proto struct {
	Type     string
	StateKey *string
	Sender   string
	Content  string
	Prev     []string
	Auth     []string
	Depth    int64
	Unsigned string
	Redacts  string
	TS       int64
	Signer   int // index into Keys
	PreSig   string // a signatures object the proto-event already carries (an invite another server has signed), "" = none
}

var Keys = []evgen.Key{evgen.NewKey("a.org", "ed25519:1", 1), evgen.NewKey("b.org", "ed25519:k2", 2)}

func ids(version string, n int) []string {
	const letters = "pqrstuvwxyzabcdefghijklmnoABCDEFGHIJKLMNOPQRSTUVWXYZ0123456789"
	out := []string{}
	for i := 0; i < n; i++ {
		c := string(letters[i%len(letters)])
		if refversions.Get(version).EventFormat == 1 {
			out = append(out, "$"+strings.Repeat(c, 5)+":a.org")
		} else {
			out = append(out, "$"+strings.Repeat(c, 43))
		}
	}
	return out
}

// RoomID for non-create events of the version.
func RoomID(version string) string {
	if refversions.Get(version).DomainlessRoomIDs {
		return "!" + strings.Repeat("C", 43)
	}
	return "!room:a.org"
}

type TypeSpec struct {
	Type     string
	StateKey *string
	Contents []string
	Redacts  string
}

func Types() []TypeSpec {
	return []TypeSpec{
		{"m.room.create", evgen.S(""), []string{`{"creator":"@u:a.org","room_version":"VER"}`, `{"creator":"@u:a.org","room_version":"VER","m.federate":false,"junk":{"a":[1]}}`}, ""},
		{"m.room.member", evgen.S("@u:a.org"), []string{`{"membership":"join"}`, `{"membership":"join","displayname":"D <&>","join_authorised_via_users_server":"@x:b.org"}`, `{"membership":"invite","third_party_invite":{"display_name":"d","signed":{"mxid":"@u:a.org","token":"t","signatures":{}}}}`}, ""},
		{"m.room.power_levels", evgen.S(""), []string{`{"users":{"@u:a.org":100},"invite":50,"notifications":{"room":50}}`, `{}`}, ""},
		{"m.room.join_rules", evgen.S(""), []string{`{"join_rule":"public"}`, `{"join_rule":"restricted","allow":[{"type":"m.room_membership","room_id":"!o:a.org"}],"extra":1}`}, ""},
		{"m.room.redaction", nil, []string{`{"reason":"r","redacts":"$target"}`, `{}`}, "$target"},
		{"m.room.message", nil, []string{`{"body":"hi","msgtype":"m.text"}`, `{"body":"é\"\\ \u0001","n":9007199254740991}`}, ""},
		{"x.custom", evgen.S("@t:b.org"), []string{`{"k":"v"}`, `{}`}, ""},
		{"x.custom", evgen.S(""), []string{`{"k":"v"}`}, ""},
		{"m.room.aliases", evgen.S("a.org"), []string{`{"aliases":["#a:a.org"]}`}, ""},
	}
}

// Protos enumerates the proto-event alphabet for a version. level 0 = one
// list/depth/unsigned setting per (type, content); level 1 = the full product.
func Protos(version string, full bool) []Proto {
	var out []Proto
	lists := [][2]int{{1, 1}}
	depths := []int64{2}
	uns := []string{""}
	signers := []int{0}
	if full {
		// the library puts no limit on the number of references; the long lists (around the 10 / 20 of the specification's
		// receipt limits, and 10 listed auth events in room version 12 where the create event is implied on top) go with one
		// depth / unsigned / signer setting only
		lists = [][2]int{{0, 0}, {1, 1}, {2, 1}, {1, 2}, {2, 2}, {3, 3}, {1, 5}, {10, 10}, {21, 11}, {20, 9}, {40, 25}}
		depths = []int64{0, 1, 9007199254740991}
		uns = []string{"", `{"age":1}`}
		signers = []int{0, 1}
	}
	for _, t := range Types() {
		for _, c := range t.Contents {
			c = strings.ReplaceAll(c, "VER", version)
			for _, l := range lists {
				for _, d := range depths {
					for _, u := range uns {
						for _, s := range signers {
							if (l[0] > 5 || l[1] > 5) && !(d == 1 && u == "" && s == 0) {
								continue
							}
							sender := "@u:" + Keys[s].Server
							p := Proto{Type: t.Type, StateKey: t.StateKey, Sender: sender, Content: c, Prev: ids(version, l[0]), Auth: ids(version, l[1]), Depth: d, Unsigned: u, Redacts: t.Redacts, TS: 1_700_000_000_000, Signer: s}
							out = append(out, p)
							// a proto-event that arrives with another server's signature (the invite flow builds from one)
							if full && d == 1 && u == "" && s == 0 && l[0] <= 2 && l[1] <= 2 {
								q := p
								q.PreSig = PreSig
								out = append(out, q)
							}
							// room version 12: auth lists that name the create event themselves, not in first place
							if full && refversions.Get(version).DomainlessRoomIDs && d == 1 && u == "" && s == 0 && l[1] >= 1 && l[1] <= 2 && t.Type != "m.room.create" {
								create := "$" + RoomID(version)[1:]
								q := p
								q.Auth = append(append([]string{}, p.Auth...), create)
								out = append(out, q)
								if l[1] == 2 {
									q2 := p
									q2.Auth = []string{p.Auth[0], create, p.Auth[1], create}
									out = append(out, q2)
								}
							}
						}
					}
				}
			}
		}
	}
	return out
}

// PreSig is a signatures object as another server would have put it on a proto-event (the signature itself is not checked by Build).
const PreSig = `{"c.org":{"ed25519:x":"gTFNMzVXu0NwKLjqDBGBEo6WcCzIUcbzlFmi9J2aS3ZZCuTLGJVJiQm9cL8hJvq1Ek0p5JFJDiBlgGHO6qThCA"}}`

// BuildReusing builds p and then q with ONE EventBuilder (fields reassigned in between), as callers that
// keep a builder around do; it returns both events.
func BuildReusing(version string, p, q Proto) (gmsl.PDU, gmsl.PDU, error) {
	ver := gmsl.MustGetRoomVersion(gmsl.RoomVersion(version))
	eb := ver.NewEventBuilder()
	set := func(p Proto) {
		room := RoomID(version)
		if refversions.Get(version).DomainlessRoomIDs && p.Type == "m.room.create" && p.StateKey != nil && *p.StateKey == "" {
			room = ""
		}
		eb.SenderID, eb.RoomID, eb.Type, eb.StateKey, eb.PrevEvents, eb.AuthEvents, eb.Redacts, eb.Depth = p.Sender, room, p.Type, p.StateKey, p.Prev, p.Auth, p.Redacts, p.Depth
		eb.Content = spec.RawJSON(p.Content)
		eb.Unsigned = nil
		if p.Unsigned != "" {
			eb.Unsigned = spec.RawJSON(p.Unsigned)
		}
		eb.Signature = nil
		if p.PreSig != "" {
			eb.Signature = spec.RawJSON(p.PreSig)
		}
	}
	set(p)
	k := Keys[p.Signer]
	a, err := eb.Build(time.UnixMilli(p.TS), spec.ServerName(k.Server), gmsl.KeyID(k.KeyID), k.Priv)
	if err != nil {
		return nil, nil, err
	}
	set(q)
	k = Keys[q.Signer]
	b, err := eb.Build(time.UnixMilli(q.TS), spec.ServerName(k.Server), gmsl.KeyID(k.KeyID), k.Priv)
	return a, b, err
}

// Build runs the real EventBuilder on p.
func Build(version string, p Proto) (gmsl.PDU, error) {
	ver := gmsl.MustGetRoomVersion(gmsl.RoomVersion(version))
	room := RoomID(version)
	if refversions.Get(version).DomainlessRoomIDs && p.Type == "m.room.create" && p.StateKey != nil && *p.StateKey == "" {
		room = ""
	}
	pe := &gmsl.ProtoEvent{SenderID: p.Sender, RoomID: room, Type: p.Type, StateKey: p.StateKey, PrevEvents: p.Prev, AuthEvents: p.Auth, Redacts: p.Redacts, Depth: p.Depth, Content: spec.RawJSON(p.Content)}
	if p.Unsigned != "" {
		pe.Unsigned = spec.RawJSON(p.Unsigned)
	}
	if p.PreSig != "" {
		pe.Signature = spec.RawJSON(p.PreSig)
	}
	eb := ver.NewEventBuilderFromProtoEvent(pe)
	k := Keys[p.Signer]
	return eb.Build(time.UnixMilli(p.TS), spec.ServerName(k.Server), gmsl.KeyID(k.KeyID), k.Priv)
}
