// Package refjson is an independent reference for Matrix canonical JSON: a
// strict RFC 8259 parser into a value tree that keeps number literals exactly,
// and a canonical emitter. It shares no code with the library under test.
package refjson

import (
	"errors"
	"fmt"
	"math/big"
	"sort"
	"strings"
	"unicode/utf16"
	"unicode/utf8"
)

type Kind int

const (
	Null Kind = iota
	True
	False
	Number
	String
	Array
	Object
)

type Member struct {
	Key string // decoded
	Val *Value
}

type Value struct {
	Kind    Kind
	Num     string // literal, for Number
	Str     string // decoded, for String (may hold lone surrogates as U+FFFD: flagged in LoneSurrogate)
	Elems   []*Value
	Members []Member
}

// ParseInfo reports facts about the text the property's preconditions mention.
type ParseInfo struct {
	DuplicateKeys bool
	LoneSurrogate bool
	Numbers       []string // all number literals in document order
}

type parser struct {
	s    []byte
	i    int
	info *ParseInfo
}

func (p *parser) ws() {
	for p.i < len(p.s) {
		switch p.s[p.i] {
		case ' ', '\t', '\n', '\r':
			p.i++
		default:
			return
		}
	}
}

// Parse parses a complete JSON text strictly (RFC 8259, UTF-8 required).
func Parse(text []byte) (*Value, *ParseInfo, error) {
	if !utf8.Valid(text) {
		return nil, nil, errors.New("invalid UTF-8")
	}
	p := &parser{s: text, info: &ParseInfo{}}
	p.ws()
	v, err := p.value(0)
	if err != nil {
		return nil, nil, err
	}
	p.ws()
	if p.i != len(p.s) {
		return nil, nil, fmt.Errorf("trailing data at %d", p.i)
	}
	return v, p.info, nil
}

func (p *parser) value(depth int) (*Value, error) {
	if depth > 512 {
		return nil, errors.New("too deep")
	}
	if p.i >= len(p.s) {
		return nil, errors.New("unexpected end")
	}
	switch c := p.s[p.i]; {
	case c == '{':
		p.i++
		v := &Value{Kind: Object}
		p.ws()
		if p.i < len(p.s) && p.s[p.i] == '}' {
			p.i++
			return v, nil
		}
		seen := map[string]bool{}
		for {
			p.ws()
			if p.i >= len(p.s) || p.s[p.i] != '"' {
				return nil, fmt.Errorf("expected key at %d", p.i)
			}
			k, err := p.str()
			if err != nil {
				return nil, err
			}
			if seen[k] {
				p.info.DuplicateKeys = true
			}
			seen[k] = true
			p.ws()
			if p.i >= len(p.s) || p.s[p.i] != ':' {
				return nil, fmt.Errorf("expected colon at %d", p.i)
			}
			p.i++
			p.ws()
			e, err := p.value(depth + 1)
			if err != nil {
				return nil, err
			}
			v.Members = append(v.Members, Member{k, e})
			p.ws()
			if p.i >= len(p.s) {
				return nil, errors.New("unexpected end in object")
			}
			if p.s[p.i] == ',' {
				p.i++
				continue
			}
			if p.s[p.i] == '}' {
				p.i++
				return v, nil
			}
			return nil, fmt.Errorf("expected , or } at %d", p.i)
		}
	case c == '[':
		p.i++
		v := &Value{Kind: Array}
		p.ws()
		if p.i < len(p.s) && p.s[p.i] == ']' {
			p.i++
			return v, nil
		}
		for {
			p.ws()
			e, err := p.value(depth + 1)
			if err != nil {
				return nil, err
			}
			v.Elems = append(v.Elems, e)
			p.ws()
			if p.i >= len(p.s) {
				return nil, errors.New("unexpected end in array")
			}
			if p.s[p.i] == ',' {
				p.i++
				continue
			}
			if p.s[p.i] == ']' {
				p.i++
				return v, nil
			}
			return nil, fmt.Errorf("expected , or ] at %d", p.i)
		}
	case c == '"':
		s, err := p.str()
		if err != nil {
			return nil, err
		}
		return &Value{Kind: String, Str: s}, nil
	case c == 't':
		return p.lit("true", True)
	case c == 'f':
		return p.lit("false", False)
	case c == 'n':
		return p.lit("null", Null)
	case c == '-' || (c >= '0' && c <= '9'):
		return p.num()
	}
	return nil, fmt.Errorf("unexpected byte %q at %d", p.s[p.i], p.i)
}

func (p *parser) lit(w string, k Kind) (*Value, error) {
	if strings.HasPrefix(string(p.s[p.i:]), w) {
		p.i += len(w)
		return &Value{Kind: k}, nil
	}
	return nil, fmt.Errorf("bad literal at %d", p.i)
}

func (p *parser) num() (*Value, error) {
	st := p.i
	if p.s[p.i] == '-' {
		p.i++
	}
	digits := func() int {
		n := 0
		for p.i < len(p.s) && p.s[p.i] >= '0' && p.s[p.i] <= '9' {
			p.i++
			n++
		}
		return n
	}
	if p.i >= len(p.s) {
		return nil, errors.New("bad number")
	}
	if p.s[p.i] == '0' {
		p.i++
	} else if p.s[p.i] >= '1' && p.s[p.i] <= '9' {
		digits()
	} else {
		return nil, errors.New("bad number")
	}
	if p.i < len(p.s) && p.s[p.i] == '.' {
		p.i++
		if digits() == 0 {
			return nil, errors.New("bad fraction")
		}
	}
	if p.i < len(p.s) && (p.s[p.i] == 'e' || p.s[p.i] == 'E') {
		p.i++
		if p.i < len(p.s) && (p.s[p.i] == '+' || p.s[p.i] == '-') {
			p.i++
		}
		if digits() == 0 {
			return nil, errors.New("bad exponent")
		}
	}
	lit := string(p.s[st:p.i])
	p.info.Numbers = append(p.info.Numbers, lit)
	return &Value{Kind: Number, Num: lit}, nil
}

func hex4(b []byte) (rune, bool) {
	if len(b) < 4 {
		return 0, false
	}
	var r rune
	for _, c := range b[:4] {
		r <<= 4
		switch {
		case c >= '0' && c <= '9':
			r |= rune(c - '0')
		case c >= 'a' && c <= 'f':
			r |= rune(c-'a') + 10
		case c >= 'A' && c <= 'F':
			r |= rune(c-'A') + 10
		default:
			return 0, false
		}
	}
	return r, true
}

func (p *parser) str() (string, error) {
	p.i++ // opening quote
	var sb strings.Builder
	for {
		if p.i >= len(p.s) {
			return "", errors.New("unterminated string")
		}
		c := p.s[p.i]
		switch {
		case c == '"':
			p.i++
			return sb.String(), nil
		case c < 0x20:
			return "", fmt.Errorf("raw control character at %d", p.i)
		case c == '\\':
			p.i++
			if p.i >= len(p.s) {
				return "", errors.New("bad escape")
			}
			e := p.s[p.i]
			p.i++
			switch e {
			case '"', '\\', '/':
				sb.WriteByte(e)
			case 'b':
				sb.WriteByte(8)
			case 'f':
				sb.WriteByte(12)
			case 'n':
				sb.WriteByte(10)
			case 'r':
				sb.WriteByte(13)
			case 't':
				sb.WriteByte(9)
			case 'u':
				r, ok := hex4(p.s[p.i:])
				if !ok {
					return "", errors.New("bad \\u escape")
				}
				p.i += 4
				if utf16.IsSurrogate(r) {
					if r < 0xDC00 && p.i+6 <= len(p.s) && p.s[p.i] == '\\' && p.s[p.i+1] == 'u' {
						if r2, ok := hex4(p.s[p.i+2:]); ok && r2 >= 0xDC00 && r2 <= 0xDFFF {
							p.i += 6
							sb.WriteRune(utf16.DecodeRune(r, r2))
							continue
						}
					}
					p.info.LoneSurrogate = true
					sb.WriteRune(utf8.RuneError)
					continue
				}
				sb.WriteRune(r)
			default:
				return "", fmt.Errorf("bad escape \\%c", e)
			}
		default:
			sb.WriteByte(c)
			p.i++
		}
	}
}

// AppendString appends the canonical (shortest) JSON spelling of s.
func AppendString(out []byte, s string) []byte {
	const hexd = "0123456789abcdef"
	out = append(out, '"')
	for i := 0; i < len(s); i++ {
		c := s[i]
		switch {
		case c == '"':
			out = append(out, '\\', '"')
		case c == '\\':
			out = append(out, '\\', '\\')
		case c == 8:
			out = append(out, '\\', 'b')
		case c == 9:
			out = append(out, '\\', 't')
		case c == 10:
			out = append(out, '\\', 'n')
		case c == 12:
			out = append(out, '\\', 'f')
		case c == 13:
			out = append(out, '\\', 'r')
		case c < 0x20:
			out = append(out, '\\', 'u', '0', '0', hexd[c>>4], hexd[c&15])
		default:
			out = append(out, c)
		}
	}
	return append(out, '"')
}

// ZeroValued reports whether a number literal denotes zero.
func ZeroValued(lit string) bool {
	m := lit
	if i := strings.IndexAny(m, "eE"); i >= 0 {
		m = m[:i]
	}
	for _, c := range m {
		if c >= '1' && c <= '9' {
			return false
		}
	}
	return true
}

// IsIntegerLiteral reports whether lit matches -?(0|[1-9][0-9]*).
func IsIntegerLiteral(lit string) bool {
	return !strings.ContainsAny(lit, ".eE")
}

var maxSafe = big.NewInt(9007199254740991)

// InSafeRange reports whether an integer literal is within ±(2^53−1).
func InSafeRange(lit string) bool {
	n, ok := new(big.Int).SetString(lit, 10)
	if !ok {
		return false
	}
	return n.CmpAbs(maxSafe) <= 0
}

// Emit writes the canonical form. If keepZeroSign is true, zero-valued
// non-integer literals with a minus sign keep it (the Matrix form defines no
// float normalisation; both spellings denote the value 0).
func Emit(out []byte, v *Value, keepZeroSign bool) []byte {
	switch v.Kind {
	case Null:
		return append(out, "null"...)
	case True:
		return append(out, "true"...)
	case False:
		return append(out, "false"...)
	case Number:
		lit := v.Num
		if lit == "-0" {
			lit = "0"
		} else if !keepZeroSign && strings.HasPrefix(lit, "-") && ZeroValued(lit) {
			lit = lit[1:]
		}
		return append(out, lit...)
	case String:
		return AppendString(out, v.Str)
	case Array:
		out = append(out, '[')
		for i, e := range v.Elems {
			if i > 0 {
				out = append(out, ',')
			}
			out = Emit(out, e, keepZeroSign)
		}
		return append(out, ']')
	case Object:
		ms := append([]Member(nil), v.Members...)
		// sort by Unicode code point == byte order of the UTF-8 encoding
		sort.SliceStable(ms, func(i, j int) bool { return ms[i].Key < ms[j].Key })
		out = append(out, '{')
		for i, m := range ms {
			if i > 0 {
				out = append(out, ',')
			}
			out = AppendString(out, m.Key)
			out = append(out, ':')
			out = Emit(out, m.Val, keepZeroSign)
		}
		return append(out, '}')
	}
	panic("bad kind")
}

// Canonical returns the canonical encoding (zero-valued negative non-integer
// literals lose their sign, mirroring the "-0 is written 0" rule).
func Canonical(v *Value) []byte { return Emit(nil, v, false) }

func numEqual(a, b string) bool {
	if a == b {
		return true
	}
	fa, _, ea := big.ParseFloat(a, 10, 4096, big.ToNearestEven)
	fb, _, eb := big.ParseFloat(b, 10, 4096, big.ToNearestEven)
	if ea != nil || eb != nil {
		return false
	}
	return fa.Cmp(fb) == 0 // -0 == 0
}

// Equal compares two values: numbers numerically (exactly), objects as
// unordered maps, everything else structurally.
func Equal(a, b *Value) bool {
	if a.Kind != b.Kind {
		return false
	}
	switch a.Kind {
	case Number:
		return numEqual(a.Num, b.Num)
	case String:
		return a.Str == b.Str
	case Array:
		if len(a.Elems) != len(b.Elems) {
			return false
		}
		for i := range a.Elems {
			if !Equal(a.Elems[i], b.Elems[i]) {
				return false
			}
		}
		return true
	case Object:
		if len(a.Members) != len(b.Members) {
			return false
		}
		bm := map[string]*Value{}
		for _, m := range b.Members {
			bm[m.Key] = m.Val
		}
		for _, m := range a.Members {
			o, ok := bm[m.Key]
			if !ok || !Equal(m.Val, o) {
				return false
			}
		}
		return true
	}
	return true
}

// CheckCanonicalShape verifies directly on the bytes that a text is in
// canonical form: no whitespace outside strings, keys strictly ascending,
// every string in its shortest spelling, no "-0". Returns "" if so.
func CheckCanonicalShape(text []byte) string {
	v, info, err := Parse(text)
	if err != nil {
		return "not valid JSON: " + err.Error()
	}
	if info.DuplicateKeys {
		return "duplicate keys"
	}
	var walk func(v *Value) string
	walk = func(v *Value) string {
		switch v.Kind {
		case Object:
			for i := 1; i < len(v.Members); i++ {
				if !(v.Members[i-1].Key < v.Members[i].Key) {
					return fmt.Sprintf("keys out of order: %q before %q", v.Members[i-1].Key, v.Members[i].Key)
				}
			}
			for _, m := range v.Members {
				if s := walk(m.Val); s != "" {
					return s
				}
			}
		case Array:
			for _, e := range v.Elems {
				if s := walk(e); s != "" {
					return s
				}
			}
		case Number:
			if v.Num == "-0" {
				return "-0 present"
			}
		}
		return ""
	}
	if s := walk(v); s != "" {
		return s
	}
	// Shortest spelling + no whitespace: re-emitting the parsed tree with
	// members in the order found must give back the same bytes.
	if got := emitInOrder(nil, v); string(got) != string(text) {
		return "not the shortest spelling (or contains whitespace)"
	}
	return ""
}

func emitInOrder(out []byte, v *Value) []byte {
	switch v.Kind {
	case Array:
		out = append(out, '[')
		for i, e := range v.Elems {
			if i > 0 {
				out = append(out, ',')
			}
			out = emitInOrder(out, e)
		}
		return append(out, ']')
	case Object:
		out = append(out, '{')
		for i, m := range v.Members {
			if i > 0 {
				out = append(out, ',')
			}
			out = AppendString(out, m.Key)
			out = append(out, ':')
			out = emitInOrder(out, m.Val)
		}
		return append(out, '}')
	case Number:
		return append(out, v.Num...)
	}
	return Emit(out, v, true)
}
