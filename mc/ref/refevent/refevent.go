// Package refevent computes content hashes, reference hashes / event IDs and
// required signers the way the Matrix specification defines them, using only
// the other reference packages and the standard library.
package refevent

import (
	"crypto/sha256"
	"encoding/base64"
	"strings"

	"verif/mc/ref/refjson"
	"verif/mc/ref/refredact"
	"verif/mc/ref/refversions"
)

func without(v *refjson.Value, keys ...string) *refjson.Value {
	out := &refjson.Value{Kind: refjson.Object}
	for _, m := range v.Members {
		drop := false
		for _, k := range keys {
			if m.Key == k {
				drop = true
			}
		}
		if !drop {
			out.Members = append(out.Members, m)
		}
	}
	return out
}

// ContentHash is sha256 over the canonical JSON of the event without
// unsigned, signatures and hashes (server-server spec, "Calculating the content hash").
func ContentHash(ev *refjson.Value) []byte {
	h := sha256.Sum256(refjson.Canonical(without(ev, "unsigned", "signatures", "hashes")))
	return h[:]
}

// ReferenceHash is sha256 over the canonical JSON of the redacted event
// without signatures and unsigned (and age_ts, which redaction removes anyway).
func ReferenceHash(version string, ev *refjson.Value) []byte {
	red := refredact.Redact(version, ev)
	h := sha256.Sum256(refjson.Canonical(without(red, "signatures", "unsigned", "age_ts")))
	return h[:]
}

// EventID for room versions whose event IDs are hashes (format 2: standard
// alphabet, format 3: URL-safe alphabet; both unpadded). "" for version 1-2.
func EventID(version string, ev *refjson.Value) string {
	switch refversions.Get(version).EventIDFormat {
	case 2:
		return "$" + base64.RawStdEncoding.EncodeToString(ReferenceHash(version, ev))
	case 3:
		return "$" + base64.RawURLEncoding.EncodeToString(ReferenceHash(version, ev))
	}
	return ""
}

// ServerOf returns the server part of a user / v1 event ID (after the first colon).
func ServerOf(id string) string {
	if i := strings.IndexByte(id, ':'); i >= 0 {
		return id[i+1:]
	}
	return ""
}
