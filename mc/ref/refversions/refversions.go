// Package refversions is the room-version table as the Matrix specification
// (and, for the unstable versions, the MSC each is based on) assigns it.
// Written from the spec, not from eventversion.go.
package refversions

import "sort"

type Row struct {
	Version              string
	Stable               bool
	StateRes             int    // 1 = v1, 2 = v2, 3 = v2.1
	EventFormat          int    // 1 = refs as [id,hashes] pairs + event_id field; 2 = ID lists, no event_id
	EventIDFormat        int    // 1 = given in event, 2 = sha256 std unpadded base64, 3 = URL-safe unpadded base64
	Redaction            int    // 1: v1-5, 2: v6-7, 3: v8, 4: v9-10, 5: v11+
	StrictKeyValidity    bool   // v5+
	EnforceCanonicalJSON bool   // v6+
	NotificationsChecked bool   // v6+: notifications levels are auth-checked
	IntegerPowerLevels   bool   // v10+
	Knock                bool   // v7+
	RestrictedJoins      bool   // v8+
	CreatorInContent     bool   // <= v10: create content carries creator
	DomainlessRoomIDs    bool   // v12
	PrivilegedCreators   bool   // v12
}

var rows = []Row{
	{"1", true, 1, 1, 1, 1, false, false, false, false, false, false, true, false, false},
	{"2", true, 2, 1, 1, 1, false, false, false, false, false, false, true, false, false},
	{"3", true, 2, 2, 2, 1, false, false, false, false, false, false, true, false, false},
	{"4", true, 2, 2, 3, 1, false, false, false, false, false, false, true, false, false},
	{"5", true, 2, 2, 3, 1, true, false, false, false, false, false, true, false, false},
	{"6", true, 2, 2, 3, 2, true, true, true, false, false, false, true, false, false},
	{"7", true, 2, 2, 3, 2, true, true, true, false, true, false, true, false, false},
	{"8", true, 2, 2, 3, 3, true, true, true, false, true, true, true, false, false},
	{"9", true, 2, 2, 3, 4, true, true, true, false, true, true, true, false, false},
	{"10", true, 2, 2, 3, 4, true, true, true, true, true, true, true, false, false},
	{"11", true, 2, 2, 3, 5, true, true, true, true, true, true, false, false, false},
	{"12", true, 3, 2, 3, 5, true, true, true, true, true, true, false, true, true},
	// unstable: msc4014 is documented as a copy of v10; msc3667 = v7 + integer power levels;
	// msc3787 = v9 + knock_restricted ("union of v7 and v9"); hydra.11 = v12
	{"org.matrix.msc4014", false, 2, 2, 3, 4, true, true, true, true, true, true, true, false, false},
	{"org.matrix.msc3667", false, 2, 2, 3, 2, true, true, true, true, true, false, true, false, false},
	{"org.matrix.msc3787", false, 2, 2, 3, 4, true, true, true, false, true, true, true, false, false},
	{"org.matrix.hydra.11", false, 3, 2, 3, 5, true, true, true, true, true, true, false, true, true},
}

func All() []string {
	var out []string
	for _, r := range rows {
		out = append(out, r.Version)
	}
	return out
}

func Known(v string) bool {
	for _, r := range rows {
		if r.Version == v {
			return true
		}
	}
	return false
}

func Get(v string) Row {
	for _, r := range rows {
		if r.Version == v {
			return r
		}
	}
	panic("refversions: unknown version " + v)
}

func Sorted() []string { s := All(); sort.Strings(s); return s }
