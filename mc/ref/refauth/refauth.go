// Package refauth is a reference implementation of the Matrix event
// authorisation rules (room versions 1-12 and the unstable versions), written
// from the specification's rule list plus the library's documented departures
// D1-D16 (DESIGN.md §5.1). It works on an abstract room state and never calls
// the library.
package refauth

import (
	"math/big"
	"strconv"
	"strings"

	"verif/mc/ref/refjson"
	"verif/mc/ref/refversions"
)

const CreatorLevel = int64(1) << 53 // privileged creators (v12)
const NoPLCreatorLevel = CreatorLevel - 1

// Event is the event being authorised.
type Event struct {
	Type     string
	StateKey *string
	Sender   string
	RoomID   string // "" = no room_id field (v12 create)
	Content  *refjson.Value
	Prev     []string
	Redacts  string
	HasRoomIDField bool
}

// StateEvent is one auth event of the state the event is checked against.
type StateEvent struct {
	EventID string
	Sender  string
	RoomID  string
	Content *refjson.Value
}

// State is the auth state (only the kinds the rules read).
type State struct {
	Version    string
	Create     *StateEvent
	Power      *StateEvent
	JoinRules  *StateEvent
	Members    map[string]*StateEvent // by user ID
	ThirdParty map[string]*StateEvent // by token
	MixedRooms bool                   // auth events come from more than one room
	// VerifySig decides whether a signature over `signed` by (domain, keyID) verifies under a public key (D8).
	VerifySig func(signed *refjson.Value, domain, keyID string, publicKey string) bool
}

func get(v *refjson.Value, k string) *refjson.Value {
	if v == nil || v.Kind != refjson.Object {
		return nil
	}
	for _, m := range v.Members {
		if m.Key == k {
			return m.Val
		}
	}
	return nil
}

func str(v *refjson.Value) (string, bool) {
	if v == nil || v.Kind != refjson.String {
		return "", false
	}
	return v.Str, true
}

func domainOf(id string) (string, bool) {
	i := strings.IndexByte(id, ':')
	if i < 0 {
		return "", false
	}
	return id[i+1:], true
}

// ---- power levels ------------------------------------------------------------

type Levels struct {
	Ban, Invite, Kick, Redact, UsersDefault, EventsDefault, StateDefault int64
	Users, Events, Notifications                                       map[string]int64
	Raw                                                                *refjson.Value
}

func defaults() Levels {
	return Levels{Ban: 50, Invite: 0, Kick: 50, Redact: 50, StateDefault: 50, Users: map[string]int64{}, Events: map[string]int64{}, Notifications: map[string]int64{"room": 50}}
}

// level parses one level value. Integer versions accept JSON integers only
// (as encoding/json into int64 does); lenient versions follow Python int():
// integers, strings holding integers (surrounding blanks allowed), floats truncated (D13).
func level(v *refjson.Value, integerOnly bool) (int64, bool) {
	switch v.Kind {
	case refjson.Number:
		if n, err := strconv.ParseInt(v.Num, 10, 64); err == nil {
			return n, true
		}
		if integerOnly {
			return 0, false
		}
		f, _, err := big.ParseFloat(v.Num, 10, 64, big.ToNearestEven)
		if err != nil {
			return 0, false
		}
		fl, _ := f.Float64()
		return int64(fl), true
	case refjson.String:
		if integerOnly {
			return 0, false
		}
		n, err := strconv.ParseInt(strings.TrimSpace(v.Str), 10, 64)
		return n, err == nil
	case refjson.Null:
		// encoding/json leaves the field alone on null; the lenient parser treats "null" as unparsable
		if integerOnly {
			return 0, true // caller keeps the default
		}
		return 0, false
	}
	return 0, false
}

// ParseLevels parses a power_levels content for a room version; ok=false if unparsable.
func ParseLevels(version string, content *refjson.Value) (Levels, bool) {
	l := defaults()
	l.Raw = content
	if content == nil || content.Kind != refjson.Object {
		return l, false
	}
	intOnly := refversions.Get(version).IntegerPowerLevels
	scalar := func(key string, dst *int64) bool {
		v := get(content, key)
		if v == nil {
			return true
		}
		if v.Kind == refjson.Null {
			if intOnly {
				return true
			}
			return false
		}
		n, ok := level(v, intOnly)
		if !ok {
			return false
		}
		*dst = n
		return true
	}
	for k, d := range map[string]*int64{"ban": &l.Ban, "invite": &l.Invite, "kick": &l.Kick, "redact": &l.Redact, "users_default": &l.UsersDefault, "events_default": &l.EventsDefault, "state_default": &l.StateDefault} {
		if !scalar(k, d) {
			return l, false
		}
	}
	for k, dst := range map[string]map[string]int64{"users": l.Users, "events": l.Events, "notifications": l.Notifications} {
		v := get(content, k)
		if v == nil || v.Kind == refjson.Null {
			if v != nil && !intOnly {
				// lenient parser: null map is accepted by encoding/json as an absent map
			}
			continue
		}
		if v.Kind != refjson.Object {
			return l, false
		}
		for _, m := range v.Members {
			if m.Val.Kind == refjson.Null && intOnly {
				dst[m.Key] = 0
				continue
			}
			n, ok := level(m.Val, intOnly)
			if !ok {
				return l, false
			}
			dst[m.Key] = n
		}
	}
	return l, true
}

func (l *Levels) user(u string) int64 {
	if n, ok := l.Users[u]; ok {
		return n
	}
	return l.UsersDefault
}

func (l *Levels) event(typ string, isState bool) int64 {
	if typ == "m.room.third_party_invite" {
		return l.Invite
	}
	if n, ok := l.Events[typ]; ok {
		return n
	}
	if isState {
		return l.StateDefault
	}
	return l.EventsDefault
}

func (l *Levels) notification(k string) int64 {
	if n, ok := l.Notifications[k]; ok {
		return n
	}
	return 50
}

// ---- the rules ------------------------------------------------------------

type ctx struct {
	s        *State
	row      refversions.Row
	levels   Levels
	hasPL    bool
	creators []string
}

func (c *ctx) userLevel(u string) int64 {
	if c.row.PrivilegedCreators {
		for _, x := range c.creators {
			if x == u {
				return CreatorLevel
			}
		}
	}
	if !c.hasPL {
		if c.s.Create != nil && u == c.s.Create.Sender {
			return NoPLCreatorLevel
		}
		return 0
	}
	return c.levels.user(u)
}

func (c *ctx) membership(u string) string {
	m := c.s.Members[u]
	if m == nil {
		return "leave"
	}
	ms, _ := str(get(m.Content, "membership"))
	return ms
}

// Result: allowed + the number of the rule that decided.
type Result struct {
	Allowed bool
	Rule    string
}

func deny(rule string) Result  { return Result{false, rule} }
func allow(rule string) Result { return Result{true, rule} }

// KnownVersion reports whether a room version string is registered.
func KnownVersion(v string) bool { return refversions.Known(v) }

// Allowed evaluates the rules.
func Allowed(ev *Event, s *State) Result {
	row := refversions.Get(s.Version)
	if s.MixedRooms {
		return deny("auth events from different rooms")
	}
	if ev.Type == "m.room.create" {
		return createAllowed(ev, row)
	}
	c := &ctx{s: s, row: row}
	// rule: there must be a create event, of this room
	if s.Create == nil || s.Create.Content == nil || s.Create.Content.Kind != refjson.Object {
		return deny("no (parsable) create event")
	}
	if ev.RoomID != s.Create.RoomID {
		return deny("event room differs from create event room")
	}
	c.creators = []string{s.Create.Sender}
	if ac := get(s.Create.Content, "additional_creators"); ac != nil && ac.Kind == refjson.Array {
		for _, e := range ac.Elems {
			if x, ok := str(e); ok {
				c.creators = append(c.creators, x)
			}
		}
	}
	if s.Power != nil {
		if l, ok := ParseLevels(s.Version, s.Power.Content); ok {
			c.levels, c.hasPL = l, true
		}
	}
	if !c.hasPL {
		c.levels = defaults()
		c.levels.Users[s.Create.Sender] = NoPLCreatorLevel
	}
	// m.federate
	senderDomain, ok := domainOf(ev.Sender)
	if !ok {
		return deny("sender is not a user ID")
	}
	federated := func() bool {
		f := get(s.Create.Content, "m.federate")
		if f == nil || f.Kind != refjson.False {
			return true
		}
		cd, _ := domainOf(s.Create.Sender)
		return senderDomain == cd
	}
	switch ev.Type {
	case "m.room.aliases": // D2: applied in every version
		if !federated() {
			return deny("m.federate")
		}
		if c.s.Version == "org.matrix.msc4014" {
			// D2 (pseudo-ID rooms): the library deliberately compares the state key with the sender ID there
			// (explicit case in aliasEventAllowed), a sender has no server of its own in such rooms
			if ev.StateKey == nil || *ev.StateKey != ev.Sender {
				return deny("aliases state key is not the sender ID (pseudo-ID rooms)")
			}
			return allow("aliases")
		}
		if ev.StateKey == nil || *ev.StateKey != senderDomain {
			return deny("aliases state key is not the sender's server")
		}
		return allow("aliases")
	case "m.room.member":
		return c.member(ev, federated)
	}
	// every other event
	if r, done := c.common(ev, federated); done {
		return r
	}
	switch ev.Type {
	case "m.room.power_levels":
		return c.powerLevels(ev)
	case "m.room.redaction":
		return c.redaction(ev, senderDomain)
	}
	return allow("sender joined with sufficient level")
}

func createAllowed(ev *Event, row refversions.Row) Result {
	if ev.StateKey == nil || *ev.StateKey != "" {
		return deny("create: state key")
	}
	if len(ev.Prev) > 0 {
		return deny("create: has prev_events")
	}
	sd, ok := domainOf(ev.Sender)
	if !ok {
		return deny("create: sender")
	}
	if ev.Content == nil || ev.Content.Kind != refjson.Object {
		return deny("create: content")
	}
	rv := get(ev.Content, "room_version")
	checkVersion := func() bool {
		if rv == nil || rv.Kind == refjson.Null {
			return true
		}
		v, ok := str(rv)
		return ok && KnownVersion(v)
	}
	if row.DomainlessRoomIDs {
		if !checkVersion() {
			return deny("create: unrecognised room_version")
		}
		if ac := get(ev.Content, "additional_creators"); ac != nil && ac.Kind != refjson.Null {
			if ac.Kind != refjson.Array {
				return deny("create: additional_creators")
			}
			for _, e := range ac.Elems {
				u, ok := str(e)
				if !ok || !validUserIDLoose(u) {
					return deny("create: invalid additional creator")
				}
			}
		}
		if ev.HasRoomIDField {
			return deny("create: room_id present")
		}
		return allow("create")
	}
	rd, ok := domainOf(ev.RoomID)
	if !ok || rd != sd {
		return deny("create: room ID domain differs from sender domain")
	}
	if !checkVersion() {
		return deny("create: unrecognised room_version")
	}
	if row.CreatorInContent {
		cr := get(ev.Content, "creator")
		if cr == nil || cr.Kind == refjson.Null {
			return deny("create: no creator")
		}
		if cr.Kind != refjson.String {
			return deny("create: creator not a string")
		}
	}
	return allow("create")
}

// validUserIDLoose: the historical grammar (sigil, non-empty localpart, valid server name is checked by the caller's generator).
func validUserIDLoose(u string) bool {
	if len(u) < 4 || len(u) > 255 || u[0] != '@' {
		return false
	}
	i := strings.IndexByte(u, ':')
	return i > 1 && i < len(u)-1
}

func (c *ctx) common(ev *Event, federated func() bool) (Result, bool) {
	if !federated() {
		return deny("m.federate"), true
	}
	if c.membership(ev.Sender) != "join" {
		return deny("sender not joined"), true
	}
	if c.userLevel(ev.Sender) < c.levels.event(ev.Type, ev.StateKey != nil) {
		return deny("sender level below required level"), true
	}
	if ev.StateKey != nil && strings.HasPrefix(*ev.StateKey, "@") && *ev.StateKey != ev.Sender {
		return deny("state key names another user"), true
	}
	return Result{}, false
}

func (c *ctx) member(ev *Event, federated func() bool) Result {
	if ev.StateKey == nil {
		return deny("member: no state key")
	}
	if ev.Content == nil || ev.Content.Kind != refjson.Object {
		return deny("member: content")
	}
	target := *ev.StateKey
	newM, okM := str(get(ev.Content, "membership"))
	if mv := get(ev.Content, "membership"); mv != nil && mv.Kind != refjson.String && mv.Kind != refjson.Null {
		return deny("member: membership not a string")
	}
	_ = okM
	tpi := get(ev.Content, "third_party_invite")
	if tpi != nil && tpi.Kind == refjson.Null {
		tpi = nil
	}
	if tpi != nil {
		// the invite event named by the token must exist whenever the key is present (any membership)
		tok, _ := str(get(get(tpi, "signed"), "token"))
		if c.s.ThirdParty[tok] == nil {
			return deny("member: third party invite event missing")
		}
	}
	if !federated() {
		return deny("m.federate")
	}
	// D3: the creator's first join
	if target == c.s.Create.Sender && newM == "join" && ev.Sender == target && len(ev.Prev) == 1 && ev.Prev[0] == c.s.Create.EventID {
		return allow("creator's first join")
	}
	if newM == "invite" && tpi != nil {
		return c.thirdPartyInvite(ev, target, tpi)
	}
	old := c.membership(target)
	if ev.Sender == target {
		return c.memberSelf(ev, newM, old)
	}
	return c.memberOther(ev, newM, old, target)
}

func (c *ctx) joinRule() string {
	if c.s.JoinRules == nil {
		return "invite"
	}
	jr, _ := str(get(c.s.JoinRules.Content, "join_rule"))
	return jr
}

func (c *ctx) memberSelf(ev *Event, newM, old string) Result {
	if old == "leave" && newM == "leave" {
		return allow("D6: leave -> leave")
	}
	if old == "ban" {
		return deny("banned")
	}
	rule := c.joinRule()
	switch newM {
	case "knock":
		if !c.row.Knock {
			return deny("knock: unsupported in this version")
		}
		if rule != "knock" && rule != "knock_restricted" {
			return deny("knock: join rule")
		}
		if old == "join" || old == "invite" || old == "ban" {
			return deny("knock: already joined/invited/banned")
		}
		return allow("knock")
	case "join":
		if rule == "restricted" || rule == "knock_restricted" {
			if !c.row.RestrictedJoins {
				return deny("restricted joins unsupported (D12)")
			}
			via, _ := str(get(ev.Content, "join_authorised_via_users_server"))
			if old == "join" || old == "invite" {
				return allow("restricted: already invited/joined")
			}
			if via == "" {
				return deny("restricted: no authorising user and not invited")
			}
			if c.s.Version != "org.matrix.msc4014" {
				if !strings.HasPrefix(via, "@") || !strings.Contains(via, ":") {
					return deny("restricted: malformed authorising user")
				}
			}
			am := c.s.Members[via]
			if am == nil {
				return deny("restricted: authorising user has no member event")
			}
			if ms, _ := str(get(am.Content, "membership")); ms != "join" {
				return deny("restricted: authorising user not joined")
			}
			if c.userLevel(via) < c.levels.Invite {
				return deny("restricted: authorising user cannot invite")
			}
			return allow("restricted join")
		}
		if old == "invite" || old == "join" {
			return allow("join: invited or joined (D4)")
		}
		if rule == "public" {
			return allow("join: public")
		}
		return deny("join: join rule forbids")
	case "leave":
		if old == "join" || old == "invite" || old == "knock" {
			return allow("leave")
		}
		return deny("leave: from " + old)
	case "invite", "ban":
		return deny("cannot set own membership to " + newM)
	}
	return deny("unknown membership")
}

func (c *ctx) memberOther(ev *Event, newM, old, target string) Result {
	if c.membership(ev.Sender) != "join" {
		return deny("sender not joined")
	}
	sl, tl := c.userLevel(ev.Sender), c.userLevel(target)
	switch newM {
	case "ban":
		if sl >= c.levels.Ban && sl > tl {
			return allow("ban")
		}
		return deny("ban: insufficient power")
	case "leave":
		if old == "ban" {
			if sl >= c.levels.Ban {
				return allow("unban (D7)")
			}
			return deny("unban: insufficient power")
		}
		if sl >= c.levels.Kick && sl > tl {
			return allow("kick")
		}
		return deny("kick: insufficient power")
	case "invite":
		if sl < c.levels.Invite {
			return deny("invite: insufficient power")
		}
		if old == "join" || old == "ban" {
			return deny("invite: target joined or banned")
		}
		return allow("invite")
	case "knock", "join":
		return deny("cannot set another user's membership to " + newM)
	}
	return deny("unknown membership")
}

func (c *ctx) thirdPartyInvite(ev *Event, target string, tpi *refjson.Value) Result {
	signed := get(tpi, "signed")
	mxid, _ := str(get(signed, "mxid"))
	if mxid != target {
		return deny("3pid: mxid differs from target")
	}
	tok, _ := str(get(signed, "token"))
	inv := c.s.ThirdParty[tok]
	if inv == nil {
		return deny("3pid: no invite event")
	}
	pks := get(inv.Content, "public_keys")
	sigs := get(signed, "signatures")
	if pks != nil && pks.Kind == refjson.Array && sigs != nil && sigs.Kind == refjson.Object {
		for _, pk := range pks.Elems {
			key, _ := str(get(pk, "public_key"))
			for _, dm := range sigs.Members {
				if dm.Val.Kind != refjson.Object {
					continue
				}
				for _, km := range dm.Val.Members {
					if strings.HasPrefix(km.Key, "ed25519") && c.s.VerifySig != nil && c.s.VerifySig(signed, dm.Key, km.Key, key) {
						return allow("3pid invite (D8)")
					}
				}
			}
		}
	}
	return deny("3pid: no verifying signature")
}

func (c *ctx) redaction(ev *Event, senderDomain string) Result {
	rv := get(c.s.Create.Content, "room_version")
	if rv != nil && rv.Kind == refjson.String && rv.Str != "1" && rv.Str != "2" {
		return allow("redaction: not rule-checked (D11)")
	}
	rd, ok := domainOf(ev.Redacts)
	if !ok {
		return deny("redaction: redacts is not an ID")
	}
	if rd == senderDomain {
		return allow("redaction: own server")
	}
	if c.userLevel(ev.Sender) >= c.levels.Redact {
		return allow("redaction: level")
	}
	return deny("redaction: insufficient level")
}

func (c *ctx) powerLevels(ev *Event) Result {
	nl, ok := ParseLevels(c.s.Version, ev.Content)
	if !ok {
		return deny("power_levels: unparsable")
	}
	for u := range nl.Users {
		if len(u) == 0 || u[0] != '@' || !strings.Contains(u, ":") {
			return deny("power_levels: users key is not a user ID")
		}
	}
	sl := c.userLevel(ev.Sender)
	old := c.levels
	type pair struct{ o, n int64 }
	var checks []pair
	checks = append(checks, pair{old.Ban, nl.Ban}, pair{old.Invite, nl.Invite}, pair{old.Kick, nl.Kick}, pair{old.Redact, nl.Redact},
		pair{old.StateDefault, nl.StateDefault}, pair{old.EventsDefault, nl.EventsDefault}, pair{old.UsersDefault, nl.UsersDefault})
	evKeys := map[string]bool{}
	for k := range old.Events {
		evKeys[k] = true
	}
	for k := range nl.Events {
		evKeys[k] = true
	}
	for k := range evKeys {
		// D10: effective values; a missing entry falls back to events_default
		checks = append(checks, pair{old.event(k, false), nl.event(k, false)})
	}
	for _, p := range checks {
		if p.o == p.n {
			continue
		}
		if sl < p.n || sl < p.o {
			return deny("power_levels: level above sender")
		}
	}
	if c.row.NotificationsChecked {
		nsl := sl
		nk := map[string]bool{}
		for k := range old.Notifications {
			nk[k] = true
		}
		for k := range nl.Notifications {
			nk[k] = true
		}
		for k := range nk {
			o, n := old.notification(k), nl.notification(k)
			if o == n {
				continue
			}
			if nsl < n || nsl <= o {
				return deny("power_levels: notification level (D10)")
			}
		}
	}
	if c.row.PrivilegedCreators {
		for u := range nl.Users {
			for _, cr := range c.creators {
				if u == cr {
					return deny("power_levels: names a creator")
				}
			}
		}
	}
	uk := map[string]bool{}
	for k := range old.Users {
		uk[k] = true
	}
	for k := range nl.Users {
		uk[k] = true
	}
	for u := range uk {
		o, n := old.user(u), nl.user(u)
		if o == n {
			continue
		}
		if sl < n {
			return deny("power_levels: user level above sender")
		}
		if u != ev.Sender && sl <= o {
			return deny("power_levels: other user's level at or above sender")
		}
	}
	return allow("power_levels")
}
