// Package refstate is an independent implementation of Matrix state resolution
// v1, v2 and v2.1 on abstract events (srgen.E), following the specification's
// algorithm with the library's documented refinements R1-R8 (DESIGN.md §5.2).
// Authorisation is delegated to the reference auth rules (refauth) through
// srgen.History.RefAllowed; nothing here calls the library.
package refstate

import (
	"crypto/sha1"
	"encoding/json"
	"sort"
	"strings"

	"verif/mc/ref/refauth"
	"verif/mc/ref/refjson"
	"verif/mc/ref/refversions"
	"verif/mc/srgen"
)

type E = srgen.E

// Stages exposes intermediate results for diagnosis.
type Stages struct {
	Conflicted, Unconflicted, AuthDifference, Control, Others []string
	PowerOrder, MainlineOrder                                []string
	Mainline                                                 []string
	Rejected                                                 []string
	Result                                                   []string
}

type resolver struct {
	h        *srgen.History
	authList []*E
	all      map[string]*E // auth event map
	partial srgen.State
	st      *Stages
	plCache map[string]refauth.Levels
}

func ids(es []*E) []string {
	out := make([]string, 0, len(es))
	for _, e := range es {
		out = append(out, e.ID)
	}
	sort.Strings(out)
	return out
}

func isStateEvent(e *E) bool { return true } // srgen only produces state events

// split: v1 decides per key over the union; v2 additionally requires an unconflicted event to be in every set.
func split(algo int, sets [][]*E) (conflicted, unconflicted []*E) {
	count := map[string]int{}
	byKey := map[string][]*E{}
	var keys []string
	for _, s := range sets {
		for _, e := range s {
			count[e.ID]++
			if count[e.ID] > 1 {
				continue
			}
			if _, ok := byKey[e.Key()]; !ok {
				keys = append(keys, e.Key())
			}
			byKey[e.Key()] = append(byKey[e.Key()], e)
		}
	}
	sort.Strings(keys)
	for _, k := range keys {
		l := byKey[k]
		if len(l) > 1 {
			conflicted = append(conflicted, l...)
			continue
		}
		if algo == 1 || count[l[0].ID] == len(sets) {
			unconflicted = append(unconflicted, l[0])
		} else {
			conflicted = append(conflicted, l[0])
		}
	}
	return
}

func (r *resolver) authOf(e *E) []*E {
	var out []*E
	for _, id := range e.AuthAll(r.h) {
		if a := r.all[id]; a != nil {
			out = append(out, a)
		}
	}
	return out
}

func (r *resolver) fullAuthChain(set []*E) map[string]*E {
	out := map[string]*E{}
	var visit func(e *E)
	visit = func(e *E) {
		for _, a := range r.authOf(e) {
			if _, ok := out[a.ID]; ok {
				continue
			}
			out[a.ID] = a
			visit(a)
		}
	}
	for _, e := range set {
		visit(e)
	}
	return out
}

func membership(e *E) string {
	var c struct {
		Membership string `json:"membership"`
	}
	_ = json.Unmarshal([]byte(e.Content), &c)
	return c.Membership
}

// isPower: power levels, join rules, and leave/ban of another user (R2).
func isPower(e *E) bool {
	switch e.Type {
	case "m.room.power_levels", "m.room.join_rules":
		return e.SK == ""
	case "m.room.member":
		if e.SK == "" || e.SK == e.Sender {
			return false
		}
		m := membership(e)
		return m == "leave" || m == "ban"
	}
	return false
}

func (r *resolver) levels(pl *E) (refauth.Levels, bool) {
	if l, ok := r.plCache[pl.ID]; ok {
		return l, true
	}
	c, _, err := refjson.Parse([]byte(pl.Content))
	if err != nil {
		return refauth.Levels{}, false
	}
	l, ok := refauth.ParseLevels(r.h.Version, c)
	if ok {
		r.plCache[pl.ID] = l
	}
	return l, ok
}

// senderPower: the sender's level according to the power-levels event among the event's own auth events (R4).
func (r *resolver) senderPower(e *E) int64 {
	if refversions.Get(r.h.Version).PrivilegedCreators {
		if c := r.all[r.h.CreateID]; c != nil {
			creators := []string{c.Sender}
			var cc struct {
				A []string `json:"additional_creators"`
			}
			_ = json.Unmarshal([]byte(c.Content), &cc)
			creators = append(creators, cc.A...)
			for _, x := range creators {
				if x == e.Sender {
					return refauth.CreatorLevel
				}
			}
		}
	}
	for _, a := range r.authOf(e) {
		if a.Type == "m.room.power_levels" && a.SK == "" {
			l, ok := r.levels(a)
			if !ok {
				return 0
			}
			if n, ok := l.Users[e.Sender]; ok {
				return n
			}
			return l.UsersDefault
		}
	}
	return 0
}

type powerKey struct {
	e     *E
	power int64
}

// lessPower: greater power first, then earlier timestamp, then smaller ID.
func lessPower(a, b powerKey) bool {
	if a.power != b.power {
		return a.power > b.power
	}
	if a.e.TS != b.e.TS {
		return a.e.TS < b.e.TS
	}
	return a.e.ID < b.e.ID
}

// powerOrder is the reverse topological power ordering (R3): computed newest first - among the events no
// remaining event refers to, the greatest under lessPower is removed and put in front of the result.
func (r *resolver) powerOrder(events []*E) []*E {
	set := map[string]powerKey{}
	indeg := map[string]int{}
	var list []*E
	seen := map[string]int{}
	for _, e := range events {
		seen[e.ID]++
		if seen[e.ID] == 1 {
			list = append(list, e)
			set[e.ID] = powerKey{e, r.senderPower(e)}
		}
	}
	// the edge count is taken per list entry (an event listed twice counts its references twice): the ancestors
	// of such an event never become ready and are put first, ordered by the same key (R3)
	for _, e := range events {
		for _, a := range e.AuthAll(r.h) {
			indeg[a]++
		}
	}
	var result []*E
	remaining := map[string]bool{}
	for id := range set {
		remaining[id] = true
	}
	for {
		var ready []powerKey
		for id := range remaining {
			if indeg[id] == 0 {
				ready = append(ready, set[id])
			}
		}
		if len(ready) == 0 {
			break
		}
		sort.Slice(ready, func(i, j int) bool { return lessPower(ready[i], ready[j]) })
		pick := ready[len(ready)-1]
		delete(remaining, pick.e.ID)
		result = append([]*E{pick.e}, result...)
		for _, a := range pick.e.AuthAll(r.h) {
			indeg[a]--
		}
	}
	if len(remaining) > 0 {
		var rest []powerKey
		for id := range remaining {
			rest = append(rest, set[id])
		}
		sort.Slice(rest, func(i, j int) bool { return lessPower(rest[i], rest[j]) })
		var pre []*E
		for _, k := range rest {
			pre = append(pre, k.e)
		}
		result = append(pre, result...)
	}
	return result
}

// iterative auth checks (R6)
func (r *resolver) authAndApply(events []*E) {
	for _, e := range events {
		as := srgen.State{}
		need := neededKeys(e)
		for _, k := range need {
			if p := r.partial[k]; p != nil {
				as[k] = p
				continue
			}
			for _, a := range r.authOf(e) {
				if a.Key() == k && !a.Rejected {
					as[k] = a
				}
			}
		}
		if r.h.RefAllowed(e, as) {
			r.partial[e.Key()] = e
		} else {
			r.st.Rejected = append(r.st.Rejected, e.ID)
		}
	}
}

func neededKeys(e *E) []string {
	if e.Type == "m.room.create" {
		return nil
	}
	keys := []string{"m.room.create\x00"}
	if e.Type == "m.room.aliases" {
		return keys
	}
	keys = append(keys, "m.room.power_levels\x00", "m.room.member\x00"+e.Sender)
	if e.Type == "m.room.member" {
		if e.SK != e.Sender {
			keys = append(keys, "m.room.member\x00"+e.SK)
		}
		m := membership(e)
		if m == "join" || m == "invite" || m == "knock" {
			keys = append(keys, "m.room.join_rules\x00")
		}
	}
	return keys
}

func (r *resolver) mainline() []*E {
	var ml []*E
	cur := r.partial["m.room.power_levels\x00"]
	for cur != nil {
		ml = append([]*E{cur}, ml...)
		var next *E
		for _, a := range r.authOf(cur) {
			if a.Type == "m.room.power_levels" && a.SK == "" {
				next = a
			}
		}
		cur = next
	}
	return ml
}

// Resolve runs algorithm algo (1, 2, 3=v2.1) and returns the sorted IDs of the resolved state.
func Resolve(h *srgen.History, algo int, sets [][]*E, authEvents []*E) *Stages {
	st := &Stages{}
	r := &resolver{h: h, authList: authEvents, all: map[string]*E{}, partial: srgen.State{}, st: st, plCache: map[string]refauth.Levels{}}
	for _, e := range authEvents {
		if _, ok := r.all[e.ID]; !ok {
			r.all[e.ID] = e
		}
	}
	conflicted, unconflicted := split(algo, sets)
	st.Conflicted, st.Unconflicted = ids(conflicted), ids(unconflicted)
	if algo == 1 {
		return r.resolveV1(conflicted, unconflicted)
	}
	conflictedMap := map[string]*E{}
	for _, e := range conflicted {
		conflictedMap[e.ID] = e
	}
	unconfSet := map[string]bool{}
	for _, e := range unconflicted {
		unconfSet[e.ID] = true
	}
	// auth difference
	chains := make([]map[string]*E, len(sets))
	union := map[string]*E{}
	for i, s := range sets {
		chains[i] = r.fullAuthChain(s)
		for id, e := range chains[i] {
			union[id] = e
		}
	}
	var diff []*E
	for id, e := range union {
		inAll := true
		for _, c := range chains {
			if _, ok := c[id]; !ok {
				inAll = false
			}
		}
		if !inAll {
			diff = append(diff, e)
		}
	}
	if algo == 3 {
		// conflicted subgraph: every event on an auth path from a conflicted event to another conflicted event
		sub := map[string]*E{}
		var walk func(e *E, path []*E)
		walk = func(e *E, path []*E) {
			if _, ok := conflictedMap[e.ID]; ok && len(path) > 0 {
				for _, p := range path {
					sub[p.ID] = p
				}
				sub[e.ID] = e
			}
			for _, a := range r.authOf(e) {
				walk(a, append(path, e))
			}
		}
		for _, e := range conflicted {
			walk(e, nil)
		}
		have := map[string]bool{}
		for _, e := range diff {
			have[e.ID] = true
		}
		for id, e := range sub {
			if !have[id] {
				diff = append(diff, e)
			}
		}
	}
	st.AuthDifference = ids(diff)
	full := append(append([]*E(nil), conflicted...), diff...)
	// control set (R2): power events and what they reach through conflicted events
	control := map[string]*E{}
	var reach func(e *E)
	reach = func(e *E) {
		for _, a := range e.AuthAll(r.h) {
			if ce, ok := conflictedMap[a]; ok {
				if _, done := control[a]; !done {
					control[a] = ce
					reach(ce)
				}
			}
		}
	}
	for _, e := range full {
		if unconfSet[e.ID] {
			continue
		}
		if isPower(e) {
			control[e.ID] = e
			reach(e)
		}
	}
	var controlList, others []*E
	for _, e := range control {
		controlList = append(controlList, e)
	}
	seenO := map[string]bool{}
	for _, e := range full {
		if unconfSet[e.ID] || isPower(e) || seenO[e.ID] {
			continue
		}
		if _, pulled := control[e.ID]; pulled {
			continue
		}
		seenO[e.ID] = true
		others = append(others, e)
	}
	st.Control, st.Others = ids(controlList), ids(others)
	if algo == 2 {
		for _, e := range unconflicted {
			r.partial[e.Key()] = e
		}
	}
	po := r.powerOrder(controlList)
	for _, e := range po {
		st.PowerOrder = append(st.PowerOrder, e.ID)
	}
	r.authAndApply(po)
	ml := r.mainline()
	pos := map[string]int{}
	for i, e := range ml {
		pos[e.ID] = i
		st.Mainline = append(st.Mainline, e.ID)
	}
	type mk struct {
		e          *E
		pos, steps int
	}
	var mks []mk
	for _, e := range others {
		k := mk{e: e}
		// closest mainline ancestor through power-levels auth events (R5)
		cur := e
		found := false
		for !found {
			var next *E
			for _, a := range r.authOf(cur) {
				if a.Type == "m.room.power_levels" && a.SK == "" {
					next = a
				}
			}
			if next == nil {
				break
			}
			if p, ok := pos[next.ID]; ok {
				k.pos = p
				found = true
				break
			}
			k.steps++
			cur = next
		}
		mks = append(mks, k)
	}
	sort.SliceStable(mks, func(i, j int) bool {
		a, b := mks[i], mks[j]
		if a.pos != b.pos {
			return a.pos < b.pos
		}
		if a.steps != b.steps {
			return a.steps < b.steps
		}
		if a.e.TS != b.e.TS {
			return a.e.TS < b.e.TS
		}
		return a.e.ID < b.e.ID
	})
	var mo []*E
	for _, k := range mks {
		mo = append(mo, k.e)
		st.MainlineOrder = append(st.MainlineOrder, k.e.ID)
	}
	r.authAndApply(mo)
	for _, e := range unconflicted {
		r.partial[e.Key()] = e
	}
	st.Result = srgen.SortedIDs(r.partial)
	return st
}

// ---- v1 (R8)

func sha1Of(id string) string { h := sha1.Sum([]byte(id)); return string(h[:]) }

func sortV1(es []*E) []*E {
	out := append([]*E(nil), es...)
	sort.SliceStable(out, func(i, j int) bool {
		if out[i].Depth != out[j].Depth {
			return out[i].Depth < out[j].Depth
		}
		return strings.Compare(sha1Of(out[i].ID), sha1Of(out[j].ID)) > 0
	})
	return out
}

func (r *resolver) resolveV1(conflicted, unconflicted []*E) *Stages {
	// the auth state starts from the supplied auth events (one per key, later entries win)
	auth := srgen.State{}
	for _, e := range r.authList {
		switch e.Type {
		case "m.room.create", "m.room.power_levels", "m.room.join_rules":
			if e.SK == "" {
				auth[e.Key()] = e
			}
		case "m.room.member", "m.room.third_party_invite":
			auth[e.Key()] = e
		}
	}
	var result []*E
	blocks := map[string][]*E{}
	var order []string
	for _, e := range conflicted {
		if _, ok := blocks[e.Key()]; !ok {
			order = append(order, e.Key())
		}
		blocks[e.Key()] = append(blocks[e.Key()], e)
	}
	authBlock := func(es []*E) *E {
		b := sortV1(es)
		res := b[0]
		auth[res.Key()] = res
		for _, e := range b[1:] {
			if r.h.RefAllowed(e, auth) {
				res = e
				auth[res.Key()] = res
			} else {
				break
			}
		}
		delete(auth, res.Key())
		return res
	}
	group := func(pred func(k string) bool) {
		var got []*E
		for _, k := range order {
			if pred(k) {
				got = append(got, authBlock(blocks[k]))
			}
		}
		for _, e := range got {
			auth[e.Key()] = e
			result = append(result, e)
		}
	}
	typ := func(k string) string { return k[:strings.IndexByte(k, 0)] }
	group(func(k string) bool { return k == "m.room.create\x00" })
	group(func(k string) bool { return k == "m.room.power_levels\x00" })
	group(func(k string) bool { return k == "m.room.join_rules\x00" })
	group(func(k string) bool { return typ(k) == "m.room.third_party_invite" })
	group(func(k string) bool { return typ(k) == "m.room.member" })
	for _, k := range order {
		t := typ(k)
		if t == "m.room.member" || t == "m.room.third_party_invite" || k == "m.room.create\x00" || k == "m.room.power_levels\x00" || k == "m.room.join_rules\x00" {
			continue
		}
		b := sortV1(blocks[k])
		pick := b[0]
		for i := len(b) - 1; i > 0; i-- {
			if r.h.RefAllowed(b[i], auth) {
				pick = b[i]
				break
			}
		}
		result = append(result, pick)
	}
	result = append(result, unconflicted...)
	r.st.Result = ids(result)
	return r.st
}
