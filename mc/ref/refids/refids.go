// Package refids holds recognisers for Matrix identifiers written from the
// grammar in the specification appendices (and property C17's wording).
package refids

import (
	"net/netip"
	"strconv"
	"strings"
)

func isDNSChar(c byte) bool {
	return c >= 'a' && c <= 'z' || c >= 'A' && c <= 'Z' || c >= '0' && c <= '9' || c == '-' || c == '.'
}

func parsePort(s string) (int, bool) {
	if s == "" {
		return 0, false
	}
	for i := 0; i < len(s); i++ {
		if s[i] < '0' || s[i] > '9' {
			return 0, false
		}
	}
	// strip leading zeros for the numeric test but bound the length to avoid overflow
	t := strings.TrimLeft(s, "0")
	if len(t) > 5 {
		return 0, false
	}
	if t == "" {
		return 0, true
	}
	n, _ := strconv.Atoi(t)
	if n > 65535 {
		return 0, false
	}
	return n, true
}

// ServerName: hostname [":" port]; hostname = IPv4 / "[" IPv6 "]" / dns-name.
// Returns the host text, the port (-1 if absent) and validity.
func ServerName(s string) (host string, port int, ok bool) {
	port = -1
	if s == "" {
		return "", -1, false
	}
	rest := ""
	if s[0] == '[' {
		i := strings.IndexByte(s, ']')
		if i < 0 {
			return "", -1, false
		}
		inner := s[1:i]
		a, err := netip.ParseAddr(inner)
		if err != nil || !a.Is6() || a.Zone() != "" || !strings.Contains(inner, ":") {
			return "", -1, false
		}
		host, rest = s[:i+1], s[i+1:]
	} else {
		i := strings.IndexByte(s, ':')
		if i < 0 {
			host = s
		} else {
			host, rest = s[:i], s[i:]
		}
		if host == "" {
			return "", -1, false
		}
		for j := 0; j < len(host); j++ {
			if !isDNSChar(host[j]) {
				return "", -1, false
			}
		}
	}
	if rest != "" {
		if rest[0] != ':' {
			return "", -1, false
		}
		p, ok := parsePort(rest[1:])
		if !ok {
			return "", -1, false
		}
		port = p
	}
	return host, port, true
}

func localpartOK(l string) bool {
	if l == "" {
		return false
	}
	for i := 0; i < len(l); i++ {
		c := l[i]
		if !(c >= 'a' && c <= 'z' || c >= '0' && c <= '9' || strings.IndexByte("_-=./", c) >= 0) {
			return false
		}
	}
	return true
}

// UserID: "@" localpart ":" server_name, at most 255 bytes. Historical IDs
// admit any non-empty localpart (the library documents that it does not
// enforce the historical character range, because real IDs violate it).
func UserID(s string, historical bool) (local, domain string, ok bool) {
	if len(s) > 255 || len(s) == 0 || s[0] != '@' {
		return "", "", false
	}
	i := strings.IndexByte(s, ':')
	if i < 0 {
		return "", "", false
	}
	local, domain = s[1:i], s[i+1:]
	if local == "" {
		return "", "", false
	}
	if !historical && !localpartOK(local) {
		return "", "", false
	}
	if _, _, ok := ServerName(domain); !ok {
		return "", "", false
	}
	return local, domain, true
}

func isURLSafeB64(c byte) bool {
	return c >= 'a' && c <= 'z' || c >= 'A' && c <= 'Z' || c >= '0' && c <= '9' || c == '-' || c == '_'
}

// RoomID: "!" opaque ":" server_name, or "!" + 43 URL-safe base64 characters.
func RoomID(s string) (opaque, domain string, domainless, ok bool) {
	if len(s) == 0 || s[0] != '!' {
		return "", "", false, false
	}
	i := strings.IndexByte(s, ':')
	if i < 0 {
		if len(s) != 44 {
			return "", "", false, false
		}
		for j := 1; j < len(s); j++ {
			if !isURLSafeB64(s[j]) {
				return "", "", false, false
			}
		}
		return s[1:], "", true, true
	}
	opaque, domain = s[1:i], s[i+1:]
	if opaque == "" {
		return "", "", false, false
	}
	if _, _, ok := ServerName(domain); !ok {
		return "", "", false, false
	}
	return opaque, domain, false, true
}
