// Package refredact is the Matrix redaction algorithm per room version,
// transcribed from the specification's tables (rooms/v1 … v11 "Redactions").
// It works on refjson value trees and shares no code with the library.
package refredact

import (
	"verif/mc/ref/refjson"
	"verif/mc/ref/refversions"
)

// top-level keys kept, by algorithm generation
var topV1 = []string{"event_id", "type", "room_id", "sender", "state_key", "content", "hashes", "signatures", "depth", "prev_events", "prev_state", "auth_events", "origin", "origin_server_ts", "membership"}
var topV11 = []string{"event_id", "type", "room_id", "sender", "state_key", "content", "hashes", "signatures", "depth", "prev_events", "auth_events", "origin_server_ts"}

// TopKeys returns the top-level keep-list of a redaction algorithm (1..5).
func TopKeys(alg int) []string {
	if alg >= 5 {
		return topV11
	}
	return topV1
}

// ContentKeys returns the content keep-list for an event type under a
// redaction algorithm; all=true means the whole content is kept. Nested rules
// are written "outer.inner".
func ContentKeys(alg int, typ string) (keys []string, all bool) {
	pl := []string{"ban", "events", "events_default", "kick", "redact", "state_default", "users", "users_default"}
	switch typ {
	case "m.room.member":
		keys = []string{"membership"}
		if alg >= 4 {
			keys = append(keys, "join_authorised_via_users_server")
		}
		if alg >= 5 {
			keys = append(keys, "third_party_invite.signed")
		}
	case "m.room.create":
		if alg >= 5 {
			return nil, true
		}
		keys = []string{"creator"}
	case "m.room.join_rules":
		keys = []string{"join_rule"}
		if alg >= 3 {
			keys = append(keys, "allow")
		}
	case "m.room.power_levels":
		keys = pl
		if alg >= 5 {
			keys = append(append([]string{}, pl...), "invite")
		}
	case "m.room.aliases":
		if alg == 1 {
			keys = []string{"aliases"}
		}
	case "m.room.history_visibility":
		keys = []string{"history_visibility"}
	case "m.room.redaction":
		if alg >= 5 {
			keys = []string{"redacts"}
		}
	}
	return keys, false
}

func get(v *refjson.Value, k string) *refjson.Value {
	if v == nil || v.Kind != refjson.Object {
		return nil
	}
	for _, m := range v.Members {
		if m.Key == k {
			return m.Val
		}
	}
	return nil
}

// Redact applies the redaction algorithm of the room version to an event.
func Redact(version string, ev *refjson.Value) *refjson.Value {
	return RedactAlg(refversions.Get(version).Redaction, ev)
}

func RedactAlg(alg int, ev *refjson.Value) *refjson.Value {
	out := &refjson.Value{Kind: refjson.Object}
	typ := ""
	if t := get(ev, "type"); t != nil && t.Kind == refjson.String {
		typ = t.Str
	}
	for _, k := range TopKeys(alg) {
		v := get(ev, k)
		if v == nil {
			continue
		}
		if k == "content" {
			continue
		}
		out.Members = append(out.Members, refjson.Member{Key: k, Val: v})
	}
	// content is always present in the redacted form (an object)
	nc := &refjson.Value{Kind: refjson.Object}
	content := get(ev, "content")
	keys, all := ContentKeys(alg, typ)
	if all && content != nil {
		nc = content
	} else {
		for _, k := range keys {
			outer, inner := k, ""
			for i := 0; i < len(k); i++ {
				if k[i] == '.' {
					outer, inner = k[:i], k[i+1:]
				}
			}
			v := get(content, outer)
			if v == nil {
				continue
			}
			if inner != "" {
				iv := get(v, inner)
				if iv == nil {
					continue
				}
				v = &refjson.Value{Kind: refjson.Object, Members: []refjson.Member{{Key: inner, Val: iv}}}
			}
			nc.Members = append(nc.Members, refjson.Member{Key: outer, Val: v})
		}
	}
	out.Members = append(out.Members, refjson.Member{Key: "content", Val: nc})
	return out
}
