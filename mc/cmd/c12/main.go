// C12 — the key ring accepts a signature only from a fetched key valid at that time.
// (A) deviation-bounded DFS over batches x database states x fetcher behaviours x
//
//	timestamps x validity rule through the real KeyRing.VerifyJSONs;
//
// (B) full product for CheckKeys; (C) DirectKeyFetcher and (D) PerspectiveKeyFetcher
//
//	over a scripted KeyClient with response faults. Virtual clock (instrumented build).
package main

import (
	"bytes"
	"encoding/binary"
	"context"
	"encoding/base64"
	"encoding/json"
	"errors"
	"fmt"
	"sort"
	"strings"
	"sync"
	"time"

	gmsl "github.com/matrix-org/gomatrixserverlib"
	"github.com/matrix-org/gomatrixserverlib/spec"
	"github.com/matrix-org/gomatrixserverlib/verifhook"
	"golang.org/x/crypto/ed25519"

	"verif/mc/evgen"
	"verif/mc/explore"
	"verif/mc/harness"
	"verif/mc/ref/refjson"
)

const N = int64(1_700_000_000_000)
const day = int64(86_400_000)
const E = N - 10*day

var vnow = time.UnixMilli(N)

var srvs = []string{"s1.org", "s2.org"}
var kids = []string{"ed25519:1", "ed25519:2"}

func goodKey(s, k string) evgen.Key { return evgen.NewKey(s, k, byte(20+2*idx(srvs, s)+idx(kids, k))) }
func evilKey(s, k string) evgen.Key { return evgen.NewKey(s, k, byte(120+2*idx(srvs, s)+idx(kids, k))) }
func idx(l []string, s string) int {
	for i, x := range l {
		if x == s {
			return i
		}
	}
	return len(l)
}

func validAt(ts, validUntil, expired, now int64, strict bool) bool {
	if expired != 0 {
		return ts < expired
	}
	if !strict {
		return true
	}
	if validUntil == 0 {
		return false
	}
	limit := validUntil
	if c := now + 7*day; c < limit {
		limit = c
	}
	return ts <= limit
}

type lr = gmsl.PublicKeyLookupRequest
type lres = gmsl.PublicKeyLookupResult

type reqSpec struct {
	Server string
	Sigs   [3]int // per kid0, kid1, rsa: 0 none 1 valid 2 bad
	AtTS   int64
	Rule   int  `json:",omitempty"` // 0 = the scenario's rule, 1 = strict, 2 = lenient (batches that mix room versions)
	Twin   bool `json:",omitempty"` // the message is byte-identical to request 0's (same object signed once, asked about twice)
}

func (sc *scenario) strictFor(rq reqSpec) bool {
	switch rq.Rule {
	case 1:
		return true
	case 2:
		return false
	}
	return sc.Strict
}

type scenario struct {
	Reqs                   []reqSpec
	DB                     [2][2]int // per server, kid: state index into dbStates
	Fetchers               []int     // behaviour index into fetcherModes
	Strict                 bool
	DBFetchErr, DBStoreErr bool
	Zone                   *[2]int32 `json:",omitempty"` // local time zone: UTC offset (seconds) before / after a change three days from now
}

var dbStates = []string{"current", "absent", "stale", "expired", "wrongkey", "farfuture"}
var fetcherModes = []string{"right", "error", "empty", "wrong", "partial", "extra", "stale", "older", "retired"}
var atMenu = []int64{N - 3_600_000, E - 1, E, N - 1000, N - 999, N + day, N + day + 1, N + 7*day, N + 7*day + 1}

func dbEntry(s, k string, state int) (lres, bool) {
	g := goodKey(s, k)
	r := lres{VerifyKey: gmsl.VerifyKey{Key: spec.Base64Bytes(g.Pub)}, ValidUntilTS: spec.Timestamp(N + day)}
	switch dbStates[state] {
	case "absent":
		return r, false
	case "stale":
		r.ValidUntilTS = spec.Timestamp(N - 1000)
	case "expired":
		r.ValidUntilTS, r.ExpiredTS = 0, spec.Timestamp(E)
	case "wrongkey":
		r.Key = spec.Base64Bytes(evilKey(s, k).Pub)
	case "farfuture":
		r.ValidUntilTS = spec.Timestamp(N + 30*day)
	}
	return r, true
}

func fetcherAnswer(mode int, asked map[lr]spec.Timestamp) (map[lr]lres, error) {
	fresh := func(s, k string, evil bool) lres {
		key := goodKey(s, k)
		if evil {
			key = evilKey(s, k)
		}
		return lres{VerifyKey: gmsl.VerifyKey{Key: spec.Base64Bytes(key.Pub)}, ValidUntilTS: spec.Timestamp(N + 2*day)}
	}
	out := map[lr]lres{}
	switch fetcherModes[mode] {
	case "error":
		return nil, errors.New("scripted fetcher error")
	case "empty":
		return out, nil
	case "right", "wrong", "partial", "stale", "older", "retired":
		for rq := range asked {
			if fetcherModes[mode] == "partial" && string(rq.KeyID) != kids[0] {
				continue
			}
			res := fresh(string(rq.ServerName), string(rq.KeyID), fetcherModes[mode] == "wrong")
			switch fetcherModes[mode] {
			case "stale": // the right key, no longer valid now but valid for timestamps up to a second ago
				res.ValidUntilTS = spec.Timestamp(N - 1000)
			case "older": // an older copy: valid only up to a day ago
				res.ValidUntilTS = spec.Timestamp(N - day)
			case "retired": // the server has retired the key since: reported under old_verify_keys, expired at E
				res.ValidUntilTS, res.ExpiredTS = 0, spec.Timestamp(E)
			}
			out[rq] = res
		}
	case "extra":
		for _, s := range srvs {
			for _, k := range kids {
				out[lr{ServerName: spec.ServerName(s), KeyID: gmsl.KeyID(k)}] = fresh(s, k, false)
			}
		}
		out[lr{ServerName: "unrelated.org", KeyID: "ed25519:9"}] = fresh("s1.org", kids[0], false)
	}
	return out, nil
}

type trace struct {
	mu         sync.Mutex
	dbAsked    []map[lr]spec.Timestamp
	fetchAsked [][]lr // per fetcher call: which keys
	fetchWho   []int
	fetchGave  []map[lr]lres
	stored     []map[lr]lres
}

type scriptDB struct {
	sc *scenario
	tr *trace
}

func (d *scriptDB) FetcherName() string { return "db" }
func (d *scriptDB) FetchKeys(ctx context.Context, asked map[lr]spec.Timestamp) (map[lr]lres, error) {
	cp := map[lr]spec.Timestamp{}
	for k, v := range asked {
		cp[k] = v
	}
	d.tr.dbAsked = append(d.tr.dbAsked, cp)
	if d.sc.DBFetchErr {
		return nil, errors.New("scripted db error")
	}
	out := map[lr]lres{}
	for rq := range asked {
		si, ki := idx(srvs, string(rq.ServerName)), idx(kids, string(rq.KeyID))
		if si >= len(srvs) || ki >= len(kids) {
			continue
		}
		if e, ok := dbEntry(srvs[si], kids[ki], d.sc.DB[si][ki]); ok {
			out[rq] = e
		}
	}
	return out, nil
}
func (d *scriptDB) StoreKeys(ctx context.Context, res map[lr]lres) error {
	cp := map[lr]lres{}
	for k, v := range res {
		cp[k] = v
	}
	d.tr.stored = append(d.tr.stored, cp)
	if d.sc.DBStoreErr {
		return errors.New("scripted store error")
	}
	return nil
}

type scriptFetcher struct {
	id   int
	mode int
	tr   *trace
}

func (f *scriptFetcher) FetcherName() string { return fmt.Sprintf("fetcher%d", f.id) }
func (f *scriptFetcher) FetchKeys(ctx context.Context, asked map[lr]spec.Timestamp) (map[lr]lres, error) {
	var ks []lr
	for k := range asked {
		ks = append(ks, k)
	}
	f.tr.fetchAsked = append(f.tr.fetchAsked, ks)
	f.tr.fetchWho = append(f.tr.fetchWho, f.id)
	out, err := fetcherAnswer(f.mode, asked)
	f.tr.fetchGave = append(f.tr.fetchGave, out)
	return out, err
}

func message(i int, rs reqSpec) []byte {
	obj := evgen.MustParse([]byte(fmt.Sprintf(`{"n":%d,"to":"x"}`, i)))
	sigs := map[string]map[string][]byte{}
	add := func(kid string, st int, rsa bool) {
		if st == 0 {
			return
		}
		if sigs[rs.Server] == nil {
			sigs[rs.Server] = map[string][]byte{}
		}
		if rsa {
			sigs[rs.Server]["rsa:1"] = []byte("not-an-ed25519-signature-but-64-bytes-long-0123456789abcdef012345")[:64]
			return
		}
		k := goodKey(rs.Server, kid)
		if st == 2 {
			k = evilKey(rs.Server, kid)
		}
		sigs[rs.Server][kid] = evgen.ObjectSignature(obj, k)
	}
	add(kids[0], rs.Sigs[0], false)
	add(kids[1], rs.Sigs[1], false)
	add("rsa:1", rs.Sigs[2], true)
	if len(sigs) == 0 {
		return refjson.Emit(nil, obj, true)
	}
	return evgen.WithSignatures(refjson.Emit(nil, obj, true), sigs)
}

// reference: returns for each request must-succeed / may-succeed, and the sets used for the trace clauses
func reference(sc *scenario) (must, may []bool, err bool, refetch map[lr]bool) {
	n := len(sc.Reqs)
	must, may = make([]bool, n), make([]bool, n)
	wanted := map[lr]bool{}
	for _, rq := range sc.Reqs {
		for ki, k := range kids {
			if rq.Sigs[ki] != 0 {
				wanted[lr{ServerName: spec.ServerName(rq.Server), KeyID: gmsl.KeyID(k)}] = true
			}
		}
	}
	if len(wanted) == 0 {
		return must, may, false, nil
	}
	if sc.DBFetchErr {
		return must, may, true, nil
	}
	final := map[lr]lres{}    // keys by the reference acquisition order, solicited answers only
	anySup := map[lr][]lres{} // every key anybody supplied for that (server, key ID)
	refetch = map[lr]bool{}
	for w := range wanted {
		si, ki := idx(srvs, string(w.ServerName)), idx(kids, string(w.KeyID))
		e, ok := dbEntry(srvs[si], kids[ki], sc.DB[si][ki])
		if ok {
			final[w] = e
			anySup[w] = append(anySup[w], e)
			if e.ExpiredTS == 0 && !(N < int64(e.ValidUntilTS)) {
				refetch[w] = true
			}
		} else {
			refetch[w] = true
		}
	}
	remaining := map[lr]spec.Timestamp{}
	for w := range refetch {
		remaining[w] = 0
	}
	for _, mode := range sc.Fetchers {
		if len(remaining) == 0 {
			break
		}
		ans, e := fetcherAnswer(mode, remaining)
		if e != nil || len(ans) == 0 {
			continue
		}
		for k, v := range ans {
			anySup[k] = append(anySup[k], v)
			if _, asked := remaining[k]; asked {
				final[k] = v
				delete(remaining, k)
			}
		}
	}
	ok := func(rq reqSpec, kid string, ki int, key lres) bool {
		if rq.Sigs[ki] != 1 { // only a signature made with the genuine key can verify under the genuine key
			// a "bad" signature was made with the evil key: it verifies under the evil key
			if rq.Sigs[ki] == 2 && string(key.Key) == string(evilKey(rq.Server, kid).Pub) {
				return validAt(rq.AtTS, int64(key.ValidUntilTS), int64(key.ExpiredTS), N, sc.strictFor(rq))
			}
			return false
		}
		if string(key.Key) != string(goodKey(rq.Server, kid).Pub) {
			return false
		}
		return validAt(rq.AtTS, int64(key.ValidUntilTS), int64(key.ExpiredTS), N, sc.strictFor(rq))
	}
	for i, rq := range sc.Reqs {
		for ki, k := range kids {
			if rq.Sigs[ki] == 0 {
				continue
			}
			w := lr{ServerName: spec.ServerName(rq.Server), KeyID: gmsl.KeyID(k)}
			if f, have := final[w]; have && ok(rq, k, ki, f) {
				must[i] = true
			}
			for _, s := range anySup[w] {
				if ok(rq, k, ki, s) {
					may[i] = true
				}
			}
		}
	}
	return must, may, false, refetch
}

// zoneFor builds a local time zone whose UTC offset changes once, three days after the scenario's "now".
func zoneFor(before, after int32) *time.Location {
	change := time.UnixMilli(N).Add(3 * 24 * time.Hour)
	var b bytes.Buffer
	b.WriteString("TZif")
	b.Write(make([]byte, 16))
	for _, n := range []uint32{0, 0, 0, 2, 2, 8} {
		_ = binary.Write(&b, binary.BigEndian, n)
	}
	_ = binary.Write(&b, binary.BigEndian, int32(change.Add(-400*24*time.Hour).Unix()))
	_ = binary.Write(&b, binary.BigEndian, int32(change.Unix()))
	b.Write([]byte{0, 1})
	_ = binary.Write(&b, binary.BigEndian, before)
	b.Write([]byte{0, 0})
	_ = binary.Write(&b, binary.BigEndian, after)
	b.Write([]byte{0, 4})
	b.WriteString("AAA\x00BBB\x00")
	loc, err := time.LoadLocationFromTZData("Verif/C12", b.Bytes())
	if err != nil {
		panic(err)
	}
	return loc
}

func runScenario(r *harness.Run, sc *scenario) error {
	r.Eval()
	if sc.Zone != nil {
		// process-global: only the sequential part (Z) and replays set it
		savedLocal, savedClock := time.Local, verifhook.Clock
		time.Local = zoneFor(sc.Zone[0], sc.Zone[1])
		verifhook.Clock = func() time.Time { return time.UnixMilli(N) } // a reading taken under the zone in force
		defer func() { time.Local, verifhook.Clock = savedLocal, savedClock }()
	}
	tr := &trace{}
	ring := &gmsl.KeyRing{KeyDatabase: &scriptDB{sc, tr}}
	for i, m := range sc.Fetchers {
		ring.KeyFetchers = append(ring.KeyFetchers, &scriptFetcher{i, m, tr})
	}
	check := gmsl.NoStrictValidityCheck
	if sc.Strict {
		check = gmsl.StrictValiditySignatureCheck
	}
	var reqs []gmsl.VerifyJSONRequest
	for i, rq := range sc.Reqs {
		c, mi := check, i
		if rq.Rule != 0 {
			c = gmsl.NoStrictValidityCheck
			if sc.strictFor(rq) {
				c = gmsl.StrictValiditySignatureCheck
			}
		}
		if rq.Twin {
			mi = 0
		}
		reqs = append(reqs, gmsl.VerifyJSONRequest{ServerName: spec.ServerName(rq.Server), AtTS: spec.Timestamp(rq.AtTS), Message: message(mi, rq), ValidityCheckingFunc: c})
	}
	var res []gmsl.VerifyJSONResult
	var err error
	if p, msg := harness.Try(func() { res, err = ring.VerifyJSONs(context.Background(), reqs) }); p {
		return fmt.Errorf("VerifyJSONs panics: %s", msg)
	}
	must, may, wantErr, refetch := reference(sc)
	if err != nil {
		if wantErr || sc.DBStoreErr {
			r.Outcome("database-error")
			return nil // a database failure may fail the whole call
		}
		return fmt.Errorf("VerifyJSONs returns error %v without a database fault", err)
	}
	if wantErr {
		return fmt.Errorf("database fetch failed but VerifyJSONs returned results")
	}
	if len(res) != len(reqs) {
		return fmt.Errorf("%d results for %d requests", len(res), len(reqs))
	}
	for i := range reqs {
		got := res[i].Error == nil
		if got && !may[i] {
			return fmt.Errorf("request %d (%+v) reported verified, but no key supplied by the database or a fetcher both verifies the signature and was valid at %d (strict=%v)", i, sc.Reqs[i], sc.Reqs[i].AtTS, sc.strictFor(sc.Reqs[i]))
		}
		if !got && must[i] {
			return fmt.Errorf("request %d (%+v) refused (%v) although the database / first answering fetcher supplied a key that verifies it and was valid at %d (strict=%v)", i, sc.Reqs[i], res[i].Error, sc.Reqs[i].AtTS, sc.strictFor(sc.Reqs[i]))
		}
		if got {
			r.Outcome("verified")
		} else {
			r.Outcome("refused")
		}
	}
	// call-trace clauses
	if len(tr.dbAsked) > 1 {
		return fmt.Errorf("database consulted %d times", len(tr.dbAsked))
	}
	for ci, ks := range tr.fetchAsked {
		for _, k := range ks {
			if !refetch[k] {
				return fmt.Errorf("fetcher %d was asked for %s/%s which the database holds within its validity (or as an expired key)", tr.fetchWho[ci], k.ServerName, k.KeyID)
			}
		}
	}
	for ci := 1; ci < len(tr.fetchWho); ci++ {
		if tr.fetchWho[ci] <= tr.fetchWho[ci-1] {
			return fmt.Errorf("fetchers consulted out of order: %v", tr.fetchWho)
		}
	}
	fetchedAny := false
	for _, g := range tr.fetchGave {
		if len(g) > 0 {
			fetchedAny = true
		}
	}
	if fetchedAny {
		if len(tr.stored) == 0 {
			return fmt.Errorf("keys were fetched but nothing was stored")
		}
		st := tr.stored[len(tr.stored)-1]
		for ci, g := range tr.fetchGave {
			for k, v := range g {
				asked := false
				for _, a := range tr.fetchAsked[ci] {
					if a == k {
						asked = true
					}
				}
				if !asked {
					continue
				}
				sv, ok := st[k]
				if !ok {
					return fmt.Errorf("fetched key %s/%s was not stored", k.ServerName, k.KeyID)
				}
				// a later fetcher is never asked for a key an earlier one delivered, so the stored value is this one
				if string(sv.Key) != string(v.Key) || sv.ValidUntilTS != v.ValidUntilTS {
					return fmt.Errorf("stored key %s/%s differs from the fetched one", k.ServerName, k.KeyID)
				}
			}
		}
	}
	return nil
}

// ---------------------------------------------------------------- (B) CheckKeys

func serverKeysJSON(name string, validUntil int64, verify map[string][]byte, old map[string][]byte, signWith []evgen.Key, corrupt bool) []byte {
	var vk, ok []string
	var ids []string
	for k := range verify {
		ids = append(ids, k)
	}
	sort.Strings(ids)
	for _, k := range ids {
		vk = append(vk, fmt.Sprintf(`%q:{"key":%q}`, k, base64.RawStdEncoding.EncodeToString(verify[k])))
	}
	ids = nil
	for k := range old {
		ids = append(ids, k)
	}
	sort.Strings(ids)
	for _, k := range ids {
		ok = append(ok, fmt.Sprintf(`%q:{"key":%q,"expired_ts":%d}`, k, base64.RawStdEncoding.EncodeToString(old[k]), E))
	}
	text := fmt.Sprintf(`{"server_name":%q,"valid_until_ts":%d,"verify_keys":{%s},"old_verify_keys":{%s}}`, name, validUntil, strings.Join(vk, ","), strings.Join(ok, ","))
	obj := evgen.MustParse([]byte(text))
	sigs := map[string]map[string][]byte{}
	for _, k := range signWith {
		if sigs[k.Server] == nil {
			sigs[k.Server] = map[string][]byte{}
		}
		s := evgen.ObjectSignature(obj, k)
		if corrupt {
			s = append([]byte(nil), s...)
			s[5] ^= 8
		}
		sigs[k.Server][k.KeyID] = s
	}
	if len(sigs) == 0 {
		return []byte(text)
	}
	return evgen.WithSignatures([]byte(text), sigs)
}

func parseSK(b []byte) (gmsl.ServerKeys, error) {
	var sk gmsl.ServerKeys
	err := json.Unmarshal(b, &sk)
	return sk, err
}

type ckCase struct {
	AskName, RespName string
	VUDelta           int64
	Keys              string // good | badsig | short | long | rsa-only | none | two-one-bad | two-good
}

func runCheckKeys(r *harness.Run, c ckCase) error {
	r.Eval()
	g1, g2 := goodKey(c.RespName, kids[0]), goodKey(c.RespName, kids[1])
	verify := map[string][]byte{}
	var sign []evgen.Key
	corrupt := false
	wantEd, allEdOK := false, true
	switch c.Keys {
	case "good":
		verify[kids[0]] = g1.Pub
		sign = []evgen.Key{g1}
		wantEd = true
	case "badsig":
		verify[kids[0]] = g1.Pub
		sign = []evgen.Key{g1}
		corrupt, wantEd, allEdOK = true, true, false
	case "unsigned":
		verify[kids[0]] = g1.Pub
		wantEd, allEdOK = true, false
	case "short":
		verify[kids[0]] = g1.Pub[:31]
		sign = []evgen.Key{g1}
		wantEd, allEdOK = true, false
	case "long":
		verify[kids[0]] = append(append([]byte(nil), g1.Pub...), 0)
		sign = []evgen.Key{g1}
		wantEd, allEdOK = true, false
	case "rsa-only":
		verify["rsa:1"] = []byte("rsa-key-bytes")
	case "none":
	case "two-good":
		verify[kids[0]], verify[kids[1]] = g1.Pub, g2.Pub
		sign = []evgen.Key{g1, g2}
		wantEd = true
	case "two-one-unsigned":
		verify[kids[0]], verify[kids[1]] = g1.Pub, g2.Pub
		sign = []evgen.Key{g1}
		wantEd, allEdOK = true, false
	}
	raw := serverKeysJSON(c.RespName, N+c.VUDelta, verify, map[string][]byte{"ed25519:old": evilKey(c.RespName, kids[0]).Pub}, sign, corrupt)
	sk, err := parseSK(raw)
	if err != nil {
		return fmt.Errorf("harness: %v", err)
	}
	var checks gmsl.KeyChecks
	var keys map[gmsl.KeyID]spec.Base64Bytes
	if p, msg := harness.Try(func() { checks, keys = gmsl.CheckKeys(spec.ServerName(c.AskName), time.UnixMilli(N), sk) }); p {
		return fmt.Errorf("CheckKeys panics: %s", msg)
	}
	want := c.AskName == c.RespName && c.VUDelta > 0 && wantEd && allEdOK
	if checks.AllChecksOK != want {
		return fmt.Errorf("CheckKeys(%+v): AllChecksOK = %v, reference %v (%+v)", c, checks.AllChecksOK, want, checks)
	}
	if (keys != nil && len(keys) > 0) != want {
		return fmt.Errorf("CheckKeys(%+v) returned keys %v although acceptance is %v", c, keys, want)
	}
	if want {
		for k, v := range keys {
			if !strings.HasPrefix(string(k), "ed25519:") || len(v) != 32 {
				return fmt.Errorf("CheckKeys returned a non-ed25519 or malformed key %s", k)
			}
		}
		r.Outcome("keys-accepted")
	} else {
		r.Outcome("keys-refused")
	}
	return nil
}

// ---------------------------------------------------------------- (C)/(D) fetchers over a scripted KeyClient

type clientScript struct {
	Direct map[string]string // server -> mode: good | error | wrongname | badsig | pastvalid | shortkey
	Notary map[string]string // server -> mode for LookupServerKeys fallback: good | error | missing | badsig | wrongname
}

type scriptClient struct {
	sc    clientScript
	calls []string
	mu    sync.Mutex
}

func skFor(server, mode string) ([]byte, bool) {
	g := goodKey(server, kids[0])
	verify := map[string][]byte{kids[0]: g.Pub}
	name, vu, corrupt := server, N+day, false
	switch mode {
	case "wrongname":
		name = "other.org"
		g = goodKey("other.org", kids[0])
		verify = map[string][]byte{kids[0]: g.Pub}
	case "badsig":
		corrupt = true
	case "pastvalid":
		vu = N - day
	case "shortkey":
		verify = map[string][]byte{kids[0]: g.Pub[:16]}
	case "zerovalid":
		vu = 0
	}
	return serverKeysJSON(name, vu, verify, map[string][]byte{"ed25519:old": evilKey(server, kids[1]).Pub}, []evgen.Key{g}, corrupt), mode != "wrongname" && mode != "badsig" && mode != "shortkey" && mode != "zerovalid"
}

func (c *scriptClient) GetServerKeys(ctx context.Context, s spec.ServerName) (gmsl.ServerKeys, error) {
	c.mu.Lock()
	c.calls = append(c.calls, "get:"+string(s))
	c.mu.Unlock()
	mode := c.sc.Direct[string(s)]
	if mode == "error" || mode == "" {
		return gmsl.ServerKeys{}, errors.New("scripted error")
	}
	raw, _ := skFor(string(s), mode)
	return parseSK(raw)
}

func (c *scriptClient) LookupServerKeys(ctx context.Context, s spec.ServerName, reqs map[lr]spec.Timestamp) ([]gmsl.ServerKeys, error) {
	c.mu.Lock()
	c.calls = append(c.calls, "lookup:"+string(s))
	c.mu.Unlock()
	mode := c.sc.Notary[string(s)]
	switch mode {
	case "error", "":
		return nil, errors.New("scripted error")
	case "missing":
		raw, _ := skFor("elsewhere.org", "good")
		sk, _ := parseSK(raw)
		return []gmsl.ServerKeys{sk}, nil
	}
	raw, _ := skFor(string(s), mode)
	sk, err := parseSK(raw)
	return []gmsl.ServerKeys{sk}, err
}

func accepted(mode string) bool {
	// "pastvalid" is the recorded finding: the fetchers evaluate valid_until_ts against the epoch
	return mode == "good"
}

func runDirect(r *harness.Run, sc clientScript, servers []string, local string) error {
	r.Eval()
	cl := &scriptClient{sc: sc}
	f := &gmsl.DirectKeyFetcher{Client: cl, IsLocalServerName: func(s spec.ServerName) bool { return string(s) == local }, LocalPublicKey: spec.Base64Bytes(goodKey(local, kids[0]).Pub)}
	asked := map[lr]spec.Timestamp{}
	for _, s := range servers {
		asked[lr{ServerName: spec.ServerName(s), KeyID: gmsl.KeyID(kids[0])}] = spec.Timestamp(N)
	}
	var got map[lr]lres
	var err error
	if p, msg := harness.Try(func() { got, err = f.FetchKeys(context.Background(), asked) }); p {
		return fmt.Errorf("DirectKeyFetcher.FetchKeys panics: %s", msg)
	}
	if err != nil {
		return fmt.Errorf("DirectKeyFetcher.FetchKeys error: %v", err)
	}
	for _, s := range servers {
		k := lr{ServerName: spec.ServerName(s), KeyID: gmsl.KeyID(kids[0])}
		res, have := got[k]
		if s == local {
			if !have || string(res.Key) != string(goodKey(local, kids[0]).Pub) {
				return fmt.Errorf("local server key not returned")
			}
			continue
		}
		dm, nm := sc.Direct[s], sc.Notary[s]
		want := accepted(dm) || ((dm != "good") && accepted(nm))
		past := (dm == "pastvalid") || (dm != "good" && dm != "pastvalid" && nm == "pastvalid")
		if past && have && res.ValidUntilTS == spec.Timestamp(N-day) {
			r.Violation("fetcher-accepts-past-valid-until", fmt.Sprintf("DirectKeyFetcher accepted a key response for %s whose valid_until_ts is a day in the past: the fetchers call CheckKeys with now = time.Unix(0,0)", s), "none", nil)
			continue
		}
		if have != want {
			return fmt.Errorf("server %s (direct %q, notary %q): key returned=%v, expected %v", s, dm, nm, have, want)
		}
		if have {
			if string(res.Key) != string(goodKey(s, kids[0]).Pub) || res.ValidUntilTS != spec.Timestamp(N+day) || res.ExpiredTS != 0 {
				return fmt.Errorf("server %s: wrong key material returned: %+v", s, res)
			}
			old, ok := got[lr{ServerName: spec.ServerName(s), KeyID: "ed25519:old"}]
			if !ok || old.ExpiredTS != spec.Timestamp(E) || old.ValidUntilTS != 0 {
				return fmt.Errorf("server %s: old_verify_keys entry missing or wrong: %+v", s, old)
			}
		}
	}
	// nothing about servers that were not asked for
	for k := range got {
		if idx(servers, string(k.ServerName)) == len(servers) {
			return fmt.Errorf("result contains a key of %s which was not requested", k.ServerName)
		}
	}
	r.Nontrivial("direct:" + harness.J(sc) + strings.Join(servers, ","))
	return nil
}

var notary = evgen.NewKey("notary.org", "ed25519:n", 77)

type pCase struct {
	Entries []string // per response entry: good | no-notary-sig | unknown-notary-key | bad-notary-sig | badsig | pastvalid
}

type pClient struct{ c pCase }

func (p *pClient) GetServerKeys(context.Context, spec.ServerName) (gmsl.ServerKeys, error) {
	return gmsl.ServerKeys{}, errors.New("unused")
}
func (p *pClient) LookupServerKeys(ctx context.Context, s spec.ServerName, reqs map[lr]spec.Timestamp) ([]gmsl.ServerKeys, error) {
	var out []gmsl.ServerKeys
	for i, mode := range p.c.Entries {
		server := srvs[i%len(srvs)]
		g := goodKey(server, kids[0])
		sign := []evgen.Key{g, notary}
		vu := N + day
		corruptSelf := false
		switch mode {
		case "no-notary-sig":
			sign = []evgen.Key{g}
		case "unknown-notary-key":
			sign = []evgen.Key{g, evgen.NewKey("notary.org", "ed25519:unknown", 78)}
		case "bad-notary-sig":
			sign = []evgen.Key{g, evgen.NewKey("notary.org", "ed25519:n", 79)}
		case "pastvalid":
			vu = N - day
		case "badsig":
			corruptSelf = true
		}
		raw := serverKeysJSON(server, vu, map[string][]byte{kids[0]: g.Pub}, nil, sign, false)
		if corruptSelf {
			raw = serverKeysJSON(server, vu, map[string][]byte{kids[0]: g.Pub}, nil, []evgen.Key{evilKey(server, kids[0]), notary}, false)
		}
		sk, err := parseSK(raw)
		if err != nil {
			return nil, err
		}
		out = append(out, sk)
	}
	return out, nil
}

func runPerspective(r *harness.Run, c pCase) error {
	r.Eval()
	f := &gmsl.PerspectiveKeyFetcher{PerspectiveServerName: "notary.org", PerspectiveServerKeys: map[gmsl.KeyID]ed25519.PublicKey{"ed25519:n": notary.Pub}, Client: &pClient{c}}
	var got map[lr]lres
	var err error
	if p, msg := harness.Try(func() {
		got, err = f.FetchKeys(context.Background(), map[lr]spec.Timestamp{{ServerName: "s1.org", KeyID: gmsl.KeyID(kids[0])}: spec.Timestamp(N)})
	}); p {
		return fmt.Errorf("PerspectiveKeyFetcher.FetchKeys panics: %s", msg)
	}
	allGood := true
	pastOnly := true
	for _, m := range c.Entries {
		if m != "good" {
			allGood = false
			if m != "pastvalid" {
				pastOnly = false
			}
		}
	}
	if !allGood && pastOnly && err == nil {
		r.Violation("fetcher-accepts-past-valid-until", "PerspectiveKeyFetcher accepted a notary response whose valid_until_ts is a day in the past: the fetchers call CheckKeys with now = time.Unix(0,0)", "none", nil)
		return nil
	}
	// every entry returned by the fetcher must come from a response that passed all checks
	if allGood {
		if err != nil {
			return fmt.Errorf("notary response with only valid entries refused: %v", err)
		}
		for i := range c.Entries {
			s := srvs[i%len(srvs)]
			if res, ok := got[lr{ServerName: spec.ServerName(s), KeyID: gmsl.KeyID(kids[0])}]; !ok || string(res.Key) != string(goodKey(s, kids[0]).Pub) {
				return fmt.Errorf("notary response: key of %s missing from result", s)
			}
		}
		r.Outcome("notary-accepted")
		return nil
	}
	r.Outcome("notary-refused")
	for i, m := range c.Entries {
		if m == "good" || m == "pastvalid" {
			continue
		}
		s := srvs[i%len(srvs)]
		if _, ok := got[lr{ServerName: spec.ServerName(s), KeyID: gmsl.KeyID(kids[0])}]; ok && err == nil {
			return fmt.Errorf("notary response entry %d (%s) for %s was accepted (entries %v)", i, m, s, c.Entries)
		}
	}
	if err == nil {
		return fmt.Errorf("notary response with a faulty entry (%v) accepted without error", c.Entries)
	}
	return nil
}

func main() { harness.Main("C12", "fault_enumeration", run) }

func run(r *harness.Run) {
	verifhook.Clock = func() time.Time { return vnow }
	r.Rule("(A) deviation-bounded DFS (bound B) from the nominal scenario over: batch of 1-2 requests (server, per-key-ID signature none/valid/made-by-other-key for two ed25519 IDs, an rsa signature, timestamp from a 9-point boundary menu), database state per (server,key) in {current, absent, stale, expired, wrong key, valid far in the future}, two fetchers each in {right, error, empty, wrong key, partial, extra unsolicited keys, right key already past its validity, older copy, key since retired (expired_ts)}, strict/lenient rule, database fetch/store errors, with the real KeyRing under a virtual clock; oracle = reference acquisition model (soundness: success only under a supplied key that verifies and was valid at the timestamp; completeness: success whenever database / first answering fetcher supplies one) + call-trace clauses (fetchers only asked for absent/stale keys, in order, fetched keys stored). (A') batches of 7 ... 257 (thorough ... 4097) requests with one or two bad requests in the positions a chunked loop would lose. (B) full product for CheckKeys. (C) DirectKeyFetcher: every assignment of direct/notary response modes to 3 servers + local name. (D) PerspectiveKeyFetcher: every list of <=3 entries over 6 entry modes. Non-trivial = distinct scenario.")
	r.Assume("ed25519 trusted", "unsolicited keys returned by a fetcher may or may not replace database keys: either verdict is accepted when only such a key decides")
	r.OnReplay("scenario", func(raw json.RawMessage) error {
		var sc scenario
		if err := json.Unmarshal(raw, &sc); err != nil {
			return err
		}
		return runScenario(r, &sc)
	})
	r.OnReplay("checkkeys", func(raw json.RawMessage) error {
		var c ckCase
		_ = json.Unmarshal(raw, &c)
		return runCheckKeys(r, c)
	})
	r.OnReplay("perspective", func(raw json.RawMessage) error {
		var c pCase
		_ = json.Unmarshal(raw, &c)
		return runPerspective(r, c)
	})
	if r.Replaying() {
		return
	}
	// (A)
	B := r.Pick(3, 4)
	for _, nreq := range []int{1, 2} {
		for _, strict := range []bool{true, false} {
			nreq, strict := nreq, strict
			st := explore.Explore(explore.Options{Bound: B, Workers: 1}, func(x *explore.Ctx) {
				sc := &scenario{Strict: strict}
				for i := 0; i < nreq; i++ {
					rs := reqSpec{}
					rs.Server = srvs[(i+x.Choose(2, "req-server"))%2]
					rs.Sigs[0] = []int{1, 0, 2}[x.Choose(3, "sig-k1")]
					rs.Sigs[1] = x.Choose(3, "sig-k2")
					rs.Sigs[2] = x.Choose(2, "sig-rsa")
					rs.AtTS = atMenu[x.Choose(len(atMenu), "at-ts")]
					sc.Reqs = append(sc.Reqs, rs)
				}
				for s := 0; s < 2; s++ {
					for k := 0; k < 2; k++ {
						sc.DB[s][k] = x.Choose(len(dbStates), "db-state")
					}
				}
				sc.Fetchers = []int{x.Choose(len(fetcherModes), "fetcher0"), x.Choose(len(fetcherModes), "fetcher1")}
				sc.DBFetchErr = x.Choose(2, "db-fetch-error") == 1
				sc.DBStoreErr = x.Choose(2, "db-store-error") == 1
				if err := runScenario(r, sc); err != nil {
					r.Violation("scenario:"+harness.J(sc), err.Error(), "scenario", sc)
				}
				r.Nontrivial(harness.J(sc))
				if x.Deviations() == B && r.WantSample("scenario") {
					r.Sample("scenario", sc)
				}
			})
			r.Count("A_executions", st.Executions)
			r.Transition(st.ChoicePts)
		}
	}
	// (A'') twins: the same signed object asked about two or three times in one batch under different validity rules (a batch
	// that mixes room versions), every order of the rules x timestamp menu x database state of the key x first fetcher
	{
		type tj struct {
			at, db, f int
		}
		var tjobs []tj
		for at := range atMenu {
			for db := range dbStates {
				for f := range fetcherModes {
					tjobs = append(tjobs, tj{at, db, f})
				}
			}
		}
		rules := [][]int{{2, 1}, {1, 2}, {2, 1, 2}, {1, 2, 1}, {2, 2, 1}, {1, 1, 2}}
		r.Parallel(len(tjobs), func(i int) {
			j := tjobs[i]
			for _, rl := range rules {
				sc := &scenario{Fetchers: []int{j.f, 0}}
				sc.DB[0][0], sc.DB[0][1], sc.DB[1][0], sc.DB[1][1] = j.db, j.db, 0, 0
				for _, x := range rl {
					sc.Reqs = append(sc.Reqs, reqSpec{Server: srvs[0], Sigs: [3]int{1, 0, 0}, AtTS: atMenu[j.at], Rule: x, Twin: true})
				}
				if err := runScenario(r, sc); err != nil {
					r.Violation("scenario-twins:"+harness.J(sc), err.Error(), "scenario", sc)
				}
				r.Nontrivial(harness.J(sc))
			}
		})
		r.Count("A2_twin_batches", int64(len(tjobs)*len(rules)))
	}
	// (Z) the seven-day cap is seven times 24 hours from now, whatever the process's local time zone does in between: the
	// strict rule around the cap under local zones whose UTC offset changes three days from now (clocks back / forward by
	// one hour) and under UTC; key valid far beyond the cap
	{
		nz := 0
		for _, z := range [][2]int32{{0, 0}, {3600, 0}, {0, 3600}, {-5 * 3600, -4 * 3600}, {12*3600 + 2700, 13*3600 + 2700}} {
			z := z
			for _, d := range []int64{-3_600_001, -3_600_000, -1_800_000, -1, 0, 1, 1_800_000, 3_599_999, 3_600_000, 3_600_001} {
				for _, strict := range []bool{true, false} {
					sc := &scenario{Fetchers: []int{0, 0}, Strict: strict, Zone: &z}
					sc.DB[0][0], sc.DB[0][1], sc.DB[1][0], sc.DB[1][1] = 5, 5, 5, 5 // valid far in the future
					sc.Reqs = []reqSpec{{Server: srvs[0], Sigs: [3]int{1, 0, 0}, AtTS: N + 7*day + d}}
					nz++
					if err := runScenario(r, sc); err != nil {
						r.Violation(fmt.Sprintf("scenario-zone:%v:%d:%v", z, d, strict), fmt.Sprintf("local time zone with offsets %v around a change in three days: %v", z, err), "scenario", sc)
					}
				}
			}
		}
		r.Count("Z_zone_cases", int64(nz))
	}
	// (B)
	for _, ask := range []string{"s1.org", "s2.org"} {
		for _, resp := range []string{"s1.org", "s2.org"} {
			for _, d := range []int64{-day, -1, 0, 1, day} {
				for _, k := range []string{"good", "badsig", "unsigned", "short", "long", "rsa-only", "none", "two-good", "two-one-unsigned"} {
					c := ckCase{ask, resp, d, k}
					if err := runCheckKeys(r, c); err != nil {
						r.Violation("checkkeys:"+harness.J(c), err.Error(), "checkkeys", c)
					}
				}
			}
		}
	}
	r.Sample("checkkeys", ckCase{"s1.org", "s1.org", 0, "good"})
	// (A') large batches: one result per request, in request order, whatever the batch size. Sizes around the powers of two
	// at which an implementation might start to chunk or parallelise; every request genuine except one or two in the
	// positions where a chunked loop would lose them (first, middle, the last three), which are forged / unsigned / signed
	// but asked for an instant beyond the key's validity; database current, strict rule.
	var big []scenario
	for _, n := range r.PickInts([]int{7, 8, 9, 31, 33, 63, 64, 65, 71, 73, 127, 129, 257}, []int{7, 8, 9, 15, 16, 17, 31, 32, 33, 63, 64, 65, 66, 67, 71, 72, 73, 127, 128, 129, 255, 256, 257, 511, 513, 1023, 1025, 4097}) {
		good := reqSpec{Server: "s1.org", Sigs: [3]int{1, 0, 0}, AtTS: N - 3_600_000}
		for _, bad := range []reqSpec{{Server: "s1.org", Sigs: [3]int{2, 0, 0}, AtTS: N - 3_600_000}, {Server: "s1.org", Sigs: [3]int{0, 0, 0}, AtTS: N - 3_600_000}, {Server: "s2.org", Sigs: [3]int{1, 0, 0}, AtTS: N + 7*day + 1}} {
			for _, pos := range [][]int{{n - 1}, {n - 2}, {n - 3}, {0}, {n / 2}, {n - 1, 0}, {n - 7 + n%7}} {
				sc := scenario{Fetchers: []int{0, 0}, Strict: true}
				for i := 0; i < n; i++ {
					sc.Reqs = append(sc.Reqs, good)
				}
				ok := true
				for _, p := range pos {
					if p < 0 || p >= n {
						ok = false
						break
					}
					sc.Reqs[p] = bad
				}
				if ok {
					big = append(big, sc)
				}
			}
		}
	}
	r.Parallel(len(big), func(i int) {
		if err := runScenario(r, &big[i]); err != nil {
			var badAt []int
			for j, q := range big[i].Reqs {
				if q.Sigs[0] != 1 || q.Server != "s1.org" {
					badAt = append(badAt, j)
				}
			}
			r.Violation(fmt.Sprintf("batch:n=%d:bad=%v:%v", len(big[i].Reqs), badAt, big[i].Reqs[badAt[0]]), err.Error(), "scenario", big[i])
		}
	})
	r.Count("large_batches", int64(len(big)))
	// (C)
	three := []string{"s1.org", "s2.org", "s3.org"}
	dmodes := []string{"good", "error", "wrongname", "badsig", "pastvalid", "shortkey", "zerovalid"}
	nmodes := []string{"good", "error", "missing", "badsig", "wrongname", "pastvalid"}
	var cscripts []clientScript
	for _, d1 := range dmodes {
		for _, n1 := range nmodes {
			for _, d2 := range dmodes {
				for _, n2 := range []string{"good", "error"} {
					cscripts = append(cscripts, clientScript{Direct: map[string]string{"s1.org": d1, "s2.org": d2, "s3.org": "good"}, Notary: map[string]string{"s1.org": n1, "s2.org": n2, "s3.org": "error"}})
				}
			}
		}
	}
	for _, sc := range cscripts {
		for _, set := range [][]string{three, {"s1.org"}, {"s1.org", "local.org"}, {"local.org"}, {"s1.org", "s2.org", "local.org"}} {
			if err := runDirect(r, sc, set, "local.org"); err != nil {
				r.Violation("direct:"+harness.J(sc)+strings.Join(set, ","), err.Error(), "none", nil)
			}
		}
	}
	r.Count("C_scripts", int64(len(cscripts)))
	r.Sample("direct-fetcher", cscripts[9])
	// (D)
	pm := []string{"good", "no-notary-sig", "unknown-notary-key", "bad-notary-sig", "badsig", "pastvalid"}
	var plist []pCase
	var pg func(cur []string)
	pg = func(cur []string) {
		if len(cur) > 0 {
			plist = append(plist, pCase{append([]string(nil), cur...)})
		}
		if len(cur) == 3 {
			return
		}
		for _, m := range pm {
			pg(append(cur, m))
		}
	}
	pg(nil)
	for _, c := range plist {
		if err := runPerspective(r, c); err != nil {
			r.Violation("perspective:"+strings.Join(c.Entries, ","), err.Error(), "perspective", c)
		}
	}
	r.Count("D_cases", int64(len(plist)))
	r.Sample("perspective", plist[10])
	r.Extra("bounds", map[string]int{"deviations": B})
}
