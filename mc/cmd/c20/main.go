// C20 — login tokens authenticate the issuing server and user, and expire.
// Bounded-exhaustive product of issue parameters x issue instants x validation
// instants x validation parameters x byte-level and caveat-level alterations,
// on the real tokens package under a virtual clock (instrumented build).
package main

import (
	"bytes"
	"encoding/base64"
	"encoding/json"
	"fmt"
	"strconv"
	"strings"
	"time"

	"github.com/matrix-org/gomatrixserverlib/tokens"
	"github.com/matrix-org/gomatrixserverlib/verifhook"
	macaroon "gopkg.in/macaroon.v2"

	"verif/mc/harness"
)

var vnow time.Time

type issueP struct {
	Secret, Server, User string
	Duration             int
	IssueAt              int64 // unix seconds
}

type valP struct {
	Secret, User string
	Delta        int64
}

func effDur(d int) int64 {
	if d == 0 {
		return 120
	}
	return int64(d)
}

func issue(p issueP) (string, error) {
	vnow = time.Unix(p.IssueAt, 0)
	return tokens.GenerateLoginToken(tokens.TokenOptions{ServerPrivateKey: []byte(p.Secret), ServerName: p.Server, UserID: p.User, Duration: p.Duration})
}

func validate(tok string, secret, user string, at int64) error {
	vnow = time.Unix(at, 500_000_000) // mid-second: sub-second position must not matter
	return tokens.ValidateToken(tokens.TokenOptions{ServerPrivateKey: []byte(secret), ServerName: "ignored", UserID: user}, tok)
}

type macParts struct {
	id      string
	caveats []string
	sig     string
}

func parts(tok string) (*macParts, *macaroon.Macaroon, bool) {
	bin, err := base64.RawURLEncoding.DecodeString(tok)
	if err != nil {
		return nil, nil, false
	}
	var m macaroon.Macaroon
	if err := m.UnmarshalBinary(bin); err != nil {
		return nil, nil, false
	}
	p := &macParts{id: string(m.Id()), sig: string(m.Signature())}
	for _, c := range m.Caveats() {
		p.caveats = append(p.caveats, string(c.Id)+"|"+string(c.VerificationId)+"|"+c.Location)
	}
	return p, &m, true
}

func sameParts(a, b *macParts) bool {
	if a.id != b.id || a.sig != b.sig || len(a.caveats) != len(b.caveats) {
		return false
	}
	for i := range a.caveats {
		if a.caveats[i] != b.caveats[i] {
			return false
		}
	}
	return true
}

// ---- hand encodings of a macaroon (what the holder of a token can write without the key, beyond what the library emits)

func uvarint(b []byte) (uint64, int) {
	var x uint64
	var sft uint
	for i, c := range b {
		if c < 0x80 {
			return x | uint64(c)<<sft, i + 1
		}
		x |= uint64(c&0x7f) << sft
		sft += 7
	}
	return 0, 0
}

// v2CaveatSections finds, in a v2 binary macaroon, the start offset and the offset of the end-of-section byte of every caveat.
func v2CaveatSections(b []byte) (starts, ends []int, ok bool) {
	if len(b) == 0 || b[0] != 2 {
		return nil, nil, false
	}
	i := 1
	skipSection := func() bool {
		for i < len(b) {
			if b[i] == 0 { // EOS
				return true
			}
			_, n := uvarint(b[i:])
			if n == 0 {
				return false
			}
			i += n
			l, n2 := uvarint(b[i:])
			if n2 == 0 || i+n2+int(l) > len(b) {
				return false
			}
			i += n2 + int(l)
		}
		return false
	}
	if !skipSection() { // header: [location] identifier EOS
		return nil, nil, false
	}
	i++
	for i < len(b) && b[i] != 0 {
		st := i
		if !skipSection() {
			return nil, nil, false
		}
		starts, ends = append(starts, st), append(ends, i)
		i++
	}
	return starts, ends, i < len(b)
}

// v2Variants: the same macaroon with a zero-length verification-id field (04 00) written into one caveat section, or a
// zero-length location field (01 00) put in front of one caveat; name tells which.
func v2Variants(b []byte) map[string][]byte {
	out := map[string][]byte{}
	starts, ends, ok := v2CaveatSections(b)
	if !ok {
		return out
	}
	ins := func(at int, bytes ...byte) []byte {
		n := append([]byte{}, b[:at]...)
		n = append(n, bytes...)
		return append(n, b[at:]...)
	}
	for k := range starts {
		out[fmt.Sprintf("v2, empty verification id on caveat %d", k)] = ins(ends[k], 4, 0)
		out[fmt.Sprintf("v2, empty location on caveat %d", k)] = ins(starts[k], 1, 0)
	}
	return out
}

// v1Encode writes the macaroon in the v1 binary format; emptyVid >= 0 adds a zero-length "vid" packet to that caveat and
// emptyCl a zero-length "cl" packet.
func v1Encode(m *macaroon.Macaroon, emptyVid, emptyCl int) []byte {
	var out []byte
	pkt := func(key string, data []byte) {
		out = append(out, []byte(fmt.Sprintf("%04x%s ", len(key)+len(data)+6, key))...)
		out = append(out, data...)
		out = append(out, '\n')
	}
	pkt("location", []byte(m.Location()))
	pkt("identifier", m.Id())
	for k, c := range m.Caveats() {
		pkt("cid", c.Id)
		if len(c.VerificationId) > 0 || k == emptyVid {
			pkt("vid", c.VerificationId)
		}
		if c.Location != "" || k == emptyCl {
			pkt("cl", []byte(c.Location))
		}
	}
	pkt("signature", m.Signature())
	return out
}

func mint(secret, server, id string, caveats []string) string {
	m, err := macaroon.New([]byte(secret), []byte(id), server, macaroon.V2)
	if err != nil {
		panic(err)
	}
	for _, c := range caveats {
		if err := m.AddFirstPartyCaveat([]byte(c)); err != nil {
			panic(err)
		}
	}
	b, _ := m.MarshalBinary()
	return base64.RawURLEncoding.EncodeToString(b)
}

func main() { harness.Main("C20", "model_checking", run) }

func run(r *harness.Run) {
	verifhook.Clock = func() time.Time { return vnow }
	r.Rule("full product of issue parameters (2 secrets x 2 server names x 4 users (two of them not starting with @) x 9 durations) x 6 issue instants (every second-of-minute class, minute/hour boundaries) x validation offsets around every boundary x (same/other secret) x (same user / other user / 10 near misses of the issued user ID: case variants of localpart and domain, padding, truncation at either end, empty), under a virtual clock; for every issued token: every byte x 4 bit patterns of the binary macaroon, every base64 character x 9 substitutes, 9 appended caveats x 2 validating users x before/after expiry, 2 ... 512 (thorough 65537) repeated appended caveats with and without one deviating caveat at the end, and tokens minted with the right key from every subset/ordering/duplication of the required caveats and malformed expiry caveats. Non-trivial = distinct (token, validation) whose expected verdict is 'refuse' for exactly one reason, or 'accept'. Oracle: reftoken = same secret AND same user AND caveats exactly the three issued AND elapsed seconds < duration.")
	r.Assume("HMAC-SHA256 / the macaroon library are trusted", "the macaroon location field (server name hint) is unauthenticated by the macaroon format: alterations that leave identifier, caveats and signature byte-identical are not counted as alterations", "textual alterations that base64-decode to identical bytes are the same token")

	type one struct {
		Issue issueP
		Val   valP
		Alt   string // description of alteration, "" if none
		Token string
	}
	check := func(c one, expectOK bool, kind string) error {
		r.Eval()
		var err error
		if p, msg := harness.Try(func() { err = validate(c.Token, c.Val.Secret, c.Val.User, c.Issue.IssueAt+c.Val.Delta) }); p {
			return fmt.Errorf("panic: %s", msg)
		}
		if expectOK && err != nil {
			return fmt.Errorf("token issued with %+v must validate with %+v but: %v", c.Issue, c.Val, err)
		}
		if !expectOK && err == nil {
			return fmt.Errorf("token (%s; issued %+v) validates with %+v but must be refused", c.Alt, c.Issue, c.Val)
		}
		return nil
	}
	r.OnReplay("case", func(raw json.RawMessage) error {
		var in struct {
			Case     one
			ExpectOK bool
		}
		if err := json.Unmarshal(raw, &in); err != nil {
			return err
		}
		return check(in.Case, in.ExpectOK, "case")
	})
	if r.Replaying() {
		return
	}
	report := func(class string, c one, expectOK bool, err error) {
		if err == nil {
			return
		}
		key := fmt.Sprintf("%s:dur=%d:sec=%d:delta=%d:%s", class, c.Issue.Duration, c.Issue.IssueAt%60, c.Val.Delta, c.Alt)
		r.Violation(key, err.Error(), "case", map[string]interface{}{"Case": c, "ExpectOK": expectOK})
	}

	secrets := []string{"aSecretKey", "otherKey"}
	servers := []string{"a.org", "b.org:8448"}
	users := []string{"@u:a.org", "@v:a.org", "dave", "user_17:a.org"} // tokens are also issued for localparts and other non-@ identifiers
	durations := []int{0, 1, 2, 59, 60, 61, 120, 3600, -1,
		// durations around the points where seconds stop fitting other units (2^31, 2^32 seconds; 2^63 nanoseconds is
		// 9 223 372 036 s; 2^64 ns; 2^63 microseconds): a lifetime is a number of seconds, whatever its size or sign
		1<<31 - 1, 1 << 31, 1 << 32, 9_223_372_036, 9_223_372_037, 18_446_744_074, 1 << 40, 9_223_372_036_855, -9_223_372_037, -18_446_744_074, -(1 << 40)}
	base := int64(1_700_000_040) // 1_700_000_040 % 60 == 0
	if base%60 != 0 {
		panic("base not on a minute boundary")
	}
	instants := []int64{base, base + 1, base + 30, base + 59, base + 3599, base + 86399}
	if r.Thorough() {
		durations = append(durations, 3, 30, 119, 121, 86400, 604800, -60)
		for s := int64(2); s < 59; s += 7 {
			instants = append(instants, base+s)
		}
	}
	deltasFor := func(d int64) []int64 {
		set := map[int64]bool{}
		for _, x := range []int64{0, 1, d - 1, d, d + 1, 59, 60, 61, 119, 120, 121, 3599, 3600, 3601, 86400, 31536000} {
			if x >= 0 {
				set[x] = true
			}
		}
		var out []int64
		for x := range set {
			out = append(out, x)
		}
		return out
	}
	far := strconv.FormatInt(base+1_000_000_000, 10)
	past := strconv.FormatInt(base-1000, 10)
	nIssued := 0
	heavyDone := map[string]bool{}
	for _, sec := range secrets {
		for _, srv := range servers {
			for _, usr := range users {
				for _, dur := range durations {
					for _, at := range instants {
						ip := issueP{sec, srv, usr, dur, at}
						tok, err := issue(ip)
						if err != nil {
							r.Violation(fmt.Sprintf("issue-fails:%+v", ip), err.Error(), "none", nil)
							continue
						}
						nIssued++
						d := effDur(dur)
						// GetUserFromToken
						r.Eval()
						if u, err := tokens.GetUserFromToken(tok); err != nil || u != usr {
							r.Violation(fmt.Sprintf("getuser:%+v", ip), fmt.Sprintf("GetUserFromToken = %q, %v; issued for %q", u, err, usr), "none", nil)
						}
						origParts, origMac, ok := parts(tok)
						if !ok || len(origParts.caveats) != 3 {
							r.Violation(fmt.Sprintf("issued-shape:%+v", ip), "issued token does not decode to a macaroon with three caveats", "none", nil)
							continue
						}
						// (1) timing / secret / user product
						for _, delta := range deltasFor(d) {
							for _, vs := range secrets {
								// the other user, and near misses of the issued one (a user ID is an opaque, case-sensitive string)
								i := strings.IndexByte(usr, ':')
								if i < 0 {
									i = len(usr)
								}
								valUsers := append(append([]string{}, users...), strings.ToUpper(usr), strings.ToUpper(usr[:i])+usr[i:], usr[:i]+strings.ToUpper(usr[i:]), usr+" ", " "+usr, usr[:len(usr)-1], usr[1:], usr[2:], usr[strings.LastIndexAny(usr, "_@")+1:], "")
								for _, vu := range valUsers {
									c := one{ip, valP{vs, vu, delta}, "", tok}
									exp := vs == sec && vu == usr && delta < d
									report("plain", c, exp, check(c, exp, "case"))
									reasons := 0
									if vs != sec {
										reasons++
									}
									if vu != usr {
										reasons++
									}
									if delta >= d {
										reasons++
									}
									if reasons <= 1 {
										r.Nontrivial(fmt.Sprintf("p:%d:%d:%d:%v:%v", dur, at%60, delta, vs == sec, vu == usr))
									}
									if exp {
										r.Outcome("accept")
									} else {
										r.Outcome("refuse")
									}
								}
							}
						}
						// alterations are explored for one server name and the boundary-relevant instants only
						if srv != servers[0] || (at != base && at != base+59) {
							continue
						}
						bin, _ := base64.RawURLEncoding.DecodeString(tok)
						within := int64(0)
						if d <= 0 {
							within = -1 // never valid
						}
						// (2) byte-level alterations of the binary macaroon
						for i := range bin {
							for _, mode := range []int{0, 1, 2, 3} {
								b := append([]byte(nil), bin...)
								switch mode {
								case 0:
									b[i] ^= 1
								case 1:
									b[i] ^= 0x80
								case 2:
									b[i] = 0
								case 3:
									b[i] = 0xff
								}
								if bytes.Equal(b, bin) {
									continue
								}
								at2 := base64.RawURLEncoding.EncodeToString(b)
								ap, _, dec := parts(at2)
								if dec && sameParts(ap, origParts) {
									r.Count("alteration_of_unauthenticated_location_only", 1)
									continue
								}
								for _, dl := range []int64{0, d + 1} {
									c := one{ip, valP{sec, usr, dl}, fmt.Sprintf("byte %d mode %d", i, mode), at2}
									report("byte-altered", c, false, check(c, false, "case"))
								}
								r.Nontrivial("b:" + at2)
							}
						}
						// (3) base64 character substitutions
						for i := 0; i < len(tok); i++ {
							for _, sub := range []byte{'A', 'B', '_', '-', '=', '\n', ' ', '+', '/'} {
								if tok[i] == sub {
									continue
								}
								t2 := tok[:i] + string(sub) + tok[i+1:]
								b2, err := base64.RawURLEncoding.DecodeString(t2)
								if err == nil && bytes.Equal(b2, bin) {
									r.Count("textual_alteration_decoding_to_same_bytes", 1)
									continue
								}
								if err == nil {
									if ap, _, dec := parts(t2); dec && sameParts(ap, origParts) {
										r.Count("alteration_of_unauthenticated_location_only", 1)
										continue
									}
								}
								c := one{ip, valP{sec, usr, 0}, fmt.Sprintf("char %d -> %q", i, sub), t2}
								report("char-altered", c, false, check(c, false, "case"))
								r.Nontrivial("c:" + t2)
							}
						}
						// truncations and extensions
						for _, t2 := range []string{"", tok[:len(tok)-1], tok[:len(tok)/2], tok + "A", tok + "AAAA", "A" + tok, tok + tok} {
							if b2, err := base64.RawURLEncoding.DecodeString(t2); err == nil && bytes.Equal(b2, bin) {
								continue
							}
							if ap, _, dec := parts(t2); dec && sameParts(ap, origParts) {
								r.Count("trailing_bytes_ignored_by_macaroon_decoder", 1)
								continue
							}
							c := one{ip, valP{sec, usr, 0}, "truncate/extend", t2}
							report("char-altered", c, false, check(c, false, "case"))
						}
						// (4) appended caveats (possible without the key)
						if validate(base64.RawURLEncoding.EncodeToString(v1Encode(origMac, -1, -1)), string(sec), usr, at) == nil {
							r.Count("genuine_token_accepted_in_v1_encoding", 1) // shows that the hand encoder writes what the library reads
						}
						other := users[0]
						if usr == other {
							other = users[1]
						}
						for _, cav := range []string{"gen = 1", "gen = 2", "user_id = " + usr, "user_id = " + other, "time < " + far, "time < " + past, "x = 1", "", "time < abc"} {
							m2 := origMac.Clone()
							if err := m2.AddFirstPartyCaveat([]byte(cav)); err != nil {
								continue
							}
							b2, _ := m2.MarshalBinary()
							t2 := base64.RawURLEncoding.EncodeToString(b2)
							for _, vu := range users {
								for _, dl := range []int64{0, d - 1, d, d + 100} {
									if dl < 0 {
										continue
									}
									c := one{ip, valP{sec, vu, dl}, "appended caveat " + strconv.Quote(cav), t2}
									report("caveat-appended", c, false, check(c, false, "case"))
								}
							}
							// the same attenuated token in encodings the library itself never writes: the v1 binary format, and either
							// format with a zero-length verification id / location on a caveat. However it is spelt, it carries an
							// additional caveat and must be refused
							nc := len(m2.Caveats())
							hand := v2Variants(b2)
							hand["v1"] = v1Encode(m2, -1, -1)
							for k := 0; k < nc; k++ {
								hand[fmt.Sprintf("v1, empty vid on caveat %d", k)] = v1Encode(m2, k, -1)
								hand[fmt.Sprintf("v1, empty cl on caveat %d", k)] = v1Encode(m2, -1, k)
							}
							for name, hb := range hand {
								th := base64.RawURLEncoding.EncodeToString(hb)
								c := one{ip, valP{sec, usr, 0}, "appended caveat " + strconv.Quote(cav) + ", encoded by hand: " + name, th}
								report("caveat-appended-encoding", c, false, check(c, false, "case"))
							}
							r.Nontrivial("a:" + t2)
						}
						// many appended caveats (still possible without the key): counts around the sizes at which a counter of
						// 8 or 16 bits wraps, alone and with one deviating caveat at the end; once per (user, secret)
						if hk := usr + "|" + string(sec); !heavyDone[hk] {
							heavyDone[hk] = true
							for _, n := range r.PickInts([]int{2, 3, 255, 256, 257, 512}, []int{2, 3, 127, 128, 255, 256, 257, 511, 512, 1024, 65535, 65536, 65537}) {
								for _, fam := range [][2]string{{"gen = 1", ""}, {"user_id = " + usr, "user_id = " + other}, {"time < " + past, "time < " + far}, {"time < " + far, ""}, {"gen = 1", "gen = 2"}} {
									for _, withLast := range []bool{false, true} {
										if withLast && fam[1] == "" {
											continue
										}
										m2 := origMac.Clone()
										cnt := n
										if withLast {
											cnt = n - 1
										}
										for i := 0; i < cnt; i++ {
											_ = m2.AddFirstPartyCaveat([]byte(fam[0]))
										}
										if withLast {
											_ = m2.AddFirstPartyCaveat([]byte(fam[1]))
										}
										b2, _ := m2.MarshalBinary()
										t2 := base64.RawURLEncoding.EncodeToString(b2)
										for _, vu := range []string{usr, other} {
											for _, dl := range []int64{0, d + 100} {
												c := one{ip, valP{sec, vu, dl}, fmt.Sprintf("%d appended caveats %q (last one %q: %v)", n, fam[0], fam[1], withLast), t2}
												report("caveat-appended-many", c, false, check(c, false, "case"))
											}
										}
									}
								}
							}
						}
						_ = within
					}
				}
			}
		}
	}
	r.Count("tokens_issued", int64(nIssued))
	// (5) tokens minted with the right key but a different caveat list
	at := base + 30
	exp := "time < " + strconv.FormatInt(at+120, 10)
	req := []string{tokens.Gen, tokens.UserPrefix + users[0], exp}
	type mintCase struct {
		cavs []string
		ok   string // "accept", "refuse", "either"
	}
	var mints []mintCase
	// every proper subset (missing a required caveat) in issue order
	for mask := 0; mask < 7; mask++ {
		var cs []string
		for i := 0; i < 3; i++ {
			if mask&(1<<i) != 0 {
				cs = append(cs, req[i])
			}
		}
		mints = append(mints, mintCase{cs, "refuse"})
	}
	mints = append(mints, mintCase{req, "accept"})
	// reorderings: not producible without the key and not an "additional" caveat: either verdict is consistent
	for _, p := range [][]int{{0, 2, 1}, {1, 0, 2}, {1, 2, 0}, {2, 0, 1}, {2, 1, 0}} {
		mints = append(mints, mintCase{[]string{req[p[0]], req[p[1]], req[p[2]]}, "either"})
	}
	// duplicates / extra / malformed
	for i := 0; i < 3; i++ {
		for pos := 0; pos <= 3; pos++ {
			cs := append([]string(nil), req[:pos]...)
			cs = append(cs, req[i])
			cs = append(cs, req[pos:]...)
			mints = append(mints, mintCase{cs, "refuse"})
		}
	}
	for _, bad := range []string{"time < ", "time < abc", "time < 1e12", "time < -1", "time < 0", "time <" + far, "time < " + far + "0000000000000", "time < " + past} {
		mints = append(mints, mintCase{[]string{req[0], req[1], bad}, "refuse"})
	}
	for _, bad := range []string{"user_id = ", "user_id = " + users[1], "user_id =" + users[0], "user_id = " + users[0] + " "} {
		mints = append(mints, mintCase{[]string{req[0], bad, req[2]}, "refuse"})
	}
	for _, bad := range []string{"gen = 2", "gen = 1 ", "gen=1", "Gen = 1"} {
		mints = append(mints, mintCase{[]string{bad, req[1], req[2]}, "refuse"})
	}
	for _, id := range []string{users[0], users[1], ""} {
		for _, key := range secrets {
			for _, mc := range mints {
				tok := mint(key, servers[0], id, mc.cavs)
				ip := issueP{key, servers[0], id, 120, at}
				c := one{ip, valP{secrets[0], users[0], 0}, fmt.Sprintf("minted id=%q key=%q caveats=%q", id, key, mc.cavs), tok}
				want := mc.ok
				if key != secrets[0] {
					want = "refuse"
				}
				// the macaroon identifier is what GetUserFromToken reports; a token whose id differs from
				// its user_id caveat was never issued by this package: it must not authenticate the id
				if want == "either" {
					r.Eval()
					_ = validate(tok, secrets[0], users[0], at)
					r.Count("reordered_caveats_either", 1)
					continue
				}
				if want == "accept" && id != users[0] {
					// validates the caveat user, while GetUserFromToken would report id: outside what GenerateLoginToken can produce
					r.Count("foreign_identifier_not_judged", 1)
					continue
				}
				report("minted", c, want == "accept", check(c, want == "accept", "case"))
				r.Nontrivial("m:" + tok)
			}
		}
	}
	r.Sample("plain", map[string]interface{}{"issue": issueP{secrets[0], servers[0], users[0], 60, base + 59}, "validate": valP{secrets[0], users[0], 60}, "expect": "refuse (60 s elapsed, across a minute boundary)"})
	r.Sample("caveat-appended", "issued token + appended first-party caveat \"time < "+far+"\" validated after expiry: expect refuse")
	r.Sample("byte-altered", "binary macaroon with byte i xor 0x80, for every i")
	r.Vacuous(nIssued == 0, "no token issued")
}
