// C03 — events round-trip and their identity is a function of the redacted content.
package main

import (
	"encoding/base64"
	"encoding/json"
	"fmt"
	"strings"

	gmsl "github.com/matrix-org/gomatrixserverlib"

	"verif/mc/evalpha"
	"verif/mc/evgen"
	"verif/mc/harness"
	"verif/mc/poison"
	"verif/mc/ref/refevent"
	"verif/mc/ref/refjson"
	"verif/mc/ref/refversions"
)

type snap struct {
	ID, Type, Sender, Room string
	SK                     *string
	Content                string
	Depth, TS              int64
	Prev, Auth             []string
	Redacted               bool
}

func take(ev gmsl.PDU) (s snap, err error) {
	if p, msg := harness.Try(func() {
		s = snap{ID: ev.EventID(), Type: ev.Type(), Sender: string(ev.SenderID()), Room: ev.RoomID().String(), SK: ev.StateKey(),
			Depth: ev.Depth(), TS: int64(ev.OriginServerTS()), Prev: ev.PrevEventIDs(), Auth: ev.AuthEventIDs(), Redacted: ev.Redacted()}
		cv, _, e := refjson.Parse(ev.Content())
		if e != nil {
			panic("content not JSON: " + string(ev.Content()))
		}
		s.Content = string(refjson.Canonical(cv))
	}); p {
		return s, fmt.Errorf("accessor panics: %s", msg)
	}
	return s, nil
}

func eqSK(a, b *string) bool { return (a == nil) == (b == nil) && (a == nil || *a == *b) }
func eqL(a, b []string) bool {
	return strings.Join(a, "\x00") == strings.Join(b, "\x00") && len(a) == len(b)
}

// same compares identity fields always and payload fields unless redaction happened in between.
func same(a, b snap, payload bool) string {
	switch {
	case a.ID != b.ID:
		return fmt.Sprintf("event ID %s vs %s", a.ID, b.ID)
	case a.Type != b.Type:
		return "type"
	case a.Sender != b.Sender:
		return "sender"
	case a.Room != b.Room:
		return fmt.Sprintf("room ID %s vs %s", a.Room, b.Room)
	case !eqSK(a.SK, b.SK):
		return "state key"
	case a.Depth != b.Depth:
		return "depth"
	case a.TS != b.TS:
		return "origin_server_ts"
	case !eqL(a.Prev, b.Prev):
		return fmt.Sprintf("prev events %v vs %v", a.Prev, b.Prev)
	case !eqL(a.Auth, b.Auth):
		return fmt.Sprintf("auth events %v vs %v", a.Auth, b.Auth)
	}
	if payload && a.Content != b.Content {
		return fmt.Sprintf("content %s vs %s", a.Content, b.Content)
	}
	return ""
}

var key3 = evgen.NewKey("c.org", "ed25519:3", 3)

var opNames = []string{"setunsigned", "setfield", "sign2", "redact", "re-untrusted", "re-trusted", "re-headered", "accessors-twice"}

func applyOp(version string, ev gmsl.PDU, op string) (out gmsl.PDU, err error) {
	ver := gmsl.MustGetRoomVersion(gmsl.RoomVersion(version))
	if p, msg := harness.Try(func() {
		switch op {
		case "setunsigned":
			out, err = ev.SetUnsigned(map[string]interface{}{"age": 2, "k": "<v>"})
		case "setfield":
			err = ev.SetUnsignedField("x", 1)
			out = ev
		case "sign2":
			out = ev.Sign(key3.Server, gmsl.KeyID(key3.KeyID), key3.Priv)
		case "redact":
			ev.Redact()
			out = ev
		case "re-untrusted":
			out, err = ver.NewEventFromUntrustedJSON(ev.JSON())
		case "re-trusted":
			out, err = ver.NewEventFromTrustedJSON(ev.JSON(), ev.Redacted())
		case "re-headered":
			var h []byte
			h, err = ev.ToHeaderedJSON()
			if err == nil {
				out, err = gmsl.NewEventFromHeaderedJSON(h, ev.Redacted())
			}
		case "accessors-twice":
			_ = ev.AuthEventIDs()
			_ = ev.PrevEventIDs()
			_ = ev.EventID()
			out = ev
		}
	}); p {
		return nil, fmt.Errorf("%s panics: %s", op, msg)
	}
	return out, err
}

type seqCase struct {
	Version string
	Proto   evalpha.Proto
	Ops     []string
}

func runSeq(r *harness.Run, c seqCase) error {
	poison.Redaction(c.Version) // refused events first: what they leave behind must not reach this event's identity
	r.Eval()
	row := refversions.Get(c.Version)
	ev, err := evalpha.Build(c.Version, c.Proto)
	if err != nil {
		return fmt.Errorf("Build fails: %v", err)
	}
	if ev.Redacted() {
		return fmt.Errorf("built event is marked redacted")
	}
	if e := gmsl.CheckFields(ev); e != nil {
		return fmt.Errorf("built event fails its own field checks: %v", e)
	}
	base, err := take(ev)
	if err != nil {
		return err
	}
	// what was asked for is what was built
	if base.Type != c.Proto.Type || base.Sender != c.Proto.Sender || !eqSK(base.SK, c.Proto.StateKey) || base.Depth != c.Proto.Depth || base.TS != c.Proto.TS || !eqL(base.Prev, c.Proto.Prev) {
		return fmt.Errorf("built event differs from the proto-event: %+v", base)
	}
	pc, _, _ := refjson.Parse([]byte(c.Proto.Content))
	if base.Content != string(refjson.Canonical(pc)) {
		return fmt.Errorf("built content %s differs from proto content %s", base.Content, c.Proto.Content)
	}
	js := evgen.MustParse(ev.JSON())
	// identity
	if row.EventIDFormat != 1 {
		want := refevent.EventID(c.Version, js)
		if base.ID != want {
			return fmt.Errorf("event ID %s is not the reference hash ID %s", base.ID, want)
		}
		enc := base64.RawURLEncoding
		if row.EventIDFormat == 2 {
			enc = base64.RawStdEncoding
		}
		if b, e := enc.DecodeString(base.ID[1:]); e != nil || len(b) != 32 {
			return fmt.Errorf("event ID %s does not use the alphabet the room version prescribes", base.ID)
		}
	}
	isCreate := c.Proto.Type == "m.room.create" && c.Proto.StateKey != nil && *c.Proto.StateKey == ""
	v12 := func(s snap, where string) error {
		if !row.DomainlessRoomIDs {
			return nil
		}
		if isCreate {
			if s.Room != "!"+s.ID[1:] {
				return fmt.Errorf("%s: v12 create event room ID %s is not its event ID %s with the sigil swapped", where, s.Room, s.ID)
			}
			if len(s.Auth) != 0 {
				return fmt.Errorf("%s: v12 create event reports auth events %v", where, s.Auth)
			}
		} else {
			if len(s.Auth) == 0 || s.Auth[0] != "$"+s.Room[1:] {
				return fmt.Errorf("%s: v12 event does not report the create event first among its auth events: %v", where, s.Auth)
			}
			protoNamesCreate := false
			for _, a := range c.Proto.Auth {
				protoNamesCreate = protoNamesCreate || a == "$"+s.Room[1:]
			}
			stored := evgen.Get(js, "auth_events")
			for _, e := range stored.Elems {
				if e.Str == "$"+s.Room[1:] && !protoNamesCreate {
					return fmt.Errorf("%s: stored auth_events contain the create event although the proto-event did not list it", where)
				}
			}
		}
		return nil
	}
	if !row.DomainlessRoomIDs || isCreate {
		if !eqL(base.Auth, c.Proto.Auth) && !(isCreate && row.DomainlessRoomIDs) {
			return fmt.Errorf("auth events %v differ from the proto-event's %v", base.Auth, c.Proto.Auth)
		}
	} else if !eqL(base.Auth[1:], c.Proto.Auth) {
		return fmt.Errorf("auth events %v are not create + the proto-event's %v", base.Auth, c.Proto.Auth)
	}
	if err := v12(base, "built"); err != nil {
		return err
	}
	redactedYet := false
	cur := ev
	for i, op := range c.Ops {
		nx, err := applyOp(c.Version, cur, op)
		if err != nil {
			return fmt.Errorf("step %d (%s): %v", i, op, err)
		}
		r.Transition(1)
		if op == "redact" {
			redactedYet = true
		}
		s, err := take(nx)
		if err != nil {
			return fmt.Errorf("step %d (%s): %v", i, op, err)
		}
		if op == "re-untrusted" && redactedYet && !s.Redacted {
			// re-parsing a redacted event as untrusted input flags it by its content hash alone: when redaction
			// removed nothing that is hashed the result is, correctly, not marked redacted
			redactedYet = false
			if s.Content != base.Content {
				return fmt.Errorf("after %v: event not marked redacted although its content %s differs from the original %s", c.Ops[:i+1], s.Content, base.Content)
			}
		}
		if d := same(base, s, !redactedYet); d != "" {
			return fmt.Errorf("after %v: %s changed", c.Ops[:i+1], d)
		}
		if s.Redacted != redactedYet {
			return fmt.Errorf("after %v: Redacted() = %v", c.Ops[:i+1], s.Redacted)
		}
		if err := v12(s, fmt.Sprintf("after %v", c.Ops[:i+1])); err != nil {
			return err
		}
		if !redactedYet {
			if e := gmsl.CheckFields(nx); e != nil {
				return fmt.Errorf("after %v: CheckFields: %v", c.Ops[:i+1], e)
			}
		}
		cur = nx
	}
	if len(c.Ops) > 0 {
		r.Nontrivial(fmt.Sprintf("%s|%s|%v|%v", c.Version, base.ID, c.Ops, c.Proto.Unsigned))
	}
	return nil
}

type diffCase struct {
	Version string
	A, B    evalpha.Proto
	Field   string
}

func runDiff(r *harness.Run, c diffCase) error {
	r.Eval()
	a, err := evalpha.Build(c.Version, c.A)
	if err != nil {
		return fmt.Errorf("Build A: %v", err)
	}
	b, err := evalpha.Build(c.Version, c.B)
	if err != nil {
		return fmt.Errorf("Build B: %v", err)
	}
	if a.Depth() != c.A.Depth || b.Depth() != c.B.Depth {
		return fmt.Errorf("built events report depth %d / %d, their proto-events say %d / %d", a.Depth(), b.Depth(), c.A.Depth, c.B.Depth)
	}
	// the same two events built through ONE reused builder must be the same two events
	sa, err := take(a)
	if err != nil {
		return err
	}
	sb, err := take(b)
	if err != nil {
		return err
	}
	ra, rb, err := evalpha.BuildReusing(c.Version, c.A, c.B)
	if err != nil {
		return fmt.Errorf("Build with a reused builder: %v", err)
	}
	v1ids := refversions.Get(c.Version).EventIDFormat == 1
	for _, pair := range []struct {
		got  gmsl.PDU
		want snap
		n    string
	}{{rb, sb, "second"}, {ra, sa, "first"}} {
		s, err := take(pair.got)
		if err != nil {
			return err
		}
		if v1ids {
			s.ID = pair.want.ID // random per build
		}
		if d := same(pair.want, s, true); d != "" {
			return fmt.Errorf("%s event built through a reused builder differs from the same proto-event built alone: %s", pair.n, d)
		}
		jv, _, e := refjson.Parse(pair.got.JSON())
		if e != nil {
			return fmt.Errorf("%s event JSON invalid after builder reuse", pair.n)
		}
		if cc := evgen.Get(jv, "content"); cc == nil || string(refjson.Canonical(cc)) != pair.want.Content {
			return fmt.Errorf("%s event's JSON content changed after the builder was reused", pair.n)
		}
	}
	if v1ids {
		return nil
	}
	same := a.EventID() == b.EventID()
	switch c.Field {
	case "unsigned", "signer-key-only", "signatures":
		if !same {
			return fmt.Errorf("events differing only in %s have different IDs %s / %s", c.Field, a.EventID(), b.EventID())
		}
	default:
		if same {
			return fmt.Errorf("events differing in %s have the same ID %s", c.Field, a.EventID())
		}
	}
	r.Nontrivial(fmt.Sprintf("d|%s|%s|%s", c.Version, c.Field, a.EventID()))
	return nil
}

func main() { harness.Main("C03", "model_checking", run) }

func run(r *harness.Run) {
	r.Rule("proto-event alphabet (9 type/state-key shapes x 1-3 contents x prev/auth lists of 0-2 IDs x depth {0,1,2^53-1} x unsigned {absent,present} x 2 signers) x all 16 room versions, built with the real EventBuilder; explicit-state search over edit sequences (SetUnsigned, SetUnsignedField, Sign by another server, Redact, re-parse untrusted/trusted/headered, repeated accessors) up to depth D (3 quick, 4 thorough; 1 / 2 on the non-base list / depth / signer settings) with accessor-by-accessor comparison after every transition; hashed event IDs compared with refevent (own redaction + canonical form + sha256 + alphabet); all pairs of proto-events differing in exactly one field (incl. neighbouring depths around 2^53 and 2^63 where the version allows them) must differ in ID and report their own depth (unsigned-only differences must not). Non-trivial = distinct (version, event, op sequence).")
	r.Assume("sha256/ed25519 trusted")
	r.OnReplay("seq", func(raw json.RawMessage) error {
		var c seqCase
		if err := json.Unmarshal(raw, &c); err != nil {
			return err
		}
		return runSeq(r, c)
	})
	r.OnReplay("diff", func(raw json.RawMessage) error {
		var c diffCase
		if err := json.Unmarshal(raw, &c); err != nil {
			return err
		}
		return runDiff(r, c)
	})
	if r.Replaying() {
		return
	}
	D := r.Pick(3, 4)
	shallow := r.Pick(1, 2) // op-sequence depth for the non-base settings
	vers := refversions.All()
	type job struct {
		ver string
		p   evalpha.Proto
		ful bool
	}
	var jobs []job
	for _, v := range vers {
		for _, p := range evalpha.Protos(v, true) {
			jobs = append(jobs, job{v, p, true})
		}
	}
	var seqs [][]string
	var gen func(cur []string)
	gen = func(cur []string) {
		seqs = append(seqs, append([]string(nil), cur...))
		if len(cur) == D {
			return
		}
		for _, o := range opNames {
			gen(append(cur, o))
		}
	}
	gen(nil)
	r.Parallel(len(jobs), func(i int) {
		j := jobs[i]
		// the full op-sequence search runs on the base setting of each (type, content); other settings get depth 1
		baseSetting := len(j.p.Prev) == 1 && len(j.p.Auth) == 1 && j.p.Depth == 1 && j.p.Signer == 0
		for _, ops := range seqs {
			if !baseSetting && len(ops) > shallow {
				continue
			}
			c := seqCase{j.ver, j.p, ops}
			if err := runSeq(r, c); err != nil {
				sk := "-"
				if j.p.StateKey != nil {
					sk = *j.p.StateKey
				}
				r.Violation(fmt.Sprintf("seq:%s:%s/%s:%v", j.ver, j.p.Type, sk, ops), err.Error(), "seq", c)
			}
		}
	})
	// differential
	var diffs []diffCase
	for _, v := range vers {
		for _, p := range evalpha.Protos(v, false) {
			mk := func(field string, f func(q *evalpha.Proto)) {
				q := p
				q.Prev = append([]string(nil), p.Prev...)
				q.Auth = append([]string(nil), p.Auth...)
				f(&q)
				diffs = append(diffs, diffCase{v, p, q, field})
			}
			mk("type", func(q *evalpha.Proto) { q.Type += "x" })
			if !(p.Type == "m.room.create" && refversions.Get(v).DomainlessRoomIDs) {
				mk("state_key", func(q *evalpha.Proto) {
					if q.StateKey == nil {
						q.StateKey = evgen.S("")
					} else {
						q.StateKey = evgen.S(*q.StateKey + "x")
					}
				})
			}
			if false {
				mk("state_key", func(q *evalpha.Proto) {
					if q.StateKey == nil {
						q.StateKey = evgen.S("")
					} else {
						q.StateKey = evgen.S(*q.StateKey + "x")
					}
				})
			}
			mk("sender", func(q *evalpha.Proto) { q.Sender = "@other:a.org" })
			mk("content-unprotected-key", func(q *evalpha.Proto) {
				q.Content = strings.Replace(q.Content, "{", `{"zz_extra":1`+map[bool]string{true: "", false: ","}[q.Content == "{}"], 1)
			})
			mk("depth", func(q *evalpha.Proto) { q.Depth++ })
			if !refversions.Get(v).EnforceCanonicalJSON {
				// room versions without the integer-range rule carry any int64 depth: neighbours beyond 2^53 and at the top
				for _, big := range []int64{1<<53 - 1, 1 << 53, 1<<53 + 1, 1<<63 - 2} {
					pb := p
					pb.Depth = big
					q := pb
					q.Prev = append([]string(nil), p.Prev...)
					q.Auth = append([]string(nil), p.Auth...)
					q.Depth = big + 1
					diffs = append(diffs, diffCase{v, pb, q, "depth"})
				}
			}
			mk("prev_events", func(q *evalpha.Proto) { q.Prev[0] = strings.Replace(q.Prev[0], "p", "z", 1) })
			mk("auth_events", func(q *evalpha.Proto) { q.Auth[0] = strings.Replace(q.Auth[0], "p", "z", 1) })
			mk("origin_server_ts", func(q *evalpha.Proto) { q.TS++ })
			mk("unsigned", func(q *evalpha.Proto) { q.Unsigned = `{"age":99}` })
			mk("signatures", func(q *evalpha.Proto) { q.PreSig = evalpha.PreSig })
			if p.Redacts != "" {
				mk("redacts", func(q *evalpha.Proto) {
					q.Redacts = "$other"
					q.Content = strings.Replace(q.Content, `"$target"`, `"$other"`, 1)
				})
			}
		}
	}
	r.Parallel(len(diffs), func(i int) {
		if err := runDiff(r, diffs[i]); err != nil {
			r.Violation(fmt.Sprintf("diff:%s:%s:%s", diffs[i].Version, diffs[i].A.Type, diffs[i].Field), err.Error(), "diff", diffs[i])
		}
	})
	r.Count("proto_events", int64(len(jobs)))
	r.Count("op_sequences", int64(len(seqs)))
	r.Count("differential_pairs", int64(len(diffs)))
	r.Sample("seq", seqCase{"12", evalpha.Protos("12", false)[2], []string{"sign2", "accessors-twice"}})
	r.Sample("diff", diffs[3])
	r.Extra("bounds", map[string]int{"depth": D, "ops": len(opNames)})
}
