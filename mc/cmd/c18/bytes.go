package main

import (
	"bytes"
	"encoding/base64"
	"encoding/json"
	"fmt"
	"net/http"
	"net/http/httptest"
	"strings"
	"time"

	gmsl "github.com/matrix-org/gomatrixserverlib"
	"github.com/matrix-org/gomatrixserverlib/fclient"
	"github.com/matrix-org/gomatrixserverlib/spec"

	"verif/mc/evgen"
	"verif/mc/fedgen"
	"verif/mc/harness"
)

type bytesInput struct {
	Family  string
	Version string
	TextB64 string
}

// byteEntry is one byte-level entry point family.
type byteEntry struct {
	name string
	fn   func(b []byte)
}

func jsonEntries() []byteEntry {
	k := fedgen.Keys["a.org"]
	return []byteEntry{
		{"CanonicalJSON", func(b []byte) { gmsl.CanonicalJSON(b) }},
		{"EnforcedCanonicalJSON", func(b []byte) {
			gmsl.EnforcedCanonicalJSON(b, "1")
			gmsl.EnforcedCanonicalJSON(b, "6")
			gmsl.EnforcedCanonicalJSON(b, "12")
		}},
		{"CompactJSON-on-valid", func(b []byte) {
			// callers hand these two only texts a JSON validator accepted (RawJSON fields decoded by encoding/json)
			if json.Valid(b) {
				gmsl.CompactJSON(b, nil)
				gmsl.SortJSON(b, nil)
				gmsl.CanonicalJSONAssumeValid(b)
			}
		}},
		{"VerifyJSON", func(b []byte) { gmsl.VerifyJSON("a.org", gmsl.KeyID(k.KeyID), k.Pub, b) }},
		{"ListKeyIDs", func(b []byte) { gmsl.ListKeyIDs("a.org", b) }},
		{"SignJSON", func(b []byte) { gmsl.SignJSON("a.org", gmsl.KeyID(k.KeyID), k.Priv, b) }},
		{"ServerKeys", func(b []byte) {
			var sk gmsl.ServerKeys
			if json.Unmarshal(b, &sk) == nil {
				gmsl.CheckKeys("a.org", time.UnixMilli(1), sk)
				sk.PublicKey("ed25519:1", 5)
				json.Marshal(sk)
			}
		}},
		{"parse-event", func(b []byte) {
			for _, v := range []string{"1", "4", "11", "12", "org.matrix.msc4014"} {
				ver := gmsl.MustGetRoomVersion(gmsl.RoomVersion(v))
				ver.NewEventFromUntrustedJSON(b)
				ver.NewEventFromTrustedJSON(b, false)
				ver.RedactEventJSON(b)
			}
			gmsl.NewEventFromHeaderedJSON(b, false)
		}},
		{"fclient-unmarshal", func(b []byte) {
			var a fclient.RespState
			json.Unmarshal(b, &a)
			var c fclient.RespSendJoin
			json.Unmarshal(b, &c)
			var d fclient.RespInvite
			json.Unmarshal(b, &d)
			var e fclient.RespUserDevices
			json.Unmarshal(b, &e)
			var f fclient.CrossSigningForKeyOrDevice
			json.Unmarshal(b, &f)
			var g fclient.InviteV2Request
			json.Unmarshal(b, &g)
			var h fclient.InviteV3Request
			json.Unmarshal(b, &h)
			var i gmsl.Transaction
			json.Unmarshal(b, &i)
			var j spec.Base64Bytes
			json.Unmarshal(b, &j)
			var l gmsl.HistoryVisibility
			json.Unmarshal(b, &l)
			var m gmsl.PowerLevelContent
			json.Unmarshal(b, &m)
			var n spec.MatrixError
			json.Unmarshal(b, &n)
		}},
	}
}

func idEntries() []byteEntry {
	return []byteEntry{
		{"NewUserID", func(b []byte) {
			for _, h := range []bool{true, false} {
				if u, err := spec.NewUserID(string(b), h); err == nil {
					u.Local()
					u.Domain()
					u.String()
				}
			}
		}},
		{"NewRoomID", func(b []byte) {
			if u, err := spec.NewRoomID(string(b)); err == nil {
				u.String()
				if strings.Contains(string(b), ":") {
					u.Domain()
				}
			}
		}},
		{"ServerName", func(b []byte) {
			spec.ParseAndValidateServerName(spec.ServerName(b))
		}},
		{"SplitID", func(b []byte) {
			for _, s := range []byte{'@', '!', '$', '#'} {
				gmsl.SplitID(s, string(b))
			}
		}},
		{"SenderID", func(b []byte) {
			s := spec.SenderID(b)
			s.IsUserID()
			s.IsPseudoID()
			s.ToUserID()
			s.ToPseudoID()
		}},
		{"Base64", func(b []byte) {
			var x spec.Base64Bytes
			x.Decode(string(b))
			x.UnmarshalJSON(b)
		}},
	}
}

func authEntries() []byteEntry {
	return []byteEntry{
		{"ParseAuthorization", func(b []byte) { fclient.ParseAuthorization(string(b)) }},
		{"VerifyHTTPRequest", func(b []byte) {
			for _, body := range []string{"", `{"a":1}`} {
				req := httptest.NewRequest("PUT", "/_matrix/federation/v1/send/1", strings.NewReader(body))
				req.Header["Authorization"] = []string{string(b), `X-Matrix origin="b.org",key="ed25519:k",sig="AA"`, string(b)}
				req.Header.Set("Content-Type", "application/json")
				fclient.VerifyHTTPRequest(req, time.UnixMilli(1), "a.org", nil, acceptAll{})
			}
			req, _ := http.NewRequest("GET", "http://x/y", nil)
			req.Body = http.NoBody
			req.Header["Authorization"] = []string{string(b)}
			fclient.VerifyHTTPRequest(req, time.UnixMilli(1), "a.org", func(spec.ServerName) bool { return true }, acceptAll{})
		}},
	}
}

func runFamily(r *harness.Run, family string, entries []byteEntry, b []byte) {
	r.Eval()
	for _, e := range entries {
		e := e
		r.Transition(1)
		if p, msg := harness.Try(func() { e.fn(b) }); p {
			r.Violation("panic-bytes:"+family+"/"+e.name+":"+fmt.Sprintf("%q", b), "panic in "+e.name+": "+msg, "bytes", bytesInput{family, "", base64.StdEncoding.EncodeToString(b)})
		}
	}
}

func families() map[string][]byteEntry {
	return map[string][]byteEntry{"json": jsonEntries(), "id": idEntries(), "auth": authEntries()}
}

func replayBytes(r *harness.Run) func(json.RawMessage) error {
	return func(raw json.RawMessage) error {
		var in bytesInput
		if err := json.Unmarshal(raw, &in); err != nil {
			return err
		}
		b, _ := base64.StdEncoding.DecodeString(in.TextB64)
		before := r.ViolationCount()
		if in.Family == "event-bytes" {
			env := newEnv(in.Version)
			rp := &reporter{r: r, in: func() caseInput { return caseInput{Version: in.Version, Base: "bytes", TextB64: in.TextB64} }}
			env.driveText(rp, b, 2)
		} else {
			runFamily(r, in.Family, families()[in.Family], b)
		}
		if r.ViolationCount() > before {
			return fmt.Errorf("panics")
		}
		return nil
	}
}

// enumerate calls f on every sequence of at most n tokens.
func enumerate(tokens []string, n int, f func([]byte)) int64 {
	var count int64
	var rec func(prefix []byte, left int)
	rec = func(prefix []byte, left int) {
		f(prefix)
		count++
		if left == 0 {
			return
		}
		for _, t := range tokens {
			rec(append(prefix[:len(prefix):len(prefix)], t...), left-1)
		}
	}
	rec(nil, n)
	return count
}

// shard splits an enumeration by its first two tokens so that it can run in parallel.
func shardedEnumerate(r *harness.Run, tokens []string, n int, f func([]byte)) {
	type pre struct{ a, b int }
	var shards []pre
	for a := range tokens {
		for b := range tokens {
			shards = append(shards, pre{a, b})
		}
	}
	f(nil)
	for _, t := range tokens {
		f([]byte(t))
	}
	if n < 2 {
		return
	}
	r.Parallel(len(shards), func(i int) {
		p := append([]byte(tokens[shards[i].a]), tokens[shards[i].b]...)
		var rec func(prefix []byte, left int)
		rec = func(prefix []byte, left int) {
			f(prefix)
			if left == 0 {
				return
			}
			for _, t := range tokens {
				rec(append(prefix[:len(prefix):len(prefix)], t...), left-1)
			}
		}
		rec(p, n-2)
	})
}

var corruptions = []byte{0x00, '"', '\\', '{', '}', '[', ']', ',', ':', 0xff, '0', ' ', 'u'}

// corrupt calls f on every single-byte replacement, deletion and duplication of text.
func corrupt(text []byte, f func([]byte)) {
	for i := range text {
		for _, c := range corruptions {
			if text[i] == c {
				continue
			}
			m := append([]byte{}, text...)
			m[i] = c
			f(m)
		}
		f(append(append([]byte{}, text[:i]...), text[i+1:]...))
		f(append(append(append([]byte{}, text[:i+1]...), text[i]), text[i+1:]...))
		f(append([]byte{}, text[:i]...)) // truncation
	}
}

func runBytes(r *harness.Run, trace func(string)) {
	fam := families()
	// (a) JSON token strings
	jsonTokens := []string{"{", "}", "[", "]", ":", ",", `"`, `\`, "u", "d", "8", "0", "-", ".", "e", "1", "t", " ", "a", "\x80", "\n"}
	n := r.Pick(4, 5)
	shardedEnumerate(r, jsonTokens, n, func(b []byte) { runFamily(r, "json", fam["json"], b) })
	r.Extra("json_token_strings", fmt.Sprintf("%d tokens, length <= %d", len(jsonTokens), n))
	trace("(b) string-literal")
	// (b) string-literal bodies built from escape units (surrogates, truncated escapes, raw UTF-8 fragments), at the three
	// places a string can stand, and every prefix of each
	units := []string{`\ud800`, `\udc00`, `\udbff`, `é`, `\u0000`, `\u007f`, `\u`, `\ud8`, `\`, `a`, "\xc3", "\xa9", "\xed\xa0\x80", `\"`, `\\`, `\n`, `\/`, `\x`, "\t", `😀`, ` `}
	un := r.Pick(3, 4)
	shardedEnumerate(r, units, un, func(body []byte) {
		for _, wrap := range [][2]string{{`"`, `"`}, {`{"k":"`, `"}`}, {`{"`, `":1}`}, {`["`, `",1]`}} {
			full := append(append([]byte(wrap[0]), body...), wrap[1]...)
			runFamily(r, "json", fam["json"], full)
			runFamily(r, "json", fam["json"], full[:len(full)-len(wrap[1])]) // unterminated
		}
	})
	r.Extra("string_units", fmt.Sprintf("%d units, <= %d per literal, 4 positions, terminated and unterminated", len(units), un))
	trace("(c) numbers")
	// (c) numbers
	numTokens := []string{"-", "0", "1", "9", ".", "e", "E", "+", "9007199254740992", "00"}
	shardedEnumerate(r, numTokens, r.Pick(5, 6), func(b []byte) {
		runFamily(r, "json", fam["json"], b)
		runFamily(r, "json", fam["json"], append(append([]byte(`{"a":`), b...), '}'))
	})
	trace("(d) identifiers")
	// (d) identifiers
	idTokens := []string{"@", "!", "$", "#", ":", "a", "A", ".", "[", "]", "1", "-", "_", "/", " ", "\x80", "é", "=", "+"}
	shardedEnumerate(r, idTokens, r.Pick(4, 5), func(b []byte) { runFamily(r, "id", fam["id"], b) })
	trace("(e) Authorization")
	// (e) Authorization headers
	authTokens := []string{"X-Matrix", " ", "origin=", "key=", "sig=", "destination=", `"`, ",", "a.org", "=", `\`, ":", "ed25519:1", "\x00"}
	shardedEnumerate(r, authTokens, r.Pick(5, 6), func(b []byte) { runFamily(r, "auth", fam["auth"], b) })
	// (e2) several Authorization headers on one request: every pair (and triple over a reduced menu) of structured headers
	var hdrs, core []string
	for _, o := range []string{`origin="a.org",`, `origin="A.ORG",`, `origin="b.org",`, `origin="",`, `origin=a.org,`, ``} {
		for _, k := range []string{`key="ed25519:1",`, `key="ed25519:2",`, `key="",`, ``} {
			for _, sg := range []string{`sig="AA"`, `sig=""`, ``} {
				for _, d := range []string{`,destination="a.org"`, `,destination="x.org"`, ``} {
					h := "X-Matrix " + o + k + sg + d
					hdrs = append(hdrs, h)
					if (k == `key="ed25519:1",` || k == `key="ed25519:2",`) && sg == `sig="AA"` && d != `,destination="x.org"` {
						core = append(core, h)
					}
				}
			}
		}
	}
	hdrs = append(hdrs, "Basic abc", "X-Matrix", "")
	multi := func(hs []string) {
		r.Eval()
		r.Transition(1)
		if p, msg := harness.Try(func() {
			for _, local := range []func(spec.ServerName) bool{nil, func(spec.ServerName) bool { return true }} {
				req := httptest.NewRequest("GET", "/_matrix/federation/v1/version", nil)
				req.Header["Authorization"] = hs
				fclient.VerifyHTTPRequest(req, time.UnixMilli(1), "a.org", local, acceptAll{})
			}
		}); p {
			r.Violation("panic-bytes:auth/VerifyHTTPRequest-multi:"+strings.Join(hs, " || "), "panic in VerifyHTTPRequest: "+msg, "headers", hs)
		}
	}
	r.Parallel(len(hdrs), func(i int) {
		for _, h2 := range hdrs {
			multi([]string{hdrs[i], h2})
		}
	})
	r.Parallel(len(core), func(i int) {
		for _, h2 := range core {
			for _, h3 := range core {
				multi([]string{core[i], h2, h3})
			}
		}
	})
	r.Extra("authorization_header_sets", fmt.Sprintf("%d headers: all pairs; %d headers: all triples", len(hdrs), len(core)))
	trace("(f) single-byte")
	// (f) single-byte corruptions of valid texts
	k := fedgen.Keys["a.org"]
	keysText := []byte(`{"server_name":"a.org","valid_until_ts":1000,"verify_keys":{"ed25519:1":{"key":"` + evgen.B64(k.Pub) + `"}},"old_verify_keys":{"ed25519:0":{"key":"` + evgen.B64(k.Pub) + `","expired_ts":5}},"signatures":{"a.org":{"ed25519:1":"AAAA"}}}`)
	var texts [][]byte
	corrupt(keysText, func(b []byte) { texts = append(texts, b) })
	r.Parallel(len(texts), func(i int) { runFamily(r, "json", fam["json"], texts[i]) })
	texts = nil
	corrupt([]byte(`X-Matrix origin="a.org",destination="b.org",key="ed25519:1",sig="AAAA"`), func(b []byte) { texts = append(texts, b) })
	r.Parallel(len(texts), func(i int) { runFamily(r, "auth", fam["auth"], texts[i]) })
	for _, id := range []string{"@alice:a.org", "!room:a.org:8448", "@a:[::1]:80", "$ev:a.org"} {
		corrupt([]byte(id), func(b []byte) { runFamily(r, "id", fam["id"], b) })
	}
	trace("events")
	// events: every corruption of a signed valid event goes through the whole event pipeline
	vers := []string{"1", "12"}
	baseNames := map[string]bool{"member-3pid": true, "power_levels": true, "create": true}
	if r.Thorough() {
		vers = versions()
		baseNames = nil
	}
	type ejob struct {
		env *venv
		b   []byte
	}
	var ejobs []ejob
	for _, v := range vers {
		env := newEnv(v)
		for _, b := range env.bases {
			if baseNames != nil && !baseNames[b.Name] {
				continue
			}
			ev := b.Ev
			ev.NoHash = false
			js := evgen.SignEvent(v, ev.JSON(v), k)
			corrupt(js, func(m []byte) {
				if !bytes.Equal(m, js) {
					ejobs = append(ejobs, ejob{env, m})
				}
			})
		}
	}
	r.Count("event_corruption_jobs", int64(len(ejobs)))
	r.Parallel(len(ejobs), func(i int) {
		j := ejobs[i]
		r.Eval()
		rp := &reporter{r: r, in: func() caseInput {
			return caseInput{Version: j.env.version, Base: "bytes", TextB64: base64.StdEncoding.EncodeToString(j.b)}
		}}
		j.env.driveText(rp, j.b, 0)
	})
	trace("identifiers inside events")
	// identifiers inside events: every identifier string up to a length as sender / room_id / state_key / event_id / redacts
	idn := r.Pick(2, 3)
	var ijobs []job2
	for _, v := range vers {
		env := newEnv(v)
		enumerate(idTokens, idn, func(b []byte) {
			for _, fld := range []string{"sender", "room_id", "state_key", "event_id", "redacts", "content/join_authorised_via_users_server", "content/creator"} {
				ijobs = append(ijobs, job2{env, fld, string(b)})
			}
		})
	}
	r.Count("identifier_in_event_jobs", int64(len(ijobs)))
	r.Parallel(len(ijobs), func(i int) {
		j := ijobs[i]
		var bases []*baseEvent
		for _, b := range j.env.bases {
			switch {
			case strings.HasPrefix(j.field, "content/join") && b.Name == "member-restricted", j.field == "content/creator" && b.Name == "create",
				!strings.HasPrefix(j.field, "content/") && (b.Name == "member-join" || b.Name == "create" || b.Name == "redaction"):
				bases = append(bases, b)
			}
		}
		for _, b := range bases {
			subs := []sub{{Path: j.field, Val: string(refQuote(j.val))}}
			js := text(j.env.version, b, subs, false)
			r.Eval()
			rp := &reporter{r: r, in: func() caseInput {
				return caseInput{j.env.version, b.Name, subs, false, base64.StdEncoding.EncodeToString(js)}
			}}
			j.env.driveText(rp, js, 0)
		}
	})
}

type job2 struct {
	env   *venv
	field string
	val   string
}

// refQuote quotes s as a JSON string, keeping invalid UTF-8 bytes raw.
func refQuote(s string) []byte {
	out := []byte{'"'}
	for i := 0; i < len(s); i++ {
		c := s[i]
		switch {
		case c == '"' || c == '\\':
			out = append(out, '\\', c)
		case c < 0x20:
			out = append(out, fmt.Sprintf(`\u%04x`, c)...)
		default:
			out = append(out, c)
		}
	}
	return append(out, '"')
}
