package main

import (
	"sort"
	"strings"

	gmsl "github.com/matrix-org/gomatrixserverlib"

	"verif/mc/authgen"
	"verif/mc/evgen"
	"verif/mc/fedgen"
	"verif/mc/ref/refevent"
	"verif/mc/ref/refjson"
	"verif/mc/ref/refversions"
)

// A substitution replaces (or deletes, or inserts) one member anywhere in the event object.
type sub struct {
	Path string // "/"-separated member names from the event root, e.g. "content/users"
	Val  string // raw JSON text; absent deletes the member
	// Dup: the member is not replaced but sent twice - 1: the extra copy (Val) precedes the original, 2: it follows it.
	// No honest serialiser emits that, any peer can; readers that take the first and readers that take the last copy
	// then see different events.
	Dup int `json:",omitempty"`
}

const absent = "\x00ABSENT"

// emit writes v with the substitutions applied. Members named by a substitution but missing from
// their (existing) parent object are appended to it.
func emit(out []byte, v *refjson.Value, path string, subs []sub) []byte {
	switch v.Kind {
	case refjson.Object:
		out = append(out, '{')
		first := true
		seen := map[string]bool{}
		for _, m := range v.Members {
			cp := path + "/" + m.Key
			if path == "" {
				cp = m.Key
			}
			done := false
			for _, s := range subs {
				if s.Path == cp {
					seen[cp] = true
					if s.Dup != 0 {
						if s.Dup == 1 {
							if !first {
								out = append(out, ',')
							}
							first = false
							out = refjson.AppendString(out, m.Key)
							out = append(out, ':')
							out = append(out, s.Val...)
						}
						break // the original follows below (and, for Dup == 2, the copy after it)
					}
					done = true
					if s.Val == absent {
						break
					}
					if !first {
						out = append(out, ',')
					}
					first = false
					out = refjson.AppendString(out, m.Key)
					out = append(out, ':')
					out = append(out, s.Val...)
					break
				}
			}
			if done {
				continue
			}
			if !first {
				out = append(out, ',')
			}
			first = false
			out = refjson.AppendString(out, m.Key)
			out = append(out, ':')
			out = emit(out, m.Val, cp, subs)
			for _, s := range subs {
				if s.Path == cp && s.Dup == 2 {
					out = append(out, ',')
					out = refjson.AppendString(out, m.Key)
					out = append(out, ':')
					out = append(out, s.Val...)
				}
			}
		}
		for _, s := range subs {
			i := strings.LastIndexByte(s.Path, '/')
			parent, key := "", s.Path
			if i >= 0 {
				parent, key = s.Path[:i], s.Path[i+1:]
			}
			if parent != path || seen[s.Path] || s.Val == absent {
				continue
			}
			if !first {
				out = append(out, ',')
			}
			first = false
			out = refjson.AppendString(out, key)
			out = append(out, ':')
			out = append(out, s.Val...)
		}
		return append(out, '}')
	case refjson.Array:
		out = append(out, '[')
		for i, e := range v.Elems {
			if i > 0 {
				out = append(out, ',')
			}
			out = emit(out, e, path+"/#", subs)
		}
		return append(out, ']')
	case refjson.Number:
		return append(out, v.Num...)
	}
	return refjson.Emit(out, v, true)
}

// ---------------------------------------------------------------- value menus

var long300 = `"` + strings.Repeat("a", 300) + `"`

// over the 255-byte limit but within 255 code points: the lenient ("persistable") size errors, after which
// EventJSONs.UntrustedEvents keeps the event
var mbRoom = `"!` + strings.Repeat("é", 130) + `:a.org"`
var mbUser = `"@` + strings.Repeat("é", 130) + `:a.org"`
var mbPlain = `"` + strings.Repeat("é", 130) + `"`
var longRoom = `"!` + strings.Repeat("a", 300) + `:a.org"`
var longEvent = `"$` + strings.Repeat("a", 300) + `:a.org"`
var longID = `"@` + strings.Repeat("a", 300) + `:a.org"`

// every JSON kind, numbers at the integer boundaries
var kindMenu = []string{absent, `null`, `true`, `0`, `-1`, `9007199254740991`, `9007199254740992`, `-9007199254740992`, `9223372036854775807`,
	`9223372036854775808`, `18446744073709551616`, `1.5`, `1e400`, `-0`, `""`, `"x"`, `[]`, `[null]`, `["x"]`, `[[]]`, `{}`, `{"x":null}`}

var idMenu = []string{`"@"`, `":"`, `"@:"`, `"!:"`, `"!a:"`, `"!:a"`, `"$"`, `"$:"`, `"$a:b"`, `"@a:b c"`, `"!a:b c"`, `"!a"`, `"@a"`, `"#a:b"`, `"@u:a.org"`, `"@U:a.org"`, `"@u:a.org:99999999"`, `"@u:[::1]"`, `"@u:["`,
	`"!room:a.org"`, `"!` + strings.Repeat("C", 43) + `"`, `"$` + strings.Repeat("p", 43) + `"`, `"bm90IGEgdXNlciBpZCBidXQgYSBwc2V1ZG8gaWQgMTIzNDU"`, long300, longID, mbRoom, mbUser, mbPlain, longRoom, longEvent, "\"\xff\xfe\"", "\"\xed\xa0\x80\"", `"\ud800"`, `"\u0000"`, `"é"`}

var listMenu = []string{`["$a:b"]`, `[["$a:b",{}]]`, `[["$a:b"]]`, `[[1,{}]]`, `[["$a:b",{"sha256":1}]]`, `[["$a:b",{"sha256":"x"}],"$c:d"]`, `[1]`, `[{}]`, `[""]`, `["$"]`, `[["",{}]]`, `[[]]`}

var levelMenu = []string{`"50"`, `"x"`, `" 50"`, `"9223372036854775808"`, `"-9223372036854775809"`, `"1.5"`, `"+5"`, `"0x10"`}

func join(ms ...[]string) []string {
	var out []string
	seen := map[string]bool{}
	for _, m := range ms {
		for _, s := range m {
			if !seen[s] {
				seen[s] = true
				out = append(out, s)
			}
		}
	}
	return out
}

type field struct {
	Path string
	Menu []string
	Core []string // the reduced menu used for pairs
}

func f(path string, menus ...[]string) field {
	m := join(menus...)
	core := []string{absent, `null`, `0`, `""`, `[]`, `{}`}
	return field{Path: path, Menu: m, Core: core}
}

func fc(path string, core []string, menus ...[]string) field {
	x := f(path, menus...)
	x.Core = join(core, []string{absent, `null`})
	return x
}

// topFields are the substitutable top-level members (all base events).
func topFields() []field {
	return []field{
		fc("type", []string{`""`, `"m.room.member"`, `"m.room.create"`, `"m.room.power_levels"`, mbPlain}, kindMenu, []string{`"m.room.member"`, `"m.room.create"`, `"m.room.power_levels"`, `"m.room.join_rules"`, `"m.room.third_party_invite"`, `"m.room.redaction"`, `"m.room.aliases"`, long300}),
		fc("sender", []string{`""`, `"@"`, `"@:"`, `"x"`, `0`, mbUser}, kindMenu, idMenu),
		fc("room_id", []string{`""`, `"!:"`, `"!a:"`, `"!a"`, `0`, mbRoom}, kindMenu, idMenu),
		fc("state_key", []string{`""`, `"@"`, `"@:"`, `0`, mbPlain}, kindMenu, idMenu),
		fc("event_id", []string{`""`, `"$"`, `"$:"`, `0`}, kindMenu, idMenu),
		fc("redacts", []string{`""`, `0`, `[]`}, kindMenu, idMenu),
		f("origin", kindMenu, []string{`"a.org"`, `":"`}),
		fc("prev_events", []string{`[]`, `[1]`, `[[]]`, `{}`}, kindMenu, listMenu),
		fc("auth_events", []string{`[]`, `[1]`, `[[]]`, `{}`}, kindMenu, listMenu),
		f("depth", kindMenu),
		f("origin_server_ts", kindMenu),
		f("hashes", kindMenu, []string{`{"sha256":1}`, `{"sha256":""}`, `{"sha256":"!!!"}`, `{"sha256":null}`}),
		f("signatures", kindMenu, []string{`{"a.org":1}`, `{"a.org":{"ed25519:1":1}}`, `{"a.org":{"ed25519:1":"!!!"}}`, `{"a.org":{"ed25519:1":""}}`, `{"":{}}`, `{"a.org":null}`}),
		f("unsigned", kindMenu, []string{`{"age":"x"}`, `{"redacted_because":1}`, `{"prev_content":1}`, `{"invite_room_state":1}`}),
		fc("content", []string{`[]`, `""`, `0`}, kindMenu),
		f("hidden", []string{`1`}),
	}
}

// contentFields lists, per base event, the substitutable content members.
func contentFields(base string) []field {
	signed := []string{`{"signed":1}`, `{"signed":{}}`, `{"signed":{"mxid":1}}`, `{"signed":{"mxid":"@x:a.org","token":1}}`, `{"signed":{"mxid":"@x:a.org","token":"t","signatures":1}}`,
		`{"signed":{"mxid":"@x:a.org","token":"t","signatures":{"id.org":1}}}`, `{"signed":{"mxid":"@x:a.org","token":"t","signatures":{"id.org":{"ed25519:0":1}}}}`, `{"signed":{"mxid":"@x:a.org","token":"t","signatures":{"id.org":{"ed25519:0":"!!"}}}}`, `{"display_name":1}`}
	switch {
	case base == "create":
		return []field{f("content/creator", kindMenu, idMenu), f("content/room_version", kindMenu, []string{`"1"`, `"12"`, `"99"`}), f("content/m.federate", kindMenu, []string{`false`, `"false"`}),
			f("content/predecessor", kindMenu, []string{`{"room_id":1}`, `{"room_id":"!:"}`}), f("content/additional_creators", kindMenu, []string{`["@u:a.org"]`, `[1]`, `["@"]`, `["@:"]`, `"@u:a.org"`, `[["@u:a.org"]]`, `[null,"@u:a.org"]`}),
			f("content/type", kindMenu)}
	case strings.HasPrefix(base, "member"):
		return []field{f("content/membership", kindMenu, []string{`"join"`, `"invite"`, `"leave"`, `"ban"`, `"knock"`}), f("content/join_authorised_via_users_server", kindMenu, idMenu),
			f("content/third_party_invite", kindMenu, signed), f("content/third_party_invite/signed", kindMenu, []string{`{"mxid":"@x:a.org"}`}),
			f("content/third_party_invite/signed/mxid", kindMenu, idMenu), f("content/third_party_invite/signed/token", kindMenu), f("content/third_party_invite/signed/signatures", kindMenu, []string{`{"id.org":1}`, `{"id.org":{"ed25519:0":1}}`, `{"id.org":{"ed25519:0":"!!"}}`, `{"id.org":{"x":"AA"}}`}),
			f("content/mxid_mapping", kindMenu, []string{`{"user_room_key":1}`, `{"user_room_key":"k","user_id":"@u:a.org"}`, `{"user_room_key":"k","user_id":"@u:a.org","signatures":1}`, `{"user_room_key":"k","user_id":"@u:a.org","signatures":{"a.org":{"ed25519:1":"AA"}}}`, `{"user_room_key":"k","user_id":"@","signatures":{}}`}),
			f("content/displayname", kindMenu), f("content/is_direct", kindMenu), f("content/reason", kindMenu)}
	case base == "power_levels":
		var out []field
		for _, k := range []string{"ban", "kick", "invite", "redact", "events_default", "state_default", "users_default"} {
			out = append(out, f("content/"+k, kindMenu, levelMenu))
		}
		maps := []string{`{"@u:a.org":null}`, `{"@u:a.org":"100"}`, `{"@u:a.org":1.5}`, `{"":1}`, `{"x":1}`, `{"@u:a.org":[]}`, `{"@u:a.org":{}}`, `{"@u:a.org":true}`, `{"@u:a.org":9223372036854775808}`, `{"@:":1}`, `{"@alice:a.org":"x"}`}
		out = append(out, f("content/users", kindMenu, maps), f("content/events", kindMenu, maps, []string{`{"m.room.name":null}`, `{"m.room.name":"x"}`}),
			f("content/notifications", kindMenu, []string{`{"room":null}`, `{"room":"x"}`, `{"room":[]}`, `{"room":"50"}`, `{"x":1}`, `{"room":1.5}`}), f("content/users/@alice:a.org", kindMenu, levelMenu), f("content/notifications/room", kindMenu, levelMenu))
		return out
	case base == "join_rules":
		return []field{f("content/join_rule", kindMenu, []string{`"public"`, `"invite"`, `"knock"`, `"restricted"`, `"knock_restricted"`, `"private"`}),
			f("content/allow", kindMenu, []string{`[{}]`, `[{"type":1}]`, `[{"type":"m.room_membership"}]`, `[{"type":"m.room_membership","room_id":1}]`, `[{"type":"m.room_membership","room_id":"!:"}]`, `[{"type":"m.room_membership","room_id":""}]`, `[1]`, `[null]`, `[[]]`})}
	case base == "third_party_invite":
		return []field{f("content/public_key", kindMenu, []string{`"!!"`}), f("content/public_keys", kindMenu, []string{`[{}]`, `[{"public_key":1}]`, `[1]`, `[{"public_key":"!!"}]`, `[{"public_key":"AA","key_validity_url":1}]`}), f("content/key_validity_url", kindMenu), f("content/display_name", kindMenu)}
	case base == "aliases":
		return []field{f("content/aliases", kindMenu, []string{`[1]`, `"x"`, `["#a:a.org",1]`})}
	case base == "redaction":
		return []field{f("content/redacts", kindMenu, idMenu), f("content/reason", kindMenu)}
	case base == "history_visibility":
		return []field{f("content/history_visibility", kindMenu, []string{`"shared"`, `"world_readable"`, `"invited"`, `"joined"`, `"y"`})}
	case base == "message":
		return []field{f("content/body", kindMenu), f("content/m.relates_to", kindMenu, []string{`{"event_id":1}`}), f("content/msc4354_sticky", kindMenu, []string{`{"duration_ms":1}`, `{"duration_ms":"x"}`, `{"duration_ms":-1}`, `{"duration_ms":9223372036854775807}`, `{"duration_ms":1.5}`}),
			f("msc4354_sticky", kindMenu, []string{`{"duration_ms":1}`, `{"duration_ms":"x"}`, `{"duration_ms":-1}`, `{"duration_ms":9223372036854775807}`, `{"duration_ms":1e30}`})}
	}
	return nil
}

// ---------------------------------------------------------------- base events and base state

const alice, bob, carol, dave = "@alice:a.org", "@bob:b.org", "@carol:c.org", "@dave:d.org"

type baseEvent struct {
	Name string
	Ev   evgen.Ev
	tree *refjson.Value
}

func eid(version string, tag string) string {
	if refversions.Get(version).EventIDFormat == 1 {
		return "$" + tag + ":a.org"
	}
	return "$" + (tag + strings.Repeat("0", 43))[:43]
}

func baseEvents(version string) []*baseEvent {
	room := authgen.RoomOf(version)
	auth := []string{eid(version, "create"), eid(version, "pl"), eid(version, "alice")}
	prev := []string{eid(version, "prev")}
	mk := func(name, typ string, sk *string, sender, content string) *baseEvent {
		return &baseEvent{Name: name, Ev: evgen.Ev{Type: typ, Sender: sender, RoomID: room, StateKey: sk, Content: content, Prev: prev, Auth: auth, Depth: 7, TS: 1700000000000, EventID: eid(version, name), NoHash: true}}
	}
	signedBlock := authgen.SignedBlock(carol, "t", &authgen.IDServerKey, false)
	out := []*baseEvent{
		mk("create", "m.room.create", evgen.S(""), alice, `{"creator":"`+alice+`","room_version":"`+version+`","m.federate":true,"predecessor":{"room_id":"!old:a.org","event_id":"$old"},"additional_creators":["`+bob+`"]}`),
		mk("member-join", "m.room.member", evgen.S(dave), dave, `{"membership":"join","displayname":"D"}`),
		mk("member-restricted", "m.room.member", evgen.S(dave), dave, `{"membership":"join","join_authorised_via_users_server":"`+alice+`"}`),
		mk("member-3pid", "m.room.member", evgen.S(carol), bob, `{"membership":"invite","third_party_invite":{"display_name":"c","signed":`+signedBlock+`}}`),
		mk("member-invite", "m.room.member", evgen.S(dave), bob, `{"membership":"invite","is_direct":true}`),
		mk("member-ban", "m.room.member", evgen.S(bob), alice, `{"membership":"ban","reason":"r"}`),
		mk("member-knock", "m.room.member", evgen.S(dave), dave, `{"membership":"knock"}`),
		mk("member-mapping", "m.room.member", evgen.S(dave), dave, `{"membership":"join","mxid_mapping":{"user_room_key":"`+dave+`","user_id":"`+dave+`","signatures":{"d.org":{"ed25519:1":"AAAA"}}}}`),
		mk("power_levels", "m.room.power_levels", evgen.S(""), alice, `{"ban":50,"kick":50,"invite":0,"redact":50,"events_default":0,"state_default":50,"users_default":0,"users":{"`+alice+`":100,"`+bob+`":50},"events":{"m.room.name":50},"notifications":{"room":50}}`),
		mk("join_rules", "m.room.join_rules", evgen.S(""), alice, `{"join_rule":"restricted","allow":[{"type":"m.room_membership","room_id":"!other:a.org"}]}`),
		mk("third_party_invite", "m.room.third_party_invite", evgen.S("t"), bob, `{"display_name":"c","key_validity_url":"https://id.org/valid","public_key":"`+evgen.B64(authgen.IDServerKey.Pub)+`","public_keys":[{"public_key":"`+evgen.B64(authgen.IDServerKey.Pub)+`","key_validity_url":"https://id.org/valid"}]}`),
		mk("aliases", "m.room.aliases", evgen.S("a.org"), alice, `{"aliases":["#a:a.org"]}`),
		mk("redaction", "m.room.redaction", nil, bob, `{"reason":"r","redacts":"`+eid(version, "target")+`"}`),
		mk("history_visibility", "m.room.history_visibility", evgen.S(""), alice, `{"history_visibility":"shared"}`),
		mk("message", "m.room.message", nil, bob, `{"body":"hi","msgtype":"m.text"}`),
	}
	for _, b := range out {
		if b.Name == "redaction" {
			b.Ev.Redacts = eid(version, "target")
		}
		if b.Name == "create" && refversions.Get(version).DomainlessRoomIDs {
			b.Ev.RoomID = ""
		}
		if b.Name == "message" {
			b.Ev.Unsigned = `{"age":1}`
		}
		js := b.Ev.JSON(version)
		b.tree = evgen.MustParse(js)
	}
	return out
}

// baseState is a valid room at the version: create, alice (creator) joined, power levels, public join rules, bob joined, a third-party invite.
func baseState(version string) []gmsl.PDU {
	room := authgen.RoomOf(version)
	ver := gmsl.MustGetRoomVersion(gmsl.RoomVersion(version))
	mk := func(tag, typ, sk, sender, content string, auth []string) gmsl.PDU {
		e := evgen.Ev{Type: typ, Sender: sender, RoomID: room, StateKey: &sk, Content: content, Prev: []string{}, Auth: auth, Depth: 1, TS: 1, NoHash: true, EventID: eid(version, tag)}
		id := eid(version, tag)
		if tag == "create" {
			id = authgen.CreateID
			if refversions.Get(version).EventIDFormat == 1 {
				id = eid(version, tag)
			}
			if refversions.Get(version).DomainlessRoomIDs {
				e.RoomID = ""
			}
		}
		e.NoHash = false
		p, err := ver.NewEventFromTrustedJSONWithEventID(id, evgen.SignEvent(version, e.JSON(version), fedgen.Keys[refevent.ServerOf(sender)]), false)
		if err != nil {
			panic(err)
		}
		return p
	}
	cid := authgen.CreateID
	if refversions.Get(version).EventIDFormat == 1 {
		cid = eid(version, "create")
	}
	plc := `{"users":{"` + alice + `":100,"` + bob + `":50},"invite":0}`
	if refversions.Get(version).DomainlessRoomIDs {
		plc = `{"users":{"` + bob + `":50},"invite":0}`
	}
	a := []string{cid}
	return []gmsl.PDU{
		mk("create", "m.room.create", "", alice, `{"creator":"`+alice+`","room_version":"`+version+`"}`, []string{}),
		mk("alice", "m.room.member", alice, alice, `{"membership":"join"}`, a),
		mk("pl", "m.room.power_levels", "", alice, plc, append(a, eid(version, "alice"))),
		mk("jr", "m.room.join_rules", "", alice, `{"join_rule":"public"}`, append(a, eid(version, "alice"), eid(version, "pl"))),
		mk("bob", "m.room.member", bob, bob, `{"membership":"join"}`, append(a, eid(version, "pl"), eid(version, "jr"))),
		mk("tpi", "m.room.third_party_invite", "t", bob, `{"display_name":"c","key_validity_url":"https://id.org/valid","public_key":"`+evgen.B64(authgen.IDServerKey.Pub)+`"}`, append(a, eid(version, "pl"), eid(version, "bob"))),
	}
}

func versions() []string {
	var out []string
	for v := range gmsl.RoomVersions() {
		out = append(out, string(v))
	}
	sort.Strings(out)
	return out
}
