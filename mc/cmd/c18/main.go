// C18 — no input from the network can crash the library.
//
// Part (i): deviation-bounded structural enumeration. Start from a valid event
// of every special type, substitute <= k members (top level and content, from
// menus holding every JSON kind, integer boundaries and malformed identifiers),
// for every registered room version, and push the text through every parse
// path; whatever parsing accepts goes through every accessor, signature check,
// auth check (as the checked event AND as an auth event of a valid probe),
// redaction, content parser, state resolution, federation-response check and
// handshake handler.
// Part (ii): every byte string up to a length over a JSON / identifier token
// alphabet, and every single-byte corruption of valid texts, through the
// byte-level entry points.
// Oracle: no panic (recovered; the first library frame identifies the site).
package main

import (
	"bytes"
	"context"
	"crypto/sha256"
	"encoding/base64"
	"encoding/json"
	"fmt"
	"net/http/httptest"
	"os"
	"os/exec"
	"runtime/pprof"
	"sort"
	"strings"
	"sync"
	"sync/atomic"
	"time"

	gmsl "github.com/matrix-org/gomatrixserverlib"
	"github.com/matrix-org/gomatrixserverlib/fclient"
	"github.com/matrix-org/gomatrixserverlib/spec"

	"github.com/tidwall/sjson"
	"verif/mc/authgen"
	"verif/mc/evgen"
	"verif/mc/fedgen"
	"verif/mc/harness"
	"verif/mc/ref/refevent"
	"verif/mc/ref/refjson"
	"verif/mc/ref/refversions"
)

type venv struct {
	version   string
	ver       gmsl.IRoomVersion
	state     []gmsl.PDU
	stateJSON gmsl.EventJSONs
	probes    []gmsl.PDU
	alt       map[string]gmsl.PDU // a valid competitor per base state tuple, for resolution
	bases     []*baseEvent
}

// queriers: the answers a caller-supplied UserIDForSender can give for a sender taken from remote data
func uidParse(_ spec.RoomID, s spec.SenderID) (*spec.UserID, error) {
	return spec.NewUserID(string(s), true)
}
func uidNil(_ spec.RoomID, s spec.SenderID) (*spec.UserID, error) {
	u, err := spec.NewUserID(string(s), true)
	if err != nil {
		return nil, nil // the repository's own NilUserIDForBadSenderTest answers like this
	}
	return u, nil
}
func uidFixed(_ spec.RoomID, s spec.SenderID) (*spec.UserID, error) {
	if u, err := spec.NewUserID(string(s), true); err == nil {
		return u, nil
	}
	return spec.NewUserID("@mapped:a.org", true) // pseudo-ID rooms: any key maps to some user
}

var queriers = []struct {
	name string
	f    spec.UserIDForSender
}{{"parse", uidParse}, {"nil", uidNil}, {"fixed", uidFixed}}

func newEnv(version string) *venv {
	e := &venv{version: version, ver: gmsl.MustGetRoomVersion(gmsl.RoomVersion(version))}
	e.state = baseState(version)
	e.stateJSON = gmsl.NewEventJSONsFromEvents(e.state)
	e.bases = baseEvents(version)
	e.alt = map[string]gmsl.PDU{}
	for _, b := range e.bases {
		p, err := e.ver.NewEventFromTrustedJSONWithEventID(eid(version, "probe-"+b.Name), b.Ev.JSON(version), false)
		if err != nil {
			panic(fmt.Sprintf("base %s/%s: %v", version, b.Name, err))
		}
		e.probes = append(e.probes, p)
	}
	return e
}

type caseInput struct {
	Version string
	Base    string
	Subs    []sub
	Hash    bool
	TextB64 string
}

type reporter struct {
	r   *harness.Run
	in  func() caseInput
	hit bool
}

var prof sync.Map // entry -> *int64 nanoseconds (only with C18_TRACE)
var profOn = os.Getenv("C18_TRACE") != ""

func (rp *reporter) try(entry string, fn func()) {
	rp.r.Transition(1)
	if profOn {
		t0 := time.Now()
		defer func() {
			k := entry
			if i := strings.IndexByte(k, ']'); i >= 0 {
				k = k[:i+1]
			}
			v, _ := prof.LoadOrStore(k, new(int64))
			atomic.AddInt64(v.(*int64), int64(time.Since(t0)))
		}()
	}
	if p, msg := harness.Try(fn); p {
		rp.hit = true
		site := "?"
		if i := strings.Index(msg, " @ "); i >= 0 {
			fr := msg[i+3:]
			if j := strings.IndexAny(fr, " |"); j >= 0 {
				fr = fr[:j]
			}
			if k := strings.LastIndexByte(fr, '('); k > 0 {
				fr = fr[:k]
			}
			site = strings.TrimPrefix(fr, "github.com/matrix-org/gomatrixserverlib")
			site = strings.TrimPrefix(site, ".")
			site = strings.TrimPrefix(site, "/")
		}
		in := rp.in()
		rp.r.Violation("panic:"+site+":"+entry+" "+in.Version+"/"+in.Base+" "+harness.J(in.Subs), "panic in "+entry+": "+msg, "event", in)
	}
}

var ctx = context.Background()

type staticProvider struct{ events []gmsl.PDU }

func (s staticProvider) get(_ gmsl.RoomVersion, ids []string) ([]gmsl.PDU, error) {
	var out []gmsl.PDU
	for _, id := range ids {
		for _, e := range s.events {
			if e.EventID() == id {
				out = append(out, e)
			}
		}
	}
	return out, nil
}

type respState struct{ auth, state gmsl.EventJSONs }

func (r respState) GetAuthEvents() gmsl.EventJSONs  { return r.auth }
func (r respState) GetStateEvents() gmsl.EventJSONs { return r.state }

type memQ struct{}

func (memQ) CurrentMembership(context.Context, spec.RoomID, spec.SenderID) (string, error) {
	return "leave", nil
}

type roomQ struct{}

func (roomQ) IsKnownRoom(context.Context, spec.RoomID) (bool, error) { return true, nil }

type stateQ struct{ events []gmsl.PDU }

func (q stateQ) GetAuthEvents(context.Context, gmsl.PDU) (gmsl.AuthEventProvider, error) {
	return gmsl.NewAuthEvents(q.events)
}
func (q stateQ) GetState(context.Context, spec.RoomID, []gmsl.StateKeyTuple) ([]gmsl.PDU, error) {
	return q.events, nil
}

// withEvent returns the base state with e replacing (or joining) the event of its state tuple.
func withEvent(state []gmsl.PDU, e gmsl.PDU) []gmsl.PDU {
	out := make([]gmsl.PDU, 0, len(state)+1)
	for _, s := range state {
		if e.StateKey() != nil && s.Type() == e.Type() && s.StateKeyEquals(*e.StateKey()) {
			continue
		}
		out = append(out, s)
	}
	return append(out, e)
}

// driveEvent applies everything to one accepted event.
func (env *venv) driveEvent(rp *reporter, path string, p gmsl.PDU, level int) {
	t := func(name string, fn func()) { rp.try(path+"/"+name, fn) }
	t("EventID", func() { p.EventID() })
	t("StateKey", func() { p.StateKey(); p.StateKeyEquals("") })
	t("Type", func() { p.Type() })
	t("Content", func() { p.Content() })
	t("JoinRule", func() { p.JoinRule() })
	t("HistoryVisibility", func() { p.HistoryVisibility() })
	t("Membership", func() { p.Membership() })
	t("PowerLevels", func() { p.PowerLevels() })
	t("Version", func() { p.Version() })
	t("RoomID", func() { p.RoomID() })
	t("Redacts", func() { p.Redacts(); p.Redacted() })
	t("PrevEventIDs", func() { p.PrevEventIDs() })
	t("AuthEventIDs", func() { p.AuthEventIDs() })
	t("OriginServerTS", func() { p.OriginServerTS(); p.Depth(); p.JSON(); p.Unsigned() })
	t("SenderID", func() { s := p.SenderID(); s.IsUserID(); s.IsPseudoID(); s.ToUserID(); s.ToPseudoID() })
	t("ToHeaderedJSON", func() {
		if b, err := p.ToHeaderedJSON(); err == nil {
			if q, err := gmsl.NewEventFromHeaderedJSON(b, false); err == nil {
				q.EventID()
				q.RoomID()
			}
		}
	})
	t("IsSticky", func() {
		now := time.UnixMilli(1700000001000)
		p.IsSticky(now, now)
		p.StickyEndTime(now)
		p.IsSticky(now, time.Time{})
	})
	t("SetUnsigned", func() {
		if q, err := p.SetUnsigned(map[string]int{"age": 1}); err == nil {
			q.EventID()
			q.Unsigned()
		}
	})
	t("Sign", func() {
		// Sign is not among the operations the property lists; the handlers sign remote events only after their
		// signatures verified, so it is driven on events whose signatures member at least has the shape a check can pass.
		var sigs struct {
			S map[string]map[gmsl.KeyID]spec.Base64Bytes `json:"signatures"`
		}
		if json.Unmarshal(p.JSON(), &sigs) != nil {
			return
		}
		k := fedgen.Keys["a.org"]
		q := p.Sign("a.org", gmsl.KeyID(k.KeyID), k.Priv)
		q.EventID()
		q.JSON()
	})
	t("CheckFields", func() { gmsl.CheckFields(p) })
	t("NewInviteStrippedState", func() {
		ss := gmsl.NewInviteStrippedState(p)
		json.Marshal(ss)
	})
	t("NewMemberContentFromEvent", func() { gmsl.NewMemberContentFromEvent(p) })
	t("NewPowerLevelContentFromEvent", func() {
		if c, err := gmsl.NewPowerLevelContentFromEvent(p); err == nil {
			c.UserLevel(alice)
			c.EventLevel("m.room.name", true)
			c.NotificationLevel("room")
		}
	})
	t("CreatorsFromCreateEvent", func() {
		if p.Type() == "m.room.create" {
			gmsl.CreatorsFromCreateEvent(p)
		}
	})
	t("StateNeededForAuth", func() {
		sn := gmsl.StateNeededForAuth([]gmsl.PDU{p})
		sn.Tuples()
		sn.AuthEventReferences(providerOf(env.state))
	})
	t("RedactEventJSON", func() { env.ver.RedactEventJSON(p.JSON()) })
	withP := withEvent(env.state, p)
	for qi, q := range queriers {
		q := q
		t("VerifyEventSignatures["+q.name+"]", func() { gmsl.VerifyEventSignatures(ctx, p, fedgen.Verifier{}, q.f) })
		t("Allowed["+q.name+"]", func() { gmsl.Allowed(p, providerOf(env.state), q.f) })
		t("Allowed-self-in-state["+q.name+"]", func() { gmsl.Allowed(p, providerOf(withP), q.f) })
		t("Allowed-empty["+q.name+"]", func() { gmsl.Allowed(p, providerOf(nil), q.f) })
		if p.StateKey() != nil && (level >= 2 || qi < level+1) {
			// the event as an auth event of valid probes
			var prov gmsl.AuthEventProvider
			t("NewAuthEvents", func() { prov = providerOf(withP) })
			if prov == nil {
				continue
			}
			for i, probe := range env.probes {
				probe := probe
				t("Allowed-as-auth["+q.name+"]/"+env.bases[i].Name, func() { gmsl.Allowed(probe, prov, q.f) })
			}
			t("content-from-auth["+q.name+"]", func() {
				gmsl.NewCreateContentFromAuthEvents(prov, q.f)
				gmsl.NewJoinRuleContentFromAuthEvents(prov)
				gmsl.NewPowerLevelContentFromAuthEvents(prov, alice)
				gmsl.NewMemberContentFromAuthEvents(prov, spec.SenderID(*p.StateKey()))
				gmsl.NewThirdPartyInviteContentFromAuthEvents(prov, *p.StateKey())
			})
		}
		if level == 0 {
			break
		}
	}
	if p.StateKey() != nil {
		// state resolution over sets that contain the event, competing with the valid event of its tuple
		sets := [][]gmsl.PDU{env.state, withP}
		all := append(append([]gmsl.PDU{}, env.state...), p)
		for _, q := range queriers {
			q := q
			t("ResolveConflictsNew["+q.name+"]", func() {
				gmsl.ResolveConflictsNew(gmsl.RoomVersion(env.version), sets, all, q.f, func(string) bool { return false })
			})
			t("ResolveConflicts["+q.name+"]", func() {
				gmsl.ResolveConflicts(gmsl.RoomVersion(env.version), all, all, q.f, func(string) bool { return false })
			})
			if level < 2 {
				break
			}
		}
		t("ResolveStateConflicts-v1", func() { gmsl.ResolveStateConflicts(all, all, uidParse) })
	}
	// the event (whatever it is: with or without a state key) cited as an auth event by two valid, conflicting control
	// events of the same room: state resolution then reads it while ordering and authorising them
	if rid, rerr := spec.NewRoomID(roomOf(p)); rerr == nil && rid != nil && p.EventID() != "" {
		var jrs []gmsl.PDU
		for i, rule := range []string{"invite", "public"} {
			sk := ""
			tag := fmt.Sprintf("cjr%d", i)
			e := evgen.Ev{Type: "m.room.join_rules", Sender: alice, RoomID: roomOf(p), StateKey: &sk, Content: `{"join_rule":"` + rule + `"}`, Prev: []string{}, Auth: []string{p.EventID(), eid(env.version, "create"), eid(env.version, "alice")}, Depth: 9, TS: int64(10 + i), NoHash: true, EventID: eid(env.version, tag)}
			if refversions.Get(env.version).DomainlessRoomIDs {
				e.Auth = []string{p.EventID(), eid(env.version, "alice")}
			}
			if ev, err := env.ver.NewEventFromTrustedJSONWithEventID(eid(env.version, tag), e.JSON(env.version), false); err == nil {
				jrs = append(jrs, ev)
			}
		}
		if len(jrs) == 2 {
			sets := [][]gmsl.PDU{append(append([]gmsl.PDU{}, env.state...), jrs[0]), append(append([]gmsl.PDU{}, env.state...), jrs[1])}
			auth := append(append([]gmsl.PDU{}, env.state...), p, jrs[0], jrs[1])
			t("ResolveConflictsNew-cited-as-auth", func() {
				gmsl.ResolveConflictsNew(gmsl.RoomVersion(env.version), sets, auth, uidParse, func(string) bool { return false })
			})
			t("ResolveConflicts-cited-as-auth", func() {
				gmsl.ResolveConflicts(gmsl.RoomVersion(env.version), append(append([]gmsl.PDU{}, env.state...), jrs...), auth, uidParse, func(string) bool { return false })
			})
		}
	}
	t("ReverseTopologicalOrdering", func() {
		all := append(append([]gmsl.PDU{}, env.state...), p)
		gmsl.ReverseTopologicalOrdering(all, gmsl.TopologicalOrderByPrevEvents)
		gmsl.ReverseTopologicalOrdering(all, gmsl.TopologicalOrderByAuthEvents)
		gmsl.HeaderedReverseTopologicalOrdering(all, gmsl.TopologicalOrderByAuthEvents)
	})
	t("VerifyEventAuthChain", func() {
		gmsl.VerifyEventAuthChain(ctx, p, staticProvider{env.state}.get, uidParse)
	})
	t("HandleInvite", func() {
		rid, err := spec.NewRoomID(string(roomOf(p)))
		if err != nil {
			return
		}
		iu, _ := spec.NewUserID(dave, true)
		k := fedgen.Keys["d.org"]
		gmsl.HandleInvite(ctx, gmsl.HandleInviteInput{RoomID: *rid, RoomVersion: gmsl.RoomVersion(env.version), InvitedUser: *iu, InvitedSenderID: dave, InviteEvent: p,
			KeyID: gmsl.KeyID(k.KeyID), PrivateKey: k.Priv, Verifier: fedgen.Verifier{}, RoomQuerier: roomQ{}, MembershipQuerier: memQ{}, StateQuerier: stateQ{withP}, UserIDQuerier: uidParse})
	})
	t("Redact", func() {
		// last: it mutates the event
		p.Redact()
		p.Redacted()
		p.Content()
		p.EventID()
	})
}

// roomOf reads the room ID without going through RoomID() (which is itself under test).
func roomOf(p gmsl.PDU) string {
	var x struct {
		RoomID string `json:"room_id"`
	}
	_ = json.Unmarshal(p.JSON(), &x)
	return x.RoomID
}

type acceptAll struct{}

func (acceptAll) VerifyJSONs(_ context.Context, reqs []gmsl.VerifyJSONRequest) ([]gmsl.VerifyJSONResult, error) {
	return make([]gmsl.VerifyJSONResult, len(reqs)), nil
}

func providerOf(events []gmsl.PDU) gmsl.AuthEventProvider {
	a, _ := gmsl.NewAuthEvents(nil)
	for _, e := range events {
		_ = a.AddEvent(e)
	}
	return a
}

// driveText pushes one event text through every parse path and byte-level entry point.
func (env *venv) driveText(rp *reporter, js []byte, level int) (accepted int) {
	var pdus []gmsl.PDU
	var names []string
	parse := func(name string, fn func() (gmsl.PDU, error)) {
		rp.try("parse/"+name, func() {
			p, err := fn()
			if err == nil && p != nil {
				pdus = append(pdus, p)
				names = append(names, name)
			}
		})
	}
	parse("untrusted", func() (gmsl.PDU, error) { return env.ver.NewEventFromUntrustedJSON(js) })
	// NewEventFromTrustedJSON* are documented for JSON "that must be valid" (the caller's own database); remote bytes reach
	// them only through the untrusted parser (after redaction on a hash mismatch), which is driven here.
	// The parse itself must still not panic; what it returns is not driven further.
	rp.try("parse/trusted", func() {
		env.ver.NewEventFromTrustedJSON(js, false)
		env.ver.NewEventFromTrustedJSON(js, true)
		env.ver.NewEventFromTrustedJSONWithEventID(eid(env.version, "given"), js, false)
	})
	rp.try("parse/headered", func() {
		if len(js) > 2 && js[0] == '{' {
			gmsl.NewEventFromHeaderedJSON(append([]byte(`{"_room_version":"`+env.version+`",`), js[1:]...), false)
		}
	})
	// the path every federation response takes: persistable validation errors are kept
	rp.try("parse/UntrustedEvents", func() {
		for _, p := range (gmsl.EventJSONs{js}).UntrustedEvents(gmsl.RoomVersion(env.version)) {
			if p == nil {
				panic("UntrustedEvents returned a nil PDU")
			}
			// events kept in spite of a "persistable" size error: what federation responses hand on
			if len(pdus) == 0 {
				pdus = append(pdus, p)
				names = append(names, "untrusted-events")
			}
		}
		(gmsl.EventJSONs{js}).TrustedEvents(gmsl.RoomVersion(env.version), false)
	})
	for i, p := range pdus {
		env.driveEvent(rp, names[i], p, level)
	}
	rp.try("bytes/RedactEventJSON", func() { env.ver.RedactEventJSON(js) })
	rp.try("bytes/CanonicalJSON", func() {
		gmsl.CanonicalJSON(js)
		gmsl.EnforcedCanonicalJSON(js, gmsl.RoomVersion(env.version))
	})
	rp.try("bytes/VerifyJSON", func() {
		k := fedgen.Keys["a.org"]
		gmsl.VerifyJSON("a.org", gmsl.KeyID(k.KeyID), k.Pub, js)
		gmsl.ListKeyIDs("a.org", js)
	})
	rp.try("bytes/CheckStateResponse", func() {
		base := env.stateJSON[:1] // the create event
		rs := respState{auth: append(append(gmsl.EventJSONs{}, base...), js), state: gmsl.EventJSONs{js}}
		gmsl.CheckStateResponse(ctx, rs, gmsl.RoomVersion(env.version), acceptAll{}, staticProvider{env.state}.get, uidParse)
		if level >= 2 {
			gmsl.LineariseStateResponse(gmsl.RoomVersion(env.version), rs)
			gmsl.CheckStateResponse(ctx, respState{auth: base, state: gmsl.EventJSONs{js}}, gmsl.RoomVersion(env.version), acceptAll{}, staticProvider{env.state}.get, uidNil)
			gmsl.CheckSendJoinResponse(ctx, gmsl.RoomVersion(env.version), rs, acceptAll{}, env.probes[1], staticProvider{env.state}.get, uidParse)
		}
	})
	rp.try("bytes/HandleSendJoin", func() {
		rid, err := spec.NewRoomID(gjsonString(js, "room_id"))
		if err != nil {
			return
		}
		k := fedgen.Keys["a.org"]
		origins := []string{"d.org", "b.org"}
		if level < 2 {
			if !bytes.Contains(js, []byte(`"m.room.member"`)) {
				return
			}
			origins = origins[:1]
		}
		for _, origin := range origins {
			gmsl.HandleSendJoin(gmsl.HandleSendJoinInput{Context: ctx, RoomID: *rid, EventID: gjsonString(js, "event_id"), JoinEvent: js, RoomVersion: gmsl.RoomVersion(env.version), RequestOrigin: spec.ServerName(origin),
				LocalServerName: "a.org", KeyID: gmsl.KeyID(k.KeyID), PrivateKey: k.Priv, Verifier: fedgen.Verifier{}, MembershipQuerier: memQ{}, UserIDQuerier: uidParse,
				StoreSenderIDFromPublicID: func(context.Context, spec.SenderID, string, spec.RoomID) error { return nil }})
		}
	})
	if level < 2 {
		return len(pdus)
	}
	rp.try("bytes/fclient-unmarshal", func() {
		body := []byte(`{"pdus":[` + string(js) + `],"auth_chain":[` + string(js) + `],"state":[` + string(js) + `],"event":` + string(js) + `,"events":[` + string(js) + `],"room_version":"` + env.version + `","origin":"a.org","pdu_ids":["x"],"auth_chain_ids":["y"]}`)
		var a fclient.RespState
		if json.Unmarshal(body, &a) == nil {
			a.GetAuthEvents()
			a.GetStateEvents()
			json.Marshal(a)
		}
		var b fclient.RespSendJoin
		if json.Unmarshal(body, &b) == nil {
			b.GetStateEvents()
			json.Marshal(b)
			b.GetAuthEvents()
		}
		var c fclient.RespMakeJoin
		if json.Unmarshal(body, &c) == nil {
			c.GetJoinEvent()
			c.GetRoomVersion()
		}
		var d gmsl.Transaction
		json.Unmarshal(body, &d)
		var e fclient.RespInviteV2
		json.Unmarshal(body, &e)
		var g fclient.RespInvite
		json.Unmarshal([]byte(`[200,{"event":`+string(js)+`}]`), &g)
		var h fclient.RespMissingEvents
		json.Unmarshal(body, &h)
		var i fclient.RespEventAuth
		json.Unmarshal(body, &i)
		var j fclient.RespPeek
		json.Unmarshal(body, &j)
		var k fclient.InviteV2Request
		if json.Unmarshal([]byte(`{"event":`+string(js)+`,"room_version":"`+env.version+`","invite_room_state":[]}`), &k) == nil {
			k.Event()
			k.RoomVersion()
			k.InviteRoomState()
			json.Marshal(k)
		}
		var l fclient.InviteV3Request
		if json.Unmarshal([]byte(`{"event":`+string(js)+`,"room_version":"`+env.version+`","invite_room_state":[]}`), &l) == nil {
			l.Event()
			json.Marshal(l)
		}
	})
	return len(pdus)
}

func gjsonString(js []byte, key string) string {
	var m map[string]json.RawMessage
	if json.Unmarshal(js, &m) != nil {
		return ""
	}
	var s string
	_ = json.Unmarshal(m[key], &s)
	return s
}

// text renders base b with the substitutions; withHash adds a correct content hash when the text is parseable.
func text(version string, b *baseEvent, subs []sub, withHash bool) []byte {
	js := emit(nil, b.tree, "", subs)
	if !withHash {
		return js
	}
	v, _, err := refjson.Parse(js)
	if err != nil || v.Kind != refjson.Object {
		return nil
	}
	for _, m := range v.Members {
		if m.Key == "hashes" {
			return nil // the substitution is about hashes itself
		}
	}
	var h []byte
	if p, _ := harness.Try(func() { h = refevent.ContentHash(v) }); p || h == nil {
		return nil
	}
	out := append([]byte{}, js[:len(js)-1]...)
	if len(v.Members) > 0 {
		out = append(out, ',')
	}
	out = append(out, `"hashes":{"sha256":"`+base64.RawStdEncoding.EncodeToString(h)+`"}}`...)
	for _, s := range subs {
		if s.Path == "signatures" {
			return out
		}
	}
	// signed by every server the handlers may ask for, so that verification passes and the code behind it runs
	signed := out
	harness.Try(func() {
		signed = evgen.SignEvent(version, out, fedgen.Keys["a.org"], fedgen.Keys["b.org"], fedgen.Keys["d.org"])
	})
	return signed
}

func main() {
	if v := os.Getenv("VERIF_C18_DEEP"); v != "" {
		deepChild(v)
		return
	}
	harness.Main("C18", "model_checking", run)
}

// deepChild runs one deep-nesting probe in a process of its own: running out of stack is a fatal error, not a panic, and
// cannot be recovered, so the parent learns about it from the exit status.
func deepChild(spec string) {
	var kind string
	var depth int
	fmt.Sscanf(spec, "%d", &depth)
	kind = spec[strings.IndexByte(spec, ':')+1:]
	var doc string
	// "<prefix>+<kind>": the deep part sits behind a member whose string would mislead a scanner that tracks quotes and
	// brackets by hand (a string ending in escaped backslashes, an escaped quote, brackets inside a string, a key ending in a
	// backslash)
	pre, post := "", ""
	if i := strings.IndexByte(kind, '+'); i >= 0 {
		switch kind[:i] {
		case "bs1":
			pre, post = `{"p":"\\","x":`, `}`
		case "bs2":
			pre, post = `{"p":"\\\\","q":"\\","x":`, `}`
		case "bs3":
			pre, post = `["\\",`, `]`
		case "quote":
			pre, post = `{"p":"\"","x":`, `}`
		case "brackets":
			pre, post = `{"p":"]}[{\"","x":`, `}`
		case "key":
			pre, post = `{"k\\":`, `}`
		}
		kind = kind[i+1:]
	}
	defer func() { _ = pre }()
	switch kind {
	case "obj":
		doc = strings.Repeat(`{"":`, depth) + "0" + strings.Repeat("}", depth)
	case "arr":
		doc = strings.Repeat("[", depth) + "0" + strings.Repeat("]", depth)
	case "mixed":
		doc = strings.Repeat(`{"a":[`, depth/2) + "0" + strings.Repeat("]}", depth/2)
	}
	doc = pre + doc + post
	defer func() {
		if r := recover(); r != nil {
			fmt.Println("PANIC:", fmt.Sprint(r))
			os.Exit(3)
		}
	}()
	phase := func(n string) {
		if os.Getenv("VERIF_C18_DEEP_TIMING") != "" {
			fmt.Fprintln(os.Stderr, n, time.Now().Format("15:04:05.000"))
		}
	}
	phase("start")
	_, _ = gmsl.CanonicalJSON([]byte(doc))
	phase("canonical")
	signed := `{"signatures":{"a.org":{"ed25519:1":"` + strings.Repeat("A", 86) + `"}},"x":` + doc + `}`
	_ = gmsl.VerifyJSON("a.org", "ed25519:1", make([]byte, 32), []byte(signed))
	_, _ = gmsl.ListKeyIDs("a.org", []byte(signed))
	phase("verify/list")
	_, _ = gmsl.SignJSON("b.org", "ed25519:1", fedgen.Keys["b.org"].Priv, []byte(signed))
	phase("sign")
	fmt.Println("FAST-PART-DONE") // what follows is quadratic in the depth in places (slow, not fatal): a timeout there is not a crash
	if depth > 40000 && (pre != "" || kind == "obj") {
		// two minutes and more per probe at 100 000 object levels: the quadratic part is driven up to 40 000 levels only
		fmt.Println("OK")
		return
	}
	_, _ = gmsl.EnforcedCanonicalJSON([]byte(doc), "10")
	phase("enforced")
	for _, v := range []string{"1", "10", "12"} {
		ver := gmsl.MustGetRoomVersion(gmsl.RoomVersion(v))
		ev := `{"type":"m.room.message","sender":"@a:a.org","room_id":"!r:a.org","origin_server_ts":1,"depth":1,"prev_events":[],"auth_events":[],"hashes":{"sha256":"x"},"content":` + doc + `}`
		_, _ = ver.NewEventFromUntrustedJSON([]byte(ev))
		_, _ = ver.RedactEventJSON([]byte(ev))
		phase("event " + v)
	}
	fmt.Println("OK")
}

// deepProbes: documents nested far deeper than any enumerated one, one child process per (depth, kind).
func deepProbes(r *harness.Run) {
	self, err := os.Executable()
	if err != nil {
		return
	}
	depths := r.PickInts([]int{5000, 9999, 10001, 20000, 40000, 100000}, []int{1000, 5000, 9999, 10000, 10001, 20000, 40000, 100000, 400000, 1000000})
	type probe struct {
		d    int
		kind string
	}
	var ps []probe
	for _, d := range depths {
		for _, k := range []string{"obj", "arr", "mixed"} {
			ps = append(ps, probe{d, k})
		}
	}
	for _, d := range r.PickInts([]int{100000}, []int{40000, 100000, 400000}) {
		for _, pre := range []string{"bs1", "bs2", "bs3", "quote", "brackets", "key"} {
			for _, k := range r.PickStrings([]string{"obj"}, []string{"obj", "arr", "mixed"}) {
				ps = append(ps, probe{d, pre + "+" + k})
			}
		}
	}
	r.Parallel(len(ps), func(i int) {
		p := ps[i]
		r.Eval()
		ctx, cancel := context.WithTimeout(context.Background(), 120*time.Second)
		defer cancel()
		cmd := exec.CommandContext(ctx, self)
		cmd.Env = append(os.Environ(), fmt.Sprintf("VERIF_C18_DEEP=%d:%s", p.d, p.kind))
		out, err := cmd.CombinedOutput()
		if ctx.Err() != nil {
			if strings.Contains(string(out), "FAST-PART-DONE") {
				r.Count("deep_probe_slow_part_timed_out", 1) // slow is not a crash; the canonicaliser / signature part finished
			} else {
				r.Count("deep_probe_timed_out", 1)
			}
			return
		}
		if err != nil || !strings.Contains(string(out), "OK") {
			first := strings.SplitN(strings.TrimSpace(string(out)), "\n", 4)
			if len(first) > 3 {
				first = first[:3]
			}
			r.Violation(fmt.Sprintf("panic-deep:%s:%d", p.kind, p.d), fmt.Sprintf("a document of %d nested %s levels takes the process down (%v): %s", p.d, p.kind, err, strings.Join(first, " | ")), "none", nil)
		}
	})
	r.Count("deep_nesting_probes", int64(len(ps)))
}

func run(r *harness.Run) {
	r.Rule("(i) for every registered room version and each of 15 valid base events (create, six member shapes, mxid-mapped member, power levels, join rules, third-party invite, aliases, redaction, history visibility, message): every substitution of one member (16 top-level members and every content member the auth / redaction code reads) by every value of its menu (every JSON kind, integers at +-2^53, 2^63, 2^64, fractions, malformed and oversized identifiers, invalid UTF-8), with and without a matching content hash, every pair of substitutions over reduced menus, and every top-level / content member sent twice (the extra copy before or after the genuine one, reduced menus); each text through NewEventFromUntrustedJSON / TrustedJSON / TrustedJSONWithEventID / EventJSONs.UntrustedEvents, and every accepted event through every PDU accessor, Sign, SetUnsigned, Redact, CheckFields, content parsers, VerifyEventSignatures, StateNeededForAuth, Allowed (as the checked event and as an auth event of 15 valid probes, three sender-resolution behaviours), all three resolvers, topological orderings, VerifyEventAuthChain, CheckStateResponse / CheckSendJoinResponse, HandleSendJoin, HandleInvite, and the fclient response / request unmarshallers. (ii) all byte strings up to a length over token alphabets and all single-byte corruptions of valid texts through CanonicalJSON, EnforcedCanonicalJSON, CompactJSON, SortJSON, VerifyJSON, ListKeyIDs, ServerKeys / CheckKeys, ParseAuthorization, identifier parsers and the event parsers; (iii) documents nested 5 000 ... 100 000 (thorough 1 000 000) levels deep (objects, arrays, mixed) through the canonicalisers, VerifyJSON, SignJSON, ListKeyIDs, the untrusted parser and RedactEventJSON, each in a child process (running out of stack is fatal, not a panic). Oracle: no panic, no fatal error.")
	r.Assume("panics documented for caller errors (nil querier / verifier / context, fewer than two state sets) are excluded by construction", "goroutines started by the library are not observed by recover (none are started on these paths)")
	r.OnReplay("event", func(raw json.RawMessage) error {
		var in caseInput
		if err := json.Unmarshal(raw, &in); err != nil {
			return err
		}
		js, _ := base64.StdEncoding.DecodeString(in.TextB64)
		env := newEnv(in.Version)
		rp := &reporter{r: r, in: func() caseInput { return in }}
		env.driveText(rp, js, 2)
		if rp.hit {
			return fmt.Errorf("panics")
		}
		return nil
	})
	r.OnReplay("bytes", replayBytes(r))
	r.OnReplay("headers", func(raw json.RawMessage) error {
		var hs []string
		if err := json.Unmarshal(raw, &hs); err != nil {
			return err
		}
		var perr error
		if p, msg := harness.Try(func() {
			for _, local := range []func(spec.ServerName) bool{nil, func(spec.ServerName) bool { return true }} {
				req := httptest.NewRequest("GET", "/_matrix/federation/v1/version", nil)
				req.Header["Authorization"] = hs
				fclient.VerifyHTTPRequest(req, time.UnixMilli(1), "a.org", local, acceptAll{})
			}
		}); p {
			perr = fmt.Errorf("panic: %s", msg)
		}
		return perr
	})
	protoTemplates(r)
	if r.Replaying() {
		return
	}
	wideDuplicates(r)
	t0 := time.Now()
	if f := os.Getenv("C18_PPROF"); f != "" {
		fh, _ := os.Create(f)
		pprof.StartCPUProfile(fh)
		defer pprof.StopCPUProfile()
	}
	vers := versions()
	r.Extra("versions", vers)
	type job struct {
		env   *venv
		b     *baseEvent
		subs  []sub
		level int
	}
	var jobs []job
	single := r.Pick(1, 2)
	pairVers := map[string]bool{"1": true, "3": true, "10": true, "12": true, "org.matrix.msc4014": true}
	quickPairVers := map[string]bool{"1": true, "12": true}
	for _, v := range vers {
		env := newEnv(v)
		for _, b := range env.bases {
			fields := append(topFields(), contentFields(b.Name)...)
			jobs = append(jobs, job{env, b, nil, single})
			for _, fl := range fields {
				for _, val := range fl.Menu {
					jobs = append(jobs, job{env, b, []sub{{Path: fl.Path, Val: val}}, single})
				}
			}
			// a member sent twice, the extra copy before / after the genuine one (reduced menus; top-level members and the
			// direct members of content)
			for _, fl := range fields {
				if strings.Count(fl.Path, "/") > 1 {
					continue
				}
				for _, val := range fl.Core {
					if val == absent {
						continue
					}
					jobs = append(jobs, job{env, b, []sub{{Path: fl.Path, Val: val, Dup: 1}}, single}, job{env, b, []sub{{Path: fl.Path, Val: val, Dup: 2}}, single})
					if !strings.Contains(fl.Path, "/") {
						// the same on a wide event: padded with junk members to 20 and more top-level members (sorting routines
						// switch algorithm with the width, and an unstable one reorders equal keys)
						for _, d := range []int{1, 2} {
							ss := []sub{{Path: fl.Path, Val: val, Dup: d}}
							for k := 0; k < 9; k++ {
								ss = append(ss, sub{Path: fmt.Sprintf("zz_pad%d", k), Val: "0"})
							}
							jobs = append(jobs, job{env, b, ss, single})
						}
					}
				}
			}
			if (r.Quick() && !quickPairVers[v]) || os.Getenv("C18_NO_PAIRS") != "" {
				continue
			}
			for i, f1 := range fields {
				for _, f2 := range fields[i+1:] {
					if strings.HasPrefix(f2.Path, f1.Path+"/") || strings.HasPrefix(f1.Path, f2.Path+"/") {
						continue
					}
					m1, m2 := f1.Core, f2.Core
					if r.Thorough() && pairVers[v] {
						m1, m2 = f1.Menu, f2.Core
					}
					for _, v1 := range m1 {
						for _, v2 := range m2 {
							jobs = append(jobs, job{env, b, []sub{{Path: f1.Path, Val: v1}, {Path: f2.Path, Val: v2}}, 0})
						}
					}
				}
			}
		}
	}
	r.Count("structural_jobs", int64(len(jobs)))
	trace := func(what string) {
		if os.Getenv("C18_TRACE") != "" {
			fmt.Fprintf(os.Stderr, "[%6.1fs] %s evals=%d\n", time.Since(t0).Seconds(), what, r.EvalCount())
		}
	}
	trace("jobs built")
	r.Parallel(len(jobs), func(i int) {
		j := jobs[i]
		modes := []bool{false, true}
		if r.Quick() && !pairVers[j.env.version] {
			modes = modes[:1] // quick: the matching-hash flavour only for one version per event format / rule set
		}
		if j.level == 0 {
			modes = []bool{true} // pairs: the flavour that keeps the content (falls back to no hash if it cannot be computed)
		}
		for _, hash := range modes {
			js := text(j.env.version, j.b, j.subs, hash)
			if js == nil && j.level == 0 {
				hash = false
				js = text(j.env.version, j.b, j.subs, false)
			}
			if js == nil {
				continue
			}
			r.Eval()
			rp := &reporter{r: r, in: func() caseInput {
				return caseInput{j.env.version, j.b.Name, j.subs, hash, base64.StdEncoding.EncodeToString(js)}
			}}
			n := j.env.driveText(rp, js, j.level)
			if n > 0 {
				r.Outcome(fmt.Sprintf("accepted-by-%d-paths", n))
				if len(j.subs) > 0 {
					r.Nontrivial(j.env.version + j.b.Name + harness.J(j.subs))
				}
			} else {
				r.Outcome("rejected-by-all")
			}
		}
	})
	trace("structural done")
	if profOn {
		type kv struct {
			k string
			v int64
		}
		var kvs []kv
		prof.Range(func(k, v any) bool { kvs = append(kvs, kv{k.(string), *v.(*int64)}); return true })
		sort.Slice(kvs, func(i, j int) bool { return kvs[i].v > kvs[j].v })
		for i, x := range kvs {
			if i < 25 {
				fmt.Fprintf(os.Stderr, "  %8.1fs %s\n", float64(x.v)/1e9, x.k)
			}
		}
	}
	if os.Getenv("C18_SKIP_BYTES") == "" {
		runBytes(r, trace)
	}
	deepProbes(r)
	_ = evgen.B64
}

// protoTemplates: the proto-event of a make_join / make_leave / make_knock response is remote data that the joining server
// completes with EventBuilder.Build. Every pair of values from a menu of reference-list shapes as prev_events / auth_events,
// in every room version, decoded as the handshake code does and built.
func protoTemplates(r *harness.Run) {
	menu := []string{`[]`, `[""]`, `[[]]`, `[[""]]`, `[[1]]`, `[null]`, `[{}]`, `["$x"]`, `["$x:a.org"]`, `[["$x:a.org"]]`, `[["$x:a.org",{}]]`, `[["$x:a.org",{"sha256":5}]]`, `"str"`, `5`, `null`, `{}`, `[[],[]]`, `["", ""]`, `[true]`, `[1.5]`, `["$` + strings.Repeat("A", 43) + `"]`, `["$"]`}
	type tcase struct{ Version, Prev, Auth string }
	run := func(c tcase) error {
		text := `{"type":"m.room.member","state_key":"@u:a.org","sender":"@u:a.org","room_id":"!r:a.org","content":{"membership":"join"},"depth":5,"prev_events":` + c.Prev + `,"auth_events":` + c.Auth + `}`
		var msg string
		if p, m := harness.Try(func() {
			var pe gmsl.ProtoEvent
			if err := json.Unmarshal([]byte(text), &pe); err != nil {
				return
			}
			ver := gmsl.MustGetRoomVersion(gmsl.RoomVersion(c.Version))
			k := fedgen.Keys["a.org"]
			ev, err := ver.NewEventBuilderFromProtoEvent(&pe).Build(time.UnixMilli(1700000000000), "a.org", "ed25519:1", k.Priv)
			if err == nil && ev != nil {
				ev.PrevEventIDs()
				ev.AuthEventIDs()
				ev.EventID()
			}
		}); p {
			msg = m
		}
		if msg != "" {
			return fmt.Errorf("building the event of a make_join template with prev_events %s / auth_events %s panics: %s", c.Prev, c.Auth, msg)
		}
		return nil
	}
	r.OnReplay("template", func(raw json.RawMessage) error {
		var c tcase
		if err := json.Unmarshal(raw, &c); err != nil {
			return err
		}
		return run(c)
	})
	if r.Replaying() {
		return
	}
	n := 0
	for _, v := range versions() {
		for _, pv := range menu {
			for _, av := range menu {
				c := tcase{v, pv, av}
				n++
				r.Eval()
				if err := run(c); err != nil {
					r.Violation(fmt.Sprintf("panic-template:%s:%s:%s", v, pv, av), err.Error(), "template", c)
				}
			}
		}
	}
	r.Count("make_join_templates_built", int64(n))
}

// wideDuplicates: an identifier member sent twice (a valid copy and one that only passes the cheap checks) on events of 13 to
// 33 top-level members, the two copies at EVERY pair of positions, in both orders, with the content hash a sender computes
// from the receiver's own canonical form. Readers that take the first copy in canonical order and readers that take the last
// copy in input order must not end up validating one and using the other (sorting routines change algorithm with the width).
func wideDuplicates(r *harness.Run) {
	type field struct{ name, good, bad string }
	var n int64
	type wjob struct {
		v     string
		width int
		fi    int
	}
	var wjobs []wjob
	for _, v := range []string{"1", "4", "10", "12"} {
		for _, width := range r.PickInts([]int{13, 14, 20}, []int{12, 13, 14, 16, 20, 33, 64}) {
			for fi := 0; fi < 3; fi++ {
				wjobs = append(wjobs, wjob{v, width, fi})
			}
		}
	}
	r.Parallel(len(wjobs), func(ji int) {
		v, width := wjobs[ji].v, wjobs[ji].width
		env := newEnv(v)
		room := authgen.RoomOf(v)
		fields := []field{{"room_id", `"` + room + `"`, `"!bad:"`}, {"sender", `"` + alice + `"`, `"@:"`}, {"type", `"m.x"`, `""`}}
		{
			{
				f := fields[wjobs[ji].fi]
				others := []string{`"auth_events":[]`, `"content":{}`, `"depth":1`, `"origin":"a.org"`, `"origin_server_ts":1`, `"prev_events":[]`, `"signatures":{}`, `"state_key":""`}
				for _, g := range fields {
					if g.name != f.name {
						others = append(others, `"`+g.name+`":`+g.good)
					}
				}
				for k := 0; len(others)+3 < width; k++ {
					others = append(others, fmt.Sprintf(`"zz_pad%02d":0`, k))
				}
				total := len(others) + 2
				for i := 0; i < total; i++ {
					for j := i + 1; j < total; j++ {
						for _, goodFirst := range []bool{true, false} {
							first, second := f.good, f.bad
							if !goodFirst {
								first, second = second, first
							}
							var ms []string
							o := 0
							for pos := 0; pos < total; pos++ {
								switch pos {
								case i:
									ms = append(ms, `"`+f.name+`":`+first)
								case j:
									ms = append(ms, `"`+f.name+`":`+second)
								default:
									ms = append(ms, others[o])
									o++
								}
							}
							body := strings.Join(ms, ",")
							var js []byte
							if p, _ := harness.Try(func() {
								hashable := gmsl.CanonicalJSONAssumeValid([]byte(`{"hashes":{"sha256":""},` + body + `}`))
								for _, key := range []string{"signatures", "unsigned", "hashes"} {
									hashable, _ = sjson.DeleteBytes(hashable, key)
								}
								sum := sha256.Sum256(hashable)
								js = []byte(`{"hashes":{"sha256":"` + base64.RawStdEncoding.EncodeToString(sum[:]) + `"},` + body + `}`)
							}); p || js == nil {
								continue
							}
							atomic.AddInt64(&n, 1)
							r.Eval()
							text := js
							rp := &reporter{r: r, in: func() caseInput {
								return caseInput{v, "wide-duplicate", []sub{{Path: f.name, Val: f.bad, Dup: 1}}, true, base64.StdEncoding.EncodeToString(text)}
							}}
							env.driveText(rp, js, 1)
						}
					}
				}
			}
		}
	})
	r.Count("wide_duplicate_events", n)
}
