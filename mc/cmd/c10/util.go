package main

import (
	"sync"
	"time"

	"verif/mc/harness"
)

type sigSet struct {
	mu sync.Mutex
	m  map[string]bool
}

func newSigSet() *sigSet { return &sigSet{m: map[string]bool{}} }
func (s *sigSet) add(k string) bool {
	s.mu.Lock()
	defer s.mu.Unlock()
	if s.m[k] {
		return false
	}
	s.m[k] = true
	return true
}
func (s *sigSet) len() int { s.mu.Lock(); defer s.mu.Unlock(); return len(s.m) }

func timeBudget(r *harness.Run) time.Duration {
	if r.Thorough() {
		return 40 * time.Minute
	}
	return 150 * time.Second
}
