// C10 — state resolution returns the state the room version's algorithm defines.
// Generated room DAG histories (honest branches from a base room) are resolved by
// the real entry points and by the independent reference refstate; the resolved
// event-ID sets must be equal.
package main

import (
	"encoding/json"
	"fmt"
	"strings"

	gmsl "github.com/matrix-org/gomatrixserverlib"

	"verif/mc/harness"
	"verif/mc/ref/refstate"
	"verif/mc/srgen"
	"verif/mc/srscn"
)

type scenario = srscn.Scenario

func build(sc scenario) *srscn.Built { return srscn.Build(sc) }

func algoOf(version string) int { return srscn.AlgoOf(version) }

func resolveLib(b *srscn.Built, version string) ([]string, error) {
	if err := b.Materialise(); err != nil {
		return nil, err
	}
	var sets [][]gmsl.PDU
	for _, s := range b.Sets {
		sets = append(sets, b.PDUList(s))
	}
	res, err := b.ResolveNew(version, sets, b.PDUList(b.AuthFor(version)))
	if err != nil {
		return nil, err
	}
	return srscn.IDs(res), nil
}

func check(r *harness.Run, sc scenario) (string, error) {
	r.Eval()
	b := build(sc)
	got, err := resolveLib(b, sc.Version)
	if err != nil {
		return b.Sig, err
	}
	auth := b.All
	if algoOf(sc.Version) == 1 {
		auth = b.V1Auth()
	}
	st := refstate.Resolve(b.H, algoOf(sc.Version), b.Sets, auth)
	if strings.Join(got, ",") != strings.Join(st.Result, ",") {
		var onlyLib, onlyRef []string
		in := map[string]bool{}
		for _, x := range st.Result {
			in[x] = true
		}
		gi := map[string]bool{}
		for _, x := range got {
			gi[x] = true
			if !in[x] {
				onlyLib = append(onlyLib, x)
			}
		}
		for _, x := range st.Result {
			if !gi[x] {
				onlyRef = append(onlyRef, x)
			}
		}
		return b.Sig, fmt.Errorf("room version %s (algorithm %d), branches %v | %v | %v, ids %d ts %d: library resolves %v but the algorithm gives %v (conflicted %v; power order %v; mainline %v; mainline order %v; rejected by iterative auth %v)", sc.Version, algoOf(sc.Version), sc.A, sc.B, sc.Third, sc.IDMode, sc.TSMode, onlyLib, onlyRef, st.Conflicted, st.PowerOrder, st.Mainline, st.MainlineOrder, st.Rejected)
	}
	if len(st.Conflicted) > 0 {
		r.Nontrivial(sc.Version + fmt.Sprint(sc.IDMode, sc.TSMode) + b.Sig)
	}
	// rejected-event oracles: the same scenario with each single non-create event reported as rejected by the caller
	// (algorithms v2 / v2.1 consult the oracle in the auth-event fallback of the iterative auth checks)
	if sc.Reject == 0 && len(st.Conflicted) > 0 && algoOf(sc.Version) != 1 && (rejectOracles || (len(sc.A)+len(sc.B) <= 3 && len(sc.Third) == 0)) {
		for i := 1; i < len(b.All); i++ {
			sc2 := sc
			sc2.Reject = i
			if _, err := check(r, sc2); err != nil {
				return b.Sig, err
			}
		}
	}
	if len(st.Rejected) > 0 {
		r.Outcome("some-event-rejected")
	} else if len(st.Conflicted) > 0 {
		r.Outcome("conflict-resolved")
	} else {
		r.Outcome("no-conflict")
	}
	return b.Sig, nil
}

func singles(names []string) [][]string {
	var out [][]string
	for _, n := range names {
		out = append(out, []string{n})
	}
	return out
}

// rejectOracles turns the rejected-event dimension on (thorough tier; the quick tier applies it to single-action branches)
var rejectOracles bool

func main() { harness.Main("C10", "model_checking", run) }

func run(r *harness.Run) {
	r.Rule("room DAG histories generated from a base room (create, creator join, power levels, join rules, two joins): every unordered pair of branches, each every sequence of <= L actions from an alphabet of 25-27 actions (power-level edits by two users, join-rule changes, bans, kicks, unbans, invites, joins, leaves, knocks, topic/name/own-state changes by three users); an action enters a branch only if the reference auth rules allow it there (honest servers); auth events chosen per the specification's selection rule; state sets = the states at the two (three) tips; x timestamp patterns {ascending, all equal, descending} x event-ID orders {with, against creation order}; room versions 1 (algorithm v1), 2 and 10 (v2), 12 and org.matrix.hydra.11 (v2.1); scenarios that generate the same pair of branches are deduplicated. Oracle: resolved event-ID set of ResolveConflictsNew == refstate (independent implementation of v1 / v2 / v2.1 with refinements R1-R8 over the reference auth rules). Non-trivial = distinct scenario with >= 1 conflicted key.")
	r.Assume("refstate + refauth are the definition (specification + DESIGN.md §5); rejected-event oracles: every conflicted scenario is re-run with each single event reported as rejected by the caller (thorough tier: all scenarios; quick tier: scenarios whose two branches have at most three actions together)")
	r.OnReplay("scenario", func(raw json.RawMessage) error {
		var sc scenario
		if err := json.Unmarshal(raw, &sc); err != nil {
			return err
		}
		_, err := check(r, sc)
		return err
	})
	if r.Replaying() {
		return
	}
	L := r.Pick(2, 2)
	rejectOracles = r.Thorough()
	type mode struct{ id, ts int }
	modes := []mode{{0, 0}, {1, 1}, {0, 2}}
	vers := []string{"1", "2", "10", "12", "org.matrix.hydra.11"}
	if r.Thorough() {
		modes = []mode{{0, 0}, {0, 1}, {0, 2}, {1, 0}, {1, 1}, {1, 2}}
	}
	r.Budget(timeBudget(r))
	for _, ver := range vers {
		var names []string
		for _, a := range srgen.Actions(ver) {
			names = append(names, a.Name)
		}
		var seqs [][]string
		var gen func(cur []string)
		gen = func(cur []string) {
			seqs = append(seqs, append([]string{}, cur...))
			if len(cur) == L {
				return
			}
			for _, n := range names {
				gen(append(cur, n))
			}
		}
		if r.Quick() && (ver == "2" || ver == "org.matrix.hydra.11") {
			L = 1 // same algorithms as 10 / 12: single-action branches in the quick tier
		} else {
			L = r.Pick(2, 2)
		}
		gen(nil)
		type job struct{ i int }
		var seen = newSigSet()
		r.Parallel(len(seqs), func(i int) {
			for j := i; j < len(seqs); j++ {
				if r.Expired() {
					r.Cap(fmt.Sprintf("wall-clock budget reached in version %s (pairs are enumerated in lexicographic order)", ver))
					return
				}
				for _, m := range modes {
					if ver == "1" && m.ts == 2 && r.Quick() {
						continue // algorithm v1 never reads timestamps
					}
					sc := scenario{Version: ver, IDMode: m.id, TSMode: m.ts, A: seqs[i], B: seqs[j]}
					if m.id == 0 && m.ts == 0 {
						// dedup on the generated branches (many action sequences are refused or no-ops)
						b := build(sc)
						if !seen.add(b.Sig) {
							break
						}
					}
					_, err := check(r, sc)
					if err != nil {
						cls := "differs"
						if strings.Contains(err.Error(), "panics") {
							cls = "PANIC"
						}
						r.Violation(fmt.Sprintf("scenario:%s/%s:%v|%v:%d%d", ver, cls, sc.A, sc.B, m.id, m.ts), err.Error(), "scenario", sc)
					}
				}
			}
		})
		r.Count("branch_sequences_"+ver, int64(len(seqs)))
		r.Count("distinct_branch_pairs_"+ver, int64(seen.len()))
	}
	// three-way scenarios (third state set), on single-action branches
	for _, ver := range vers {
		var names []string
		for _, a := range srgen.Actions(ver) {
			names = append(names, a.Name)
		}
		n := len(names)
		if r.Quick() {
			n = 12
		}
		r.Parallel(n, func(i int) {
			for j := i; j < len(names); j++ {
				for k := j; k < len(names); k++ {
					for _, pre := range [][]string{nil, {"pl-promote-carol"}, {"pl-events-default-50"}, {"jr-invite"}} {
						if pre != nil && r.Quick() && (i+j+k)%2 != 0 {
							continue
						}
						sc := scenario{Version: ver, IDMode: 0, TSMode: 0, A: []string{names[i]}, B: []string{names[j]}, Third: []string{names[k]}, Prefix: pre, ThirdFromBase: pre != nil && (i+j)%2 == 0}
						if _, err := check(r, sc); err != nil {
							r.Violation(fmt.Sprintf("scenario:%s/three-way:%v>%v|%v|%v", ver, pre, sc.A, sc.B, sc.Third), err.Error(), "scenario", sc)
						}
					}
				}
			}
		})
	}
	// deep branches: one branch of up to DL actions over the control-event sub-alphabet (superseded power events, kicks
	// followed by re-joins, join-rule flips) against a branch of at most one action; these are the DAG shapes in which an
	// auth chain passes through several superseded control events
	deepNames := []string{"pl-promote-carol", "pl-demote-bob", "jr-invite", "jr-public", "bob-kicks-carol", "carol-joins", "carol-leaves", "bob-invites-dave", "dave-joins", "topic-carol"}
	DL := r.Pick(3, 4)
	var deep [][]string
	var genDeep func(cur []string)
	genDeep = func(cur []string) {
		if len(cur) >= 3 {
			deep = append(deep, append([]string{}, cur...))
		}
		if len(cur) == DL {
			return
		}
		for _, n := range deepNames {
			genDeep(append(cur, n))
		}
	}
	genDeep(nil)
	for _, ver := range []string{"10", "12"} {
		seen := newSigSet()
		ver := ver
		r.Parallel(len(deep), func(i int) {
			for _, other := range append([][]string{{}}, singles(deepNames)...) {
				if r.Expired() {
					r.Cap("wall-clock budget reached in the deep-branch scenarios of version " + ver)
					return
				}
				sc := scenario{Version: ver, IDMode: i % 2, TSMode: i % 3, A: deep[i], B: other}
				b := build(sc)
				if !seen.add(b.Sig) {
					continue
				}
				if _, err := check(r, sc); err != nil {
					r.Violation(fmt.Sprintf("scenario:%s/deep:%v|%v", ver, sc.A, sc.B), err.Error(), "scenario", sc)
				}
			}
		})
		r.Count("deep_branch_scenarios_"+ver, int64(seen.len()))
	}
	// mainline family: a power-levels change followed by two content events on one branch (both cite the branch's power-levels
	// event) against a branch that is empty, a content event, another power-levels change, or that change followed by one or two
	// content events: the shapes in which several events reach the mainline through the same off-mainline power-levels event,
	// under every ID / timestamp mode (the mainline order is the only thing that separates the competing content events)
	{
		pls := []string{"pl-promote-carol", "pl-demote-bob", "pl-state-default-0", "pl-events-default-50", "pl-kick-100"}
		cons := []string{"topic-alice", "topic-bob", "topic-carol", "name-bob"}
		var as, bs [][]string
		bs = append(bs, []string{})
		for _, c := range cons {
			bs = append(bs, []string{c})
		}
		for _, p := range pls {
			bs = append(bs, []string{p})
			for _, c1 := range cons {
				bs = append(bs, []string{p, c1})
				for _, c2 := range cons {
					if c1 != c2 {
						as = append(as, []string{p, c1, c2})
						bs = append(bs, []string{p, c1, c2})
					}
				}
			}
		}
		for _, ver := range []string{"10", "12"} {
			ver := ver
			seen := newSigSet()
			r.Parallel(len(as), func(i int) {
				for _, b := range bs {
					if r.Expired() {
						r.Cap("wall-clock budget reached in the mainline family of version " + ver)
						return
					}
					for _, m := range modes {
						sc := scenario{Version: ver, IDMode: m.id, TSMode: m.ts, A: as[i], B: b}
						if m.id == 0 && m.ts == 0 {
							if !seen.add(build(sc).Sig) {
								break
							}
						}
						if _, err := check(r, sc); err != nil {
							r.Violation(fmt.Sprintf("scenario:%s/mainline:%v|%v:%d%d", ver, sc.A, sc.B, m.id, m.ts), err.Error(), "scenario", sc)
						}
					}
				}
			})
			r.Count("mainline_family_scenarios_"+ver, int64(seen.len()))
		}
	}
	r.Sample("scenario", scenario{Version: "10", A: []string{"alice-bans-bob"}, B: []string{"topic-bob", "pl-bob-invite-50"}})
	r.Sample("scenario", scenario{Version: "12", IDMode: 1, TSMode: 1, A: []string{"pl-demote-bob", "topic-alice"}, B: []string{"bob-kicks-carol", "carol-joins"}})
	r.Extra("bounds", map[string]int{"branch_length": L, "modes": len(modes)})
}
