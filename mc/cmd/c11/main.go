// C11 — state resolution is order-independent and yields well-formed state.
// Instrumented build: Go map iteration order and set Slice() order inside the
// library are explorer choices. Parts:
//
//	(1) every presentation of the inputs (order of state sets, of events inside sets, of the auth list,
//	    duplicated auth entries; current and deprecated entry points) gives the same resolved ID set, which is well formed;
//	(2) deviation-bounded DFS over map-iteration / Slice() orders inside the library;
//	(3) topological orderings of all small labelled DAGs in all presentation orders.
package main

import (
	"encoding/json"
	"fmt"
	"math/bits"
	"sort"
	"strings"
	"sync/atomic"
	"time"

	gmsl "github.com/matrix-org/gomatrixserverlib"
	"github.com/matrix-org/gomatrixserverlib/spec"
	"github.com/matrix-org/gomatrixserverlib/verifhook"

	"verif/mc/evgen"
	"verif/mc/explore"
	"verif/mc/harness"
	"verif/mc/srgen"
	"verif/mc/srscn"
)

type scenario = srscn.Scenario

func permute[T any](l []T, p []int) []T {
	out := make([]T, len(l))
	for i, j := range p {
		out[i] = l[j]
	}
	return out
}

// wellFormed checks the result against the inputs.
func wellFormed(b *srscn.Built, res []gmsl.PDU) error {
	supplied := map[string]bool{}
	for _, e := range b.All {
		supplied[e.ID] = true
	}
	keys := map[string]string{}
	for _, p := range res {
		if !supplied[p.EventID()] {
			return fmt.Errorf("result contains %s which was not supplied", p.EventID())
		}
		if p.StateKey() == nil {
			return fmt.Errorf("result contains the non-state event %s", p.EventID())
		}
		k := p.Type() + "\x00" + *p.StateKey()
		if o, dup := keys[k]; dup && o != p.EventID() {
			return fmt.Errorf("result has two events for (%s, %q): %s and %s", p.Type(), *p.StateKey(), o, p.EventID())
		} else if dup {
			return fmt.Errorf("result lists %s twice", p.EventID())
		}
		keys[k] = p.EventID()
	}
	// keys on which all sets agree keep exactly that event
	agree := map[string]string{}
	for i, s := range b.Sets {
		cur := map[string]string{}
		for _, e := range s {
			cur[e.Key()] = e.ID
		}
		if i == 0 {
			agree = cur
			continue
		}
		for k, id := range agree {
			if cur[k] != id {
				delete(agree, k)
			}
		}
	}
	for k, id := range agree {
		if keys[k] != id {
			return fmt.Errorf("all state sets agree on %s for key %q but the result has %q", id, strings.ReplaceAll(k, "\x00", "/"), keys[k])
		}
	}
	return nil
}

type presCase struct {
	Sc   scenario
	What string
}

// baseline + every presentation
func checkPresentations(r *harness.Run, sc scenario) error {
	b := srscn.Build(sc)
	if err := b.Materialise(); err != nil {
		return err
	}
	ver := sc.Version
	var sets [][]gmsl.PDU
	for _, s := range b.Sets {
		sets = append(sets, b.PDUList(s))
	}
	auth := b.PDUList(b.AuthFor(ver))
	r.Eval()
	base, err := b.ResolveNew(ver, sets, auth)
	if err != nil {
		return err
	}
	want := strings.Join(srscn.IDs(base), ",")
	if err := wellFormed(b, base); err != nil {
		return err
	}
	same := func(what string, res []gmsl.PDU, err error) error {
		r.Eval()
		if err != nil {
			return fmt.Errorf("%s: %v", what, err)
		}
		if got := strings.Join(srscn.IDs(res), ","); got != want {
			return fmt.Errorf("%s changes the resolved state: %s instead of %s", what, diff(got, want), "baseline")
		}
		if e := wellFormed(b, res); e != nil {
			return fmt.Errorf("%s: %v", what, e)
		}
		return nil
	}
	// order of state sets
	for _, p := range explore.Perms(len(sets))[1:] {
		res, err := b.ResolveNew(ver, permute(sets, p), auth)
		if e := same(fmt.Sprintf("state sets in order %v", p), res, err); e != nil {
			return e
		}
	}
	// order of events inside each set
	for si := range sets {
		for _, p := range explore.OrderMenu(len(sets[si]))[1:] {
			alt := append([][]gmsl.PDU(nil), sets...)
			alt[si] = permute(sets[si], p)
			res, err := b.ResolveNew(ver, alt, auth)
			if e := same(fmt.Sprintf("events of state set %d in order %v", si, p), res, err); e != nil {
				return e
			}
		}
	}
	// order of the auth list; duplicated entries
	for _, p := range explore.OrderMenu(len(auth))[1:] {
		res, err := b.ResolveNew(ver, sets, permute(auth, p))
		if e := same(fmt.Sprintf("auth events in order %v", p), res, err); e != nil {
			return e
		}
	}
	for i := range auth {
		dup := append(append([]gmsl.PDU(nil), auth...), auth[i])
		res, err := b.ResolveNew(ver, sets, dup)
		if e := same(fmt.Sprintf("auth event %s listed twice", auth[i].EventID()), res, err); e != nil {
			return e
		}
		dup2 := append([]gmsl.PDU{auth[i]}, auth...)
		res, err = b.ResolveNew(ver, sets, dup2)
		if e := same(fmt.Sprintf("auth event %s listed twice (first)", auth[i].EventID()), res, err); e != nil {
			return e
		}
	}
	// all-equal sets give that state
	for si := range sets {
		eq := make([][]gmsl.PDU, len(sets))
		for i := range eq {
			eq[i] = sets[si]
		}
		r.Eval()
		res, err := b.ResolveNew(ver, eq, auth)
		if err != nil {
			return err
		}
		if got, exp := strings.Join(srscn.IDs(res), ","), strings.Join(srscn.IDs(sets[si]), ","); got != exp {
			return fmt.Errorf("resolving %d copies of state set %d does not return that state: %s", len(sets), si, diff(got, exp))
		}
	}
	// deprecated flat entry point: its own baseline (R1: conflicted per key over the flat list), then order independence
	var flat []gmsl.PDU
	for _, s := range sets {
		flat = append(flat, s...)
	}
	oldAuth := auth
	r.Eval()
	ob, err := b.ResolveOld(ver, flat, oldAuth)
	if err != nil {
		return err
	}
	if e := wellFormed(b, ob); e != nil {
		return fmt.Errorf("deprecated entry point: %v", e)
	}
	owant := strings.Join(srscn.IDs(ob), ",")
	for _, p := range explore.OrderMenu(len(flat))[1:] {
		r.Eval()
		res, err := b.ResolveOld(ver, permute(flat, p), oldAuth)
		if err != nil {
			return err
		}
		if got := strings.Join(srscn.IDs(res), ","); got != owant {
			return fmt.Errorf("deprecated entry point: events in order %v change the resolved state: %s", p, diff(got, owant))
		}
	}
	for _, p := range explore.OrderMenu(len(oldAuth))[1:] {
		r.Eval()
		res, err := b.ResolveOld(ver, flat, permute(oldAuth, p))
		if err != nil {
			return err
		}
		if got := strings.Join(srscn.IDs(res), ","); got != owant {
			return fmt.Errorf("deprecated entry point: auth events in order %v change the resolved state: %s", p, diff(got, owant))
		}
	}
	return nil
}

func diff(got, want string) string {
	g, w := map[string]bool{}, map[string]bool{}
	for _, x := range strings.Split(got, ",") {
		g[x] = true
	}
	for _, x := range strings.Split(want, ",") {
		w[x] = true
	}
	var a, b []string
	for x := range g {
		if !w[x] {
			a = append(a, x)
		}
	}
	for x := range w {
		if !g[x] {
			b = append(b, x)
		}
	}
	sort.Strings(a)
	sort.Strings(b)
	return fmt.Sprintf("has %v, lacks %v", a, b)
}

// ---- (2) map orders

var curCtx *explore.Ctx

func chooser(n int, site string) []int {
	if curCtx == nil || n < 2 {
		return nil
	}
	menu := explore.OrderMenu(n)
	i := curCtx.Choose(len(menu), site)
	if i == 0 {
		return nil
	}
	return menu[i]
}

func checkMapOrders(r *harness.Run, sc scenario, bound int) (explore.Stats, error) {
	b := srscn.Build(sc)
	if err := b.Materialise(); err != nil {
		return explore.Stats{}, err
	}
	var sets [][]gmsl.PDU
	for _, s := range b.Sets {
		sets = append(sets, b.PDUList(s))
	}
	auth := b.PDUList(b.AuthFor(sc.Version))
	var flat []gmsl.PDU
	for _, s := range sets {
		flat = append(flat, s...)
	}
	want, owant := "", ""
	var failure error
	sites := map[string]bool{}
	st := explore.Explore(explore.Options{Bound: bound, Workers: 1, Stop: func() bool { return failure != nil || r.Expired() }}, func(x *explore.Ctx) {
		curCtx = x
		defer func() { curCtx = nil }()
		r.Eval()
		res, err := b.ResolveNew(sc.Version, sets, auth)
		if err != nil {
			failure = err
			return
		}
		old, err := b.ResolveOld(sc.Version, flat, auth)
		if err != nil {
			failure = err
			return
		}
		curCtx = nil
		for _, p := range x.Points {
			sites[p.Label] = true
		}
		got, ogot := strings.Join(srscn.IDs(res), ","), strings.Join(srscn.IDs(old), ",")
		if want == "" {
			want, owant = got, ogot
			return
		}
		var choices []string
		for i, c := range x.Choices {
			if c != 0 {
				choices = append(choices, fmt.Sprintf("%s#%d", x.Points[i].Label, c))
			}
		}
		if got != want {
			failure = fmt.Errorf("with map/set iteration orders %v the resolved state changes: %s", choices, diff(got, want))
		} else if ogot != owant {
			failure = fmt.Errorf("deprecated entry point: with map/set iteration orders %v the resolved state changes: %s", choices, diff(ogot, owant))
		} else if e := wellFormed(b, res); e != nil {
			failure = e
		}
	})
	for s := range sites {
		if r.State("site:" + s) {
			r.Count("map_order_sites_seen", 1)
		}
		r.Nontrivial("site:" + s)
	}
	return st, failure
}

// ---- (3) topological orderings

type dagCase struct {
	N      int
	Edges  []int // bitmask per node: which earlier nodes it references
	Ext    int   // bitmask: nodes that additionally reference an event outside the set
	TS, ID int   // patterns
	Perm   []int
	Kind   int // 1 prev events, 2 auth events, 3 LineariseStateResponse
	Dup    int // index of a node listed twice, -1 none
	Twice  int `json:",omitempty"` // bitmask: nodes whose own reference list names each referenced event twice
}

func dagEvents(c dagCase) ([]gmsl.PDU, map[string][]string, error) {
	ids := make([]string, c.N)
	for i := range ids {
		n := i
		if c.ID == 1 {
			n = c.N - 1 - i
		}
		ids[i] = fmt.Sprintf("$%d%s:a.org", n, strings.Repeat("e", 3))
	}
	anc := map[string][]string{}
	var out []gmsl.PDU
	ver := gmsl.MustGetRoomVersion("1")
	for i := 0; i < c.N; i++ {
		var refs []string
		for j := 0; j < i; j++ {
			if c.Edges[i]&(1<<j) != 0 {
				refs = append(refs, ids[j])
			}
		}
		anc[ids[i]] = append([]string(nil), refs...)
		if c.Twice&(1<<i) != 0 {
			refs = append(refs, refs...) // nothing forbids an event from citing the same event more than once
		}
		if c.Ext&(1<<i) != 0 {
			refs = append(refs, "$outside:a.org")
		}
		ts := int64(100 + i)
		switch c.TS {
		case 1:
			ts = 100
		case 2:
			ts = int64(200 - i)
		}
		typ, sk := "x.state", fmt.Sprint(i)
		content := `{"n":1}`
		if i == 0 {
			typ, sk, content = "m.room.create", "", `{"creator":"@a:a.org"}`
		}
		e := evgen.Ev{Type: typ, Sender: "@a:a.org", RoomID: "!r:a.org", StateKey: &sk, Content: content, Depth: int64(i + 1), TS: ts, EventID: ids[i]}
		if c.Kind == 1 {
			e.Prev, e.Auth = refs, []string{}
		} else {
			e.Auth, e.Prev = refs, []string{}
		}
		p, err := ver.NewEventFromTrustedJSONWithEventID(ids[i], e.JSON("1"), false)
		if err != nil {
			return nil, nil, err
		}
		out = append(out, p)
	}
	return out, anc, nil
}

type stateResp struct{ auth, state gmsl.EventJSONs }

func (s stateResp) GetAuthEvents() gmsl.EventJSONs  { return s.auth }
func (s stateResp) GetStateEvents() gmsl.EventJSONs { return s.state }

func checkDAG(r *harness.Run, c dagCase) error {
	r.Eval()
	evs, anc, err := dagEvents(c)
	if err != nil {
		return fmt.Errorf("harness: %v", err)
	}
	in := permute(evs, c.Perm)
	if c.Dup >= 0 {
		in = append(in, evs[c.Dup])
	}
	var out []gmsl.PDU
	if p, msg := harness.Try(func() {
		switch c.Kind {
		case 1:
			out = gmsl.ReverseTopologicalOrdering(in, gmsl.TopologicalOrderByPrevEvents)
		case 2:
			out = gmsl.ReverseTopologicalOrdering(in, gmsl.TopologicalOrderByAuthEvents)
		case 3:
			var resp stateResp
			for i, e := range in {
				if i%2 == 0 {
					resp.auth = append(resp.auth, spec.RawJSON(e.JSON()))
				} else {
					resp.state = append(resp.state, spec.RawJSON(e.JSON()))
				}
			}
			if c.Dup >= 0 { // overlap between auth chain and state, as real responses have
				resp.auth = append(resp.auth, spec.RawJSON(evs[c.Dup].JSON()))
				resp.state = append(resp.state, spec.RawJSON(evs[c.Dup].JSON()))
			}
			out = gmsl.LineariseStateResponse("1", resp)
		}
	}); p {
		return fmt.Errorf("ordering panics: %s", msg)
	}
	pos := map[string]int{}
	for i, e := range out {
		if _, dup := pos[e.EventID()]; dup {
			return fmt.Errorf("ordering lists %s twice (input %d events, output %d)", e.EventID(), len(in), len(out))
		}
		pos[e.EventID()] = i
	}
	if len(pos) != c.N {
		return fmt.Errorf("ordering returns %d distinct events for %d distinct inputs", len(pos), c.N)
	}
	for id, as := range anc {
		for _, a := range as {
			if pos[a] > pos[id] {
				return fmt.Errorf("ordering puts %s before its referenced ancestor %s: %v", id, a, idsOf(out))
			}
		}
	}
	return nil
}

// ---------------------------------------------------------------- (4) the auth-chain / conflicted-subgraph walk

type walkCase struct {
	N          int
	Edges      []int // bitmask per node: which earlier nodes it cites as auth events
	RevRefs    bool  // auth events listed newest-first instead of oldest-first
	Conflicted int   // bitmask of conflicted nodes
	StateSet   []int // the state set, in presentation order
}

// checkWalk: the walk's two results are sets defined by the DAG alone - the full auth chain is every ancestor of the
// state set, the conflicted subgraph (v2.1) every event on an auth path from a conflicted event of the state set to a
// conflicted event - so they may not depend on the order of the state set or of the auth-event lists.
func walkEvents(c walkCase) ([]gmsl.PDU, error) {
	d := dagCase{N: c.N, Edges: c.Edges, Kind: 2}
	evs, _, err := dagEvents(d)
	if err != nil {
		return nil, fmt.Errorf("harness: %v", err)
	}
	if c.RevRefs {
		// rebuild with reversed auth lists
		ver := gmsl.MustGetRoomVersion("1")
		for i := range evs {
			ids := evs[i].AuthEventIDs()
			rev := make([]string, len(ids))
			for k, id := range ids {
				rev[len(ids)-1-k] = id
			}
			sk := fmt.Sprint(i)
			typ, content := "x.state", `{"n":1}`
			if i == 0 {
				typ, sk, content = "m.room.create", "", `{"creator":"@a:a.org"}`
			}
			e := evgen.Ev{Type: typ, Sender: "@a:a.org", RoomID: "!r:a.org", StateKey: &sk, Content: content, Depth: int64(i + 1), TS: int64(100 + i), EventID: evs[i].EventID(), Auth: rev, Prev: []string{}}
			p, err := ver.NewEventFromTrustedJSONWithEventID(evs[i].EventID(), e.JSON("1"), false)
			if err != nil {
				return nil, fmt.Errorf("harness: %v", err)
			}
			evs[i] = p
		}
	}
	return evs, nil
}

func checkWalk(r *harness.Run, c walkCase) error {
	evs, err := walkEvents(c)
	if err != nil {
		return err
	}
	return checkWalkOn(r, c, evs)
}

func checkWalkOn(r *harness.Run, c walkCase, evs []gmsl.PDU) error {
	r.Eval()
	var set, conf []gmsl.PDU
	for _, i := range c.StateSet {
		set = append(set, evs[i])
	}
	for i := 0; i < c.N; i++ {
		if c.Conflicted&(1<<i) != 0 {
			conf = append(conf, evs[i])
		}
	}
	// reference: reachability over the edge masks
	reach := make([]int, c.N) // reach[i] = bitmask of nodes reachable from i (including i)
	for i := 0; i < c.N; i++ {
		reach[i] = 1 << i
		for j := 0; j < i; j++ {
			if c.Edges[i]&(1<<j) != 0 {
				reach[i] |= reach[j]
			}
		}
	}
	wantFull, wantSub := 0, 0
	for _, i := range c.StateSet {
		wantFull |= reach[i] &^ (1 << i)
	}
	for _, i := range c.StateSet {
		// ancestors of other state-set members are in the chain even if they are state-set members themselves
		_ = i
	}
	for _, o := range c.StateSet {
		if c.Conflicted&(1<<o) == 0 {
			continue
		}
		for x := 0; x < c.N; x++ {
			if reach[o]&(1<<x) != 0 && reach[x]&c.Conflicted != 0 {
				wantSub |= 1 << x
			}
		}
	}
	for _, algo := range []gmsl.StateResAlgorithm{gmsl.StateResV2, gmsl.StateResV2_1} {
		var full, sub []string
		if p, msg := harness.Try(func() { full, sub = gmsl.VerifConflictedSubgraph(algo, set, conf, evs) }); p {
			return fmt.Errorf("auth-chain walk panics: %s", msg)
		}
		mask := func(ids []string) int {
			m := 0
			for _, id := range ids {
				for i, e := range evs {
					if e.EventID() == id {
						m |= 1 << i
					}
				}
			}
			return m
		}
		if got := mask(full); got != wantFull {
			return fmt.Errorf("algorithm %v: full auth chain of state set %v is %b, the ancestors are %b (edges %v)", algo, c.StateSet, got, wantFull, c.Edges)
		}
		want := wantSub
		if algo == gmsl.StateResV2 {
			want = 0
		}
		if got := mask(sub); got != want {
			return fmt.Errorf("algorithm %v: conflicted subgraph for state set %v (conflicted %b, auth lists reversed=%v) is %b, the events on auth paths between conflicted events are %b (edges %v)", algo, c.StateSet, c.Conflicted, c.RevRefs, got, want, c.Edges)
		}
	}
	return nil
}

func idsOf(l []gmsl.PDU) []string {
	var o []string
	for _, p := range l {
		o = append(o, p.EventID())
	}
	return o
}

func main() { harness.Main("C11", "model_checking", run) }

func run(r *harness.Run) {
	verifhook.Chooser = chooser
	r.Rule("(1) scenarios of C10's generator with conflicts (all single-action branch pairs and a fixed family of two-action pairs; versions 1, 10, 12; three tie-break modes): every order of the state sets, every order of the events inside each set (all k! for k<=4, else identity/reverse/rotations/adjacent swaps), every such order of the auth list, each auth event duplicated (front and back), all-equal sets, and the deprecated flat entry point under every such order of its event and auth lists; (2) on the instrumented build every map range and set Slice() inside the library is a choice point: deviation-bounded DFS (bound B) over non-default iteration orders, both entry points; (3) every labelled DAG on <= N events (edges by prev events / auth events / through LineariseStateResponse, with references to events outside the set, and with reference lists that name the same event twice), 3 timestamp x 2 ID patterns, every presentation order, one event listed twice. Oracles: identical resolved ID set, well-formedness (<=1 event per key, only supplied events, agreed keys kept, equal sets -> that state), topological validity. Non-trivial = distinct map-range site exercised + distinct scenario with a conflict.")
	r.Assume("each order offered for a map range is a legal Go iteration order, so a divergence under instrumentation is a behaviour of the shipped code", "maps larger than 4 are explored with identity/reverse/rotations/adjacent swaps only")
	r.OnReplay("presentation", func(raw json.RawMessage) error {
		var sc scenario
		_ = json.Unmarshal(raw, &sc)
		return checkPresentations(r, sc)
	})
	r.OnReplay("maporder", func(raw json.RawMessage) error {
		var sc scenario
		_ = json.Unmarshal(raw, &sc)
		_, err := checkMapOrders(r, sc, 2)
		return err
	})
	r.OnReplay("dag", func(raw json.RawMessage) error {
		var c dagCase
		_ = json.Unmarshal(raw, &c)
		return checkDAG(r, c)
	})
	r.OnReplay("walk", func(raw json.RawMessage) error {
		var c walkCase
		if err := json.Unmarshal(raw, &c); err != nil {
			return err
		}
		return checkWalk(r, c)
	})
	if r.Replaying() {
		return
	}
	// scenario family
	var scs []scenario
	two := [][2][]string{
		{{"pl-promote-carol", "jr-invite"}, {"bob-kicks-carol", "carol-joins"}},
		{{"pl-bob-self-demote", "alice-bans-bob"}, {"pl-kick-100", "jr-invite"}},
		{{"pl-demote-bob", "topic-alice"}, {"bob-kicks-carol", "topic-bob"}},
		{{"alice-bans-bob", "jr-invite"}, {"bob-invites-dave", "dave-joins"}},
		{{"pl-events-default-50", "topic-alice"}, {"topic-carol", "carol-own-state"}},
		{{"pl-promote-carol", "topic-carol"}, {"jr-invite", "bob-kicks-carol"}},
		{{"carol-leaves", "carol-joins"}, {"bob-bans-carol", "alice-unbans-or-kicks-carol"}},
		{{"pl-kick-100", "alice-kicks-bob"}, {"pl-bob-invite-50", "bob-invites-dave"}},
	}
	for _, ver := range []string{"1", "10", "12"} {
		var names []string
		for _, a := range srgen.Actions(ver) {
			names = append(names, a.Name)
		}
		for _, m := range [][2]int{{0, 0}, {1, 1}, {0, 2}} {
			for i := range names {
				for j := i; j < len(names); j++ {
					if m[0] != 0 && (i+j)%3 != 0 && r.Quick() {
						continue
					}
					scs = append(scs, scenario{Version: ver, IDMode: m[0], TSMode: m[1], A: []string{names[i]}, B: []string{names[j]}})
				}
			}
			// three forks off a shared prefix that already changed the power levels (events hanging off a power-levels
			// event that later loses the resolution)
			for _, pre := range []string{"pl-promote-carol", "pl-events-default-50", "pl-state-default-0"} {
				for _, third := range []string{"pl-demote-bob", "pl-kick-100", "pl-bob-invite-50"} {
					for _, ab := range [][2]string{{"topic-alice", "topic-bob"}, {"topic-bob", "topic-carol"}, {"name-bob", "topic-alice"}, {"carol-leaves", "bob-kicks-carol"}, {"topic-alice", "topic-alice"}} {
						scs = append(scs, scenario{Version: ver, IDMode: m[0], TSMode: m[1], Prefix: []string{pre}, A: []string{ab[0]}, B: []string{ab[1]}, Third: []string{third}})
						scs = append(scs, scenario{Version: ver, IDMode: m[0], TSMode: m[1], Prefix: []string{pre}, A: []string{ab[0]}, B: []string{ab[1]}, Third: []string{third}, ThirdFromBase: true})
					}
				}
			}
			for _, t := range two {
				scs = append(scs, scenario{Version: ver, IDMode: m[0], TSMode: m[1], A: t[0], B: t[1]})
				scs = append(scs, scenario{Version: ver, IDMode: m[0], TSMode: m[1], A: t[0], B: t[1], Third: []string{"topic-bob"}})
			}
		}
	}
	r.Count("scenarios", int64(len(scs)))
	// (1) presentations: verifhook.Chooser returns nil (canonical orders) because curCtx is nil: safe to run in parallel
	r.Parallel(len(scs), func(i int) {
		if err := checkPresentations(r, scs[i]); err != nil {
			what := "changes"
			if strings.Contains(err.Error(), "panics") {
				what = "PANIC"
			} else if strings.Contains(err.Error(), "deprecated") {
				what = "deprecated-entry-point"
			} else if !strings.Contains(err.Error(), "changes the resolved state") {
				what = "malformed"
			}
			r.Violation(fmt.Sprintf("presentation:%s/%s:%v|%v|%v:%d%d", scs[i].Version, what, scs[i].A, scs[i].B, scs[i].Third, scs[i].IDMode, scs[i].TSMode), err.Error(), "presentation", scs[i])
		} else {
			r.Nontrivial(fmt.Sprintf("sc:%+v", scs[i]))
		}
	})
	// (2) map orders: sequential (process-global chooser); the conflict-rich two-action family first
	B := r.Pick(1, 2)
	r.Budget(map[bool]time.Duration{true: 60 * time.Second, false: 30 * time.Minute}[r.Quick()])
	var mo []scenario
	for _, s := range scs {
		if len(s.A) == 2 || len(s.Prefix) > 0 {
			mo = append(mo, s)
		}
	}
	for _, s := range scs {
		if len(s.A) == 1 && s.IDMode == 0 && (s.A[0] != s.B[0]) {
			mo = append(mo, s)
		}
	}
	if r.Quick() && len(mo) > 700 {
		mo = mo[:700] // the quick tier explores the first 700 scenarios of the (deterministic) list completely
	}
	done := 0
	for _, s := range mo {
		if r.Expired() {
			r.Cap(fmt.Sprintf("map-order exploration: wall-clock budget reached after %d of %d scenarios (conflict-rich family first)", done, len(mo)))
			break
		}
		st, err := checkMapOrders(r, s, B)
		r.Count("map_order_executions", st.Executions)
		r.Transition(st.ChoicePts)
		if err != nil {
			r.Violation(fmt.Sprintf("maporder:%s:%v|%v|%v:%d%d", s.Version, s.A, s.B, s.Third, s.IDMode, s.TSMode), err.Error(), "maporder", s)
		}
		done++
	}
	r.Count("map_order_scenarios_completed", int64(done))
	// (3) DAGs
	N := r.Pick(4, 5)
	var dags []dagCase
	for n := 1; n <= N; n++ {
		nEdges := n * (n - 1) / 2
		for mask := 0; mask < 1<<nEdges; mask++ {
			edges := make([]int, n)
			bit := 0
			for i := 0; i < n; i++ {
				for j := 0; j < i; j++ {
					if mask&(1<<bit) != 0 {
						edges[i] |= 1 << j
					}
					bit++
				}
			}
			for _, ext := range []int{0, 1 << (n - 1), (1 << n) - 1} {
				dags = append(dags, dagCase{N: n, Edges: edges, Ext: ext})
			}
			// reference lists that repeat their entries: on the last node, on every node, on every node but the last
			if n >= 2 && mask != 0 {
				for _, tw := range []int{1 << (n - 1), (1 << n) - 1, (1 << (n - 1)) - 1} {
					dags = append(dags, dagCase{N: n, Edges: edges, Twice: tw})
				}
			}
		}
	}
	r.Parallel(len(dags), func(i int) {
		d := dags[i]
		for _, perm := range explore.Perms(d.N) {
			for ts := 0; ts < 3; ts++ {
				for id := 0; id < 2; id++ {
					for kind := 1; kind <= 3; kind++ {
						for _, dup := range []int{-1, 0, d.N - 1} {
							if dup >= 0 && (ts != 0 || id != 0) {
								continue
							}
							c := dagCase{N: d.N, Edges: d.Edges, Ext: d.Ext, TS: ts, ID: id, Perm: perm, Kind: kind, Dup: dup, Twice: d.Twice}
							if err := checkDAG(r, c); err != nil {
								r.Violation(fmt.Sprintf("dag:kind%d/%s:n=%d edges=%v ext=%d tw=%d ts=%d id=%d perm=%v dup=%d", kind, strings.SplitN(err.Error(), " ", 3)[1], d.N, d.Edges, d.Ext, d.Twice, ts, id, perm, dup), err.Error(), "dag", c)
							}
						}
					}
				}
			}
		}
	})
	// (4) the auth-chain / conflicted-subgraph walk on every small DAG
	WN := r.Pick(5, 6)
	var walkDags []dagCase
	for n := 2; n <= WN; n++ {
		nEdges := n * (n - 1) / 2
		for mask := 0; mask < 1<<nEdges; mask++ {
			edges := make([]int, n)
			bit := 0
			for i := 0; i < n; i++ {
				for j := 0; j < i; j++ {
					if mask&(1<<bit) != 0 {
						edges[i] |= 1 << j
					}
					bit++
				}
			}
			walkDags = append(walkDags, dagCase{N: n, Edges: edges})
		}
	}
	var walks atomic.Int64
	r.Parallel(len(walkDags), func(i int) {
		d := walkDags[i]
		prebuilt := map[bool][]gmsl.PDU{}
		for _, rv := range []bool{false, true} {
			evs, err := walkEvents(walkCase{N: d.N, Edges: d.Edges, RevRefs: rv})
			if err != nil {
				panic(err)
			}
			prebuilt[rv] = evs
		}
		for conf := 1; conf < 1<<d.N; conf++ {
			if bits.OnesCount(uint(conf)) < 2 {
				continue
			}
			// the state set: the conflicted events plus every event nothing else cites (the tips)
			cited := 0
			for _, e := range d.Edges {
				cited |= e
			}
			var set []int
			for k := 0; k < d.N; k++ {
				if conf&(1<<k) != 0 || cited&(1<<k) == 0 {
					set = append(set, k)
				}
			}
			perms := explore.Perms(len(set))
			if len(set) > 4 {
				perms = perms[:0]
				id := make([]int, len(set))
				for k := range id {
					id[k] = k
				}
				perms = append(perms, id)
				rev := make([]int, len(set))
				for k := range rev {
					rev[k] = len(set) - 1 - k
				}
				perms = append(perms, rev)
				for rot := 1; rot < len(set); rot++ {
					p := make([]int, len(set))
					for k := range p {
						p[k] = (k + rot) % len(set)
					}
					perms = append(perms, p)
				}
			}
			for _, pm := range perms {
				for _, revRefs := range []bool{false, true} {
					c := walkCase{N: d.N, Edges: d.Edges, RevRefs: revRefs, Conflicted: conf, StateSet: permute(set, pm)}
					walks.Add(1)
					if err := checkWalkOn(r, c, prebuilt[revRefs]); err != nil {
						r.Violation(fmt.Sprintf("walk:n=%d:edges=%v conf=%b set=%v rev=%v", d.N, d.Edges, conf, c.StateSet, revRefs), err.Error(), "walk", c)
						return
					}
				}
			}
		}
	})
	r.Count("subgraph_walks", walks.Load())
	r.Count("dags", int64(len(dags)))
	r.Sample("dag", dagCase{N: 4, Edges: []int{0, 1, 1, 6}, TS: 2, ID: 1, Perm: []int{3, 1, 0, 2}, Kind: 2, Dup: -1})
	r.Sample("presentation", scs[len(scs)-1])
	r.Extra("bounds", map[string]int{"map_order_deviations": B, "dag_nodes": N})
}
