// C13 — federation request authentication binds method, URI, origin, destination, body.
package main

import (
	"bytes"
	"context"
	"encoding/base64"
	"encoding/json"
	"fmt"
	"io"
	"net/http"
	"strings"
	"testing/iotest"
	"time"
	"unicode/utf8"

	gmsl "github.com/matrix-org/gomatrixserverlib"
	"github.com/matrix-org/gomatrixserverlib/fclient"
	"github.com/matrix-org/gomatrixserverlib/spec"
	"github.com/matrix-org/gomatrixserverlib/verifhook"

	"verif/mc/evgen"
	"verif/mc/explore"
	"verif/mc/harness"
	"verif/mc/ref/refids"
	"verif/mc/ref/refjson"
)

const nowMS = int64(1_700_000_000_000)

var names = []string{"a.org", "b.org:8448", "1.2.3.4", "[::1]:8448"}

// invalidOrigins are not server names at all; requests correctly signed under such a name (the key database knows a key
// for it) must still be refused
var invalidOrigins = []string{"[fe80::1%eth0]", "[::1%1]:8448", "::1", "[1.2.3.4]", "a b.org", "a.org:", "a.org:999999", "a_b.org", "[::1", "é.org"}
var keyIDs = []string{"ed25519:1", "ed25519:a_b"}

func keyOf(server, kid string) evgen.Key {
	seed := byte(1)
	for i, n := range names {
		if n == server {
			seed = byte(10 + i*4)
		}
	}
	if kid == keyIDs[1] {
		seed++
	}
	return evgen.NewKey(server, kid, seed)
}

type db struct{ keyState string }

func (d *db) FetcherName() string { return "scripted-db" }
func (d *db) FetchKeys(ctx context.Context, reqs map[gmsl.PublicKeyLookupRequest]spec.Timestamp) (map[gmsl.PublicKeyLookupRequest]gmsl.PublicKeyLookupResult, error) {
	out := map[gmsl.PublicKeyLookupRequest]gmsl.PublicKeyLookupResult{}
	for rq := range reqs {
		known := false
		for _, n := range invalidOrigins {
			if string(rq.ServerName) == n {
				known = true
			}
		}
		for _, n := range names {
			for _, k := range keyIDs {
				if string(rq.ServerName) == n && string(rq.KeyID) == k {
					known = true
				}
			}
		}
		if !known {
			continue
		}
		k := keyOf(string(rq.ServerName), string(rq.KeyID))
		res := gmsl.PublicKeyLookupResult{VerifyKey: gmsl.VerifyKey{Key: spec.Base64Bytes(k.Pub)}, ValidUntilTS: spec.Timestamp(nowMS + 86_400_000)}
		switch d.keyState {
		case "stale":
			res.ValidUntilTS = spec.Timestamp(nowMS - 1)
		case "valid-until-now":
			res.ValidUntilTS = spec.Timestamp(nowMS)
		case "expired":
			res.ValidUntilTS, res.ExpiredTS = 0, spec.Timestamp(nowMS)
		case "expired-later":
			res.ValidUntilTS, res.ExpiredTS = 0, spec.Timestamp(nowMS+1)
		case "unknown":
			continue
		}
		out[rq] = res
	}
	return out, nil
}
func (d *db) StoreKeys(context.Context, map[gmsl.PublicKeyLookupRequest]gmsl.PublicKeyLookupResult) error {
	return nil
}

// wire is the transmitted request.
type wire struct {
	Method   string
	URI      string
	Body     []byte
	CType    *string
	Auth     []string // Authorization header values
	Default  string   // receiver's default name
	Local    []string // nil = no isLocalServerName callback
	KeyState string
	// Framing is how the body reaches the receiver: 0 = reader of known length (Content-Length), 1 = unknown length
	// (Transfer-Encoding: chunked: net/http reports ContentLength -1), 2 = known length delivered one byte per Read,
	// 3 = unknown length delivered one byte per Read
	Framing int `json:",omitempty"`
}

type onlyReader struct{ r io.Reader } // hides Len() and the concrete type, so that net/http cannot work out a length

func (o onlyReader) Read(p []byte) (int, error) { return o.r.Read(p) }

type param struct{ name, value string }

// refParse is the reference X-Matrix header grammar: scheme SP params; params separated by commas,
// name=value with optional whitespace around either and optional double quotes around the value.
func refParse(h string) (scheme string, ps map[string]string) {
	ps = map[string]string{}
	i := strings.IndexByte(h, ' ')
	if i < 0 {
		return h, ps
	}
	scheme = h[:i]
	for _, p := range strings.Split(h[i+1:], ",") {
		j := strings.IndexByte(p, '=')
		if j < 0 {
			continue
		}
		n := strings.TrimSpace(p[:j])
		v := strings.Trim(strings.TrimSpace(p[j+1:]), `"`)
		ps[n] = v
	}
	return
}

func signingObject(method, uri, origin, dest string, body []byte) []byte {
	var m []string
	m = append(m, `"method":`+string(refjson.AppendString(nil, method)), `"uri":`+string(refjson.AppendString(nil, uri)),
		`"origin":`+string(refjson.AppendString(nil, origin)), `"destination":`+string(refjson.AppendString(nil, dest)))
	if len(body) > 0 {
		m = append(m, `"content":`+string(body))
	}
	return []byte("{" + strings.Join(m, ",") + "}")
}

// expected: reference verdict for a transmitted request.
func expected(w wire) (accept bool, origin, dest string, why string) {
	if len(w.Body) > 0 {
		if w.CType == nil {
			return false, "", "", "body without content type"
		}
		ct := strings.ToLower(strings.TrimSpace(strings.SplitN(*w.CType, ";", 2)[0]))
		if ct != "application/json" {
			return false, "", "", "content type"
		}
		if !utf8.Valid(w.Body) {
			return false, "", "", "body not UTF-8"
		}
	}
	type cand struct{ key, sig string }
	var cands []cand
	seenDest := false
	for _, h := range w.Auth {
		scheme, ps := refParse(h)
		if scheme != "X-Matrix" {
			continue
		}
		if ps["origin"] == "" || ps["key"] == "" || ps["sig"] == "" {
			return false, "", "", "malformed X-Matrix header"
		}
		if origin != "" && origin != ps["origin"] {
			return false, "", "", "different origins"
		}
		origin = ps["origin"]
		dest = ps["destination"]
		seenDest = true
		cands = append(cands, cand{ps["key"], ps["sig"]})
	}
	_ = seenDest
	if origin == "" {
		return false, "", "", "no X-Matrix header"
	}
	if dest == "" {
		dest = w.Default
	} else if w.Local != nil {
		ok := false
		for _, l := range w.Local {
			if l == dest {
				ok = true
			}
		}
		if !ok {
			return false, "", "", "destination not local"
		}
	} else if dest != w.Default {
		return false, "", "", "destination not ours"
	}
	if _, _, ok := refids.ServerName(origin); !ok {
		return false, "", "", "invalid origin"
	}
	switch w.KeyState {
	case "stale", "expired", "unknown":
		return false, "", "", "key not valid now"
	}
	v, _, err := refjson.Parse(signingObject(w.Method, w.URI, origin, dest, w.Body))
	if err != nil {
		return false, "", "", "body not JSON"
	}
	for _, c := range cands {
		known := false
		for _, n := range names {
			for _, k := range keyIDs {
				if n == origin && k == c.key {
					known = true
				}
			}
		}
		if !known {
			continue
		}
		want := base64.RawStdEncoding.EncodeToString(evgen.ObjectSignature(v, keyOf(origin, c.key)))
		if c.sig == want {
			return true, origin, dest, ""
		}
	}
	return false, "", "", "no valid signature"
}

var vnow = time.UnixMilli(nowMS)

func deliver(w wire) (*fclient.FederationRequest, int, error) {
	req, err := http.NewRequest(w.Method, "http://receiver"+w.URI, bytes.NewReader(w.Body))
	if err != nil {
		return nil, 0, err
	}
	if len(w.Body) == 0 {
		req.Body = io.NopCloser(bytes.NewReader(nil))
	}
	switch w.Framing {
	case 1:
		req.Body, req.ContentLength, req.TransferEncoding = io.NopCloser(onlyReader{bytes.NewReader(w.Body)}), -1, []string{"chunked"}
	case 2:
		req.Body = io.NopCloser(iotest.OneByteReader(bytes.NewReader(w.Body)))
	case 3:
		req.Body, req.ContentLength, req.TransferEncoding = io.NopCloser(iotest.OneByteReader(bytes.NewReader(w.Body))), -1, []string{"chunked"}
	}
	if w.CType != nil {
		req.Header.Set("Content-Type", *w.CType)
	}
	for _, a := range w.Auth {
		req.Header.Add("Authorization", a)
	}
	var isLocal func(spec.ServerName) bool
	if w.Local != nil {
		isLocal = func(s spec.ServerName) bool {
			for _, l := range w.Local {
				if l == string(s) {
					return true
				}
			}
			return false
		}
	}
	ring := &gmsl.KeyRing{KeyDatabase: &db{w.KeyState}}
	fr, resp := fclient.VerifyHTTPRequest(req, vnow, spec.ServerName(w.Default), isLocal, ring)
	return fr, resp.Code, nil
}

func checkWire(r *harness.Run, w wire, label string) error {
	r.Eval()
	accept, origin, dest, why := expected(w)
	var fr *fclient.FederationRequest
	var code int
	var err error
	if p, msg := harness.Try(func() { fr, code, err = deliver(w) }); p {
		return fmt.Errorf("%s: VerifyHTTPRequest panics: %s", label, msg)
	}
	if err != nil {
		return nil // not a transmissible request (net/http refuses to build it)
	}
	if accept {
		r.Outcome("accept")
		if fr == nil || code != 200 {
			return fmt.Errorf("%s: validly signed request refused with %d (method %s uri %s auth %q)", label, code, w.Method, w.URI, w.Auth)
		}
		if fr.Method() != w.Method || fr.RequestURI() != w.URI || string(fr.Origin()) != origin || string(fr.Destination()) != dest || !bytes.Equal(fr.Content(), w.Body) {
			return fmt.Errorf("%s: accepted request reports (%s %s %s %s %q), transmitted (%s %s %s %s %q)", label, fr.Method(), fr.RequestURI(), fr.Origin(), fr.Destination(), fr.Content(), w.Method, w.URI, origin, dest, w.Body)
		}
		return nil
	}
	r.Outcome("refuse:" + why)
	if fr != nil || code == 200 {
		return fmt.Errorf("%s: request must be refused (%s) but was accepted: method %s uri %s ctype %v auth %q default %s local %v key %s", label, why, w.Method, w.URI, w.CType, w.Auth, w.Default, w.Local, w.KeyState)
	}
	if code < 400 || code > 599 {
		return fmt.Errorf("%s: refused with status %d", label, code)
	}
	return nil
}

type base struct {
	Method, URI, Origin, Dest, KeyID string
	Body                             string
	RawBody                          []byte
}

// send builds the request with the real client-side API and returns what goes on the wire.
func send(b base) (wire, error) {
	fr := fclient.NewFederationRequest(b.Method, spec.ServerName(b.Origin), spec.ServerName(b.Dest), b.URI)
	if b.Body != "" || b.RawBody != nil {
		raw := json.RawMessage(b.Body)
		if b.RawBody != nil {
			raw = json.RawMessage(b.RawBody)
		}
		if err := fr.SetContent(raw); err != nil {
			return wire{}, err
		}
	}
	k := keyOf(b.Origin, b.KeyID)
	if err := fr.Sign(spec.ServerName(b.Origin), gmsl.KeyID(b.KeyID), k.Priv); err != nil {
		return wire{}, err
	}
	hr, err := fr.HTTPRequest()
	if err != nil {
		return wire{}, err
	}
	w := wire{Method: hr.Method, URI: hr.URL.RequestURI(), Auth: hr.Header["Authorization"], Default: b.Dest}
	if hr.Body != nil {
		w.Body, _ = io.ReadAll(hr.Body)
	}
	if ct := hr.Header.Get("Content-Type"); ct != "" {
		w.CType = &ct
	}
	return w, nil
}

func clone(w wire) wire {
	n := w
	n.Body = append([]byte(nil), w.Body...)
	n.Auth = append([]string(nil), w.Auth...)
	if w.Local != nil {
		n.Local = append([]string(nil), w.Local...)
	}
	return n
}

func sp(s string) *string { return &s }

// rewrite the single X-Matrix header from its parameters in a given order/spelling
func render(ps []param, sep, eq string, quote bool) string {
	var parts []string
	for _, p := range ps {
		v := p.value
		if quote {
			v = `"` + v + `"`
		}
		parts = append(parts, p.name+eq+v)
	}
	return "X-Matrix " + strings.Join(parts, sep)
}

func main() { harness.Main("C13", "model_checking", run) }

func run(r *harness.Run) {
	verifhook.Clock = func() time.Time { return vnow }
	r.Rule("requests built with the real client API over {5 methods} x {5 URIs} x {4 bodies incl. a signed non-UTF-8 body} x {4 origins + 10 invalid origin names, correctly signed} x {4 destinations} x {2 key IDs} x receiver configurations (single name / several local names); for each: the untampered delivery, every single-field tampering (method, path, query, each body byte class, content type, origin, destination, key ID, one signature character, header dropped, scheme changed, key validity states at 'now'), every header-syntax variant (all 24 parameter orders x separators x spacing x quoting: neutral; empty / missing parameters, repeated headers with same / different origins, unknown scheme first), and pairs of tamperings (deviation-bounded DFS, bound 2); real VerifyHTTPRequest + KeyRing over a scripted key database, virtual clock. Oracle: reference header grammar + reference signing object + exact reference ed25519 signature. Untampered and singly tampered requests are additionally delivered under 3 other body framings (chunked / unknown length, one byte per read, both).")
	r.Assume("ed25519 deterministic and trusted", "requests whose URI net/http refuses to build are not transmissible and are skipped")
	r.OnReplay("wire", func(raw json.RawMessage) error {
		var w wire
		if err := json.Unmarshal(raw, &w); err != nil {
			return err
		}
		return checkWire(r, w, "replay")
	})
	if r.Replaying() {
		return
	}
	viol := func(class string, w wire, err error) {
		if err != nil {
			r.Violation(fmt.Sprintf("%s:%s %s auth=%q body=%q ctype=%v default=%s local=%v key=%s", class, w.Method, w.URI, w.Auth, w.Body, w.CType != nil, w.Default, w.Local, w.KeyState), err.Error(), "wire", w)
		}
	}
	methods := []string{"GET", "PUT", "POST", "DELETE", "get"}
	uris := []string{"/_matrix/federation/v1/send/1", "/a?b=c&d=e", "/a%2Fb%20c", "/a?", "/x/y?z=%2F"}
	bodies := []base{{Body: ""}, {Body: `{}`}, {Body: `{"a":{"b":[1,2,"é"]}}`}, {RawBody: []byte("{\"a\":\"\xff\xfe\"}")}}
	var bases []base
	for _, m := range methods {
		for _, u := range uris {
			for bi, b := range bodies {
				for oi, o := range names {
					for di, d := range names {
						for ki, k := range keyIDs {
							// full product of the small dimensions; origins/destinations/keys fully crossed only for the first method/URI/body
							if (oi != 0 || di != 1 || ki != 0) && !(m == "PUT" && u == uris[0] && bi == 2) && r.Quick() {
								continue
							}
							nb := b
							nb.Method, nb.URI, nb.Origin, nb.Dest, nb.KeyID = m, u, o, d, k
							bases = append(bases, nb)
						}
					}
				}
			}
		}
	}
	for _, o := range invalidOrigins {
		for _, bb := range []base{bodies[0], bodies[2]} {
			nb := bb
			nb.Method, nb.URI, nb.Origin, nb.Dest, nb.KeyID = "PUT", uris[0], o, names[1], keyIDs[0]
			bases = append(bases, nb)
		}
	}
	// large bodies and what an accepted request reports LATER: body sizes around the powers of two at which an implementation
	// may switch to pooled or chunked reading; each accepted request is looked at again after every later delivery (accepted
	// or refused, large or small) to the same process - what it reports must still be what was signed.
	{
		sizes := r.PickInts([]int{100, 4095, 4096, 4097, 8191, 8192, 8193, 16385, 65537}, []int{100, 1023, 1024, 1025, 4095, 4096, 4097, 8191, 8192, 8193, 16383, 16384, 16385, 32769, 65535, 65536, 65537, 262145, 1048577})
		type kept struct {
			fr   *fclient.FederationRequest
			body []byte
			n    int
		}
		var accepted []kept
		recheck := func(after string) {
			for _, k := range accepted {
				if !bytes.Equal(k.fr.Content(), k.body) {
					got := k.fr.Content()
					if len(got) > 60 {
						got = got[:60]
					}
					r.Violation(fmt.Sprintf("wire-later:size=%d:after=%s", k.n, after), fmt.Sprintf("request with a %d-byte body was accepted and reported its body as signed; after %s it reports a body starting %q", k.n, after, got), "none", nil)
				}
			}
		}
		for _, n := range sizes {
			body := `{"pad":"` + strings.Repeat("a", n-10) + `"}`
			b := base{Method: "PUT", URI: uris[0], Origin: names[0], Dest: names[1], KeyID: keyIDs[0], Body: body}
			w, err := send(b)
			if err != nil {
				continue
			}
			for _, f := range []int{0, 1, 2} {
				wf := clone(w)
				wf.Framing = f
				viol(fmt.Sprintf("wire-large:size=%d:framing=%d", n, f), wf, checkWire(r, wf, fmt.Sprintf("body of %d bytes, framing %d", n, f)))
				if fr, code, derr := deliver(wf); derr == nil && fr != nil && code == 200 {
					accepted = append(accepted, kept{fr, append([]byte(nil), wf.Body...), n})
				}
				recheck(fmt.Sprintf("an accepted request of %d bytes", n))
				// a refused one of the same size: the body is read before anything is verified
				forged := clone(wf)
				forged.Body = []byte(`{"pad":"` + strings.Repeat("F", n-10) + `"}`)
				_, _, _ = deliver(forged)
				recheck(fmt.Sprintf("a refused request of %d bytes", n))
			}
		}
		r.Count("large_body_sizes", int64(len(sizes)))
	}
	r.Count("base_requests", int64(len(bases)))
	r.Parallel(len(bases), func(bi int) {
		b := bases[bi]
		w0, err := send(b)
		if err != nil {
			r.Count("not_constructible", 1)
			return
		}
		// tamperings as a choice tree: each point either keeps the transmitted value or picks an alternative
		explore.Explore(explore.Options{Bound: r.Pick(2, 3), Workers: 1}, func(x *explore.Ctx) {
			w := clone(w0)
			var applied []string
			tam := func(name string, n int, f func(alt int)) {
				if a := x.Choose(n+1, name); a > 0 {
					f(a - 1)
					applied = append(applied, fmt.Sprintf("%s#%d", name, a-1))
				}
			}
			tam("method", 2, func(a int) { w.Method = []string{"PATCH", strings.ToLower(w.Method)}[a] })
			tam("uri", 4, func(a int) {
				switch a {
				case 0:
					w.URI += "x"
				case 1:
					if strings.Contains(w.URI, "?") {
						w.URI += "&q=1"
					} else {
						w.URI += "?q=1"
					}
				case 2:
					w.URI = strings.Replace(w.URI, "%2F", "/", 1) + ""
				case 3:
					w.URI = "/" + w.URI
				}
			})
			if len(w.Body) > 0 {
				tam("body", 5, func(a int) {
					switch a {
					case 0:
						w.Body[len(w.Body)/2] ^= 1
					case 1:
						w.Body = append(w.Body, ' ')
					case 2:
						w.Body = []byte("{\"a\":\"\xff\"}")
					case 3:
						w.Body = nil
					case 4:
						w.Body = append([]byte(" "), w.Body...)
					}
				})
				tam("ctype", 4, func(a int) {
					switch a {
					case 0:
						w.CType = sp("text/plain")
					case 1:
						w.CType = nil
					case 2:
						w.CType = sp("application/json; charset=utf-8") // neutral
					case 3:
						w.CType = sp("application/jsonx")
					}
				})
			} else {
				tam("body-added", 4, func(a int) {
					switch a {
					case 0:
						w.Body, w.CType = []byte(`{}`), sp("application/json")
					case 1: // a body injected in transit, with no content type at all
						w.Body, w.CType = []byte(`{"injected":true}`), nil
					case 2:
						w.Body, w.CType = []byte("not json"), nil
					case 3:
						w.Body, w.CType = []byte(`{"injected":true}`), sp("text/plain")
					}
				})
			}
			// header-level
			_, ps := refParse(w.Auth[0])
			plist := []param{{"origin", ps["origin"]}, {"key", ps["key"]}, {"sig", ps["sig"]}, {"destination", ps["destination"]}}
			tam("origin", 3, func(a int) {
				plist[0].value = []string{"c.org", names[(indexOf(names, ps["origin"])+1)%len(names)], "not a name"}[a]
			})
			tam("destination", 3, func(a int) {
				switch a {
				case 0:
					plist[3].value = names[(indexOf(names, ps["destination"])+1)%len(names)]
				case 1:
					plist = plist[:3] // destination omitted: receiver assumes its default name
				case 2:
					plist[3].value = strings.ToUpper(ps["destination"])
				}
			})
			tam("key", 2, func(a int) { plist[1].value = []string{keyIDs[(indexOf(keyIDs, ps["key"])+1)%2], "rsa:1"}[a] })
			tam("sig", 3, func(a int) {
				s := []byte(plist[2].value)
				switch a {
				case 0:
					if s[3] == 'A' {
						s[3] = 'B'
					} else {
						s[3] = 'A'
					}
				case 1:
					s = s[:len(s)-2]
				case 2:
					s = []byte("")
				}
				plist[2].value = string(s)
			})
			sep, eq, quote := ",", "=", true
			tam("syntax", 6, func(a int) {
				switch a {
				case 0:
					sep = ", "
				case 1:
					sep = " ,\t"
				case 2:
					eq = " = "
				case 3:
					quote = false
				case 4:
					sep, eq, quote = " , ", " =\t", false
				case 5:
					plist = append([]param{{"unknown", "x"}}, plist...)
				}
			})
			perms := explore.Perms(len(plist))
			if pi := x.Choose(len(perms), "param-order"); pi > 0 {
				np := make([]param, len(plist))
				for i, j := range perms[pi] {
					np[i] = plist[j]
				}
				plist = np
				applied = append(applied, fmt.Sprintf("order#%d", pi))
			}
			w.Auth = []string{render(plist, sep, eq, quote)}
			tam("headers", 7, func(a int) {
				switch a {
				case 0:
					w.Auth = nil
				case 1:
					w.Auth = []string{strings.Replace(w.Auth[0], "X-Matrix", "Bearer", 1)}
				case 2:
					w.Auth = append([]string{"Bearer abc"}, w.Auth...)
				case 3: // second header, same origin, junk signature under the other key ID
					other := keyIDs[(indexOf(keyIDs, ps["key"])+1)%2]
					w.Auth = append(w.Auth, fmt.Sprintf(`X-Matrix origin="%s",key="%s",sig="%s",destination="%s"`, plist0(plist, "origin"), other, "AAAA", plist0(plist, "destination")))
				case 4: // second header from a different origin
					w.Auth = append(w.Auth, `X-Matrix origin="c.org",key="ed25519:1",sig="AAAA",destination="`+plist0(plist, "destination")+`"`)
				case 5: // second header, same origin, differing only in case
					w.Auth = append(w.Auth, fmt.Sprintf(`X-Matrix origin="%s",key="ed25519:9",sig="AAAA",destination="%s"`, strings.ToUpper(plist0(plist, "origin")), plist0(plist, "destination")))
				case 6:
					w.Auth = []string{"X-Matrix"}
				}
			})
			tam("receiver", 4, func(a int) {
				switch a {
				case 0:
					w.Default = "other.org" // not addressed to us, no callback
				case 1:
					w.Default, w.Local = "other.org", []string{"other.org", w0.Default} // secondary name owned
				case 2:
					w.Default, w.Local = "other.org", []string{"other.org"} // callback, but name not owned
				case 3:
					w.Local = []string{} // callback owning nothing
				}
			})
			tam("keystate", 5, func(a int) {
				w.KeyState = []string{"stale", "valid-until-now", "expired", "expired-later", "unknown"}[a]
			})
			label := "untampered"
			if len(applied) > 0 {
				label = strings.Join(applied, "+")
			}
			err := checkWire(r, w, label)
			viol("wire:"+label, w, err)
			if len(applied) <= 1 && err == nil {
				// the verdict is about what was sent, not about how the transport framed it
				for f := 1; f <= 3; f++ {
					wf := clone(w)
					wf.Framing = f
					viol(fmt.Sprintf("wire-framing%d:%s", f, label), wf, checkWire(r, wf, fmt.Sprintf("%s, body framing %d", label, f)))
				}
			}
			if len(applied) <= 1 {
				r.Nontrivial(fmt.Sprintf("%d|%s", bi, label))
			}
			if len(applied) == 2 && r.WantSample("tampered-pair") {
				r.Sample("tampered-pair", map[string]interface{}{"base": b, "applied": applied, "auth": w.Auth})
			}
		})
	})
	r.Sample("base", bases[0])
}

func indexOf(l []string, s string) int {
	for i, x := range l {
		if x == s {
			return i
		}
	}
	return 0
}

func plist0(ps []param, name string) string {
	for _, p := range ps {
		if p.name == name {
			return p.value
		}
	}
	return ""
}
