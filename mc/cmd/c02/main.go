// C02 — JSON signatures: complete for the signer, sound against any tampering.
// Explicit-state exploration of operation sequences (sign / re-serialise /
// edit unsigned) on generated JSON objects; after every step the real
// VerifyJSON / ListKeyIDs are compared with reference signatures, and every
// single-member mutation of every distinct reached state must fail to verify.
package main

import (
	"bytes"
	"encoding/base64"
	"encoding/json"
	"fmt"
	"sort"
	"strings"

	gmsl "github.com/matrix-org/gomatrixserverlib"

	"verif/mc/evgen"
	"verif/mc/harness"
	"verif/mc/ref/refjson"
)

var keys = []evgen.Key{
	evgen.NewKey("a.org", "ed25519:1", 1),
	evgen.NewKey("a.org", "ed25519:a_B+/-.0", 2), // same entity, second key ID (a key ID is an opaque string: base64 and device-style IDs carry + / - .)
	evgen.NewKey("b.org:8448", "ed25519:1", 3),
}
var foreign = evgen.NewKey("c.org", "ed25519:zz", 9)

// ---- presentations ---------------------------------------------------------

func uEscape(s string) string {
	var sb strings.Builder
	sb.WriteByte('"')
	for _, r := range s {
		if r >= 0x10000 {
			r -= 0x10000
			fmt.Fprintf(&sb, `\u%04x\u%04X`, 0xD800+(r>>10), 0xDC00+(r&0x3ff))
		} else {
			fmt.Fprintf(&sb, `\u%04x`, r)
		}
	}
	sb.WriteByte('"')
	return sb.String()
}

// present serialises v: mode 0 canonical; 1 reversed member order + spaces;
// 2 every string and key spelled with \uXXXX escapes; 3 newlines/tabs, "\/" spelling, -0 for 0.
func present(v *refjson.Value, mode int) []byte {
	if mode == 0 {
		return refjson.Emit(nil, v, true)
	}
	var sb strings.Builder
	str := func(s string) {
		switch mode {
		case 2:
			sb.WriteString(uEscape(s))
		case 3:
			sb.WriteString(strings.ReplaceAll(string(refjson.AppendString(nil, s)), "/", `\/`))
		default:
			sb.Write(refjson.AppendString(nil, s))
		}
	}
	sp := map[int]string{1: " ", 2: "", 3: "\n\t"}[mode]
	var w func(v *refjson.Value)
	w = func(v *refjson.Value) {
		switch v.Kind {
		case refjson.String:
			str(v.Str)
		case refjson.Number:
			if mode == 3 && v.Num == "0" {
				sb.WriteString("-0")
			} else {
				sb.WriteString(v.Num)
			}
		case refjson.Array:
			sb.WriteString("[" + sp)
			for i, e := range v.Elems {
				if i > 0 {
					sb.WriteString("," + sp)
				}
				w(e)
			}
			sb.WriteString(sp + "]")
		case refjson.Object:
			ms := append([]refjson.Member(nil), v.Members...)
			if mode == 1 {
				for i, j := 0, len(ms)-1; i < j; i, j = i+1, j-1 {
					ms[i], ms[j] = ms[j], ms[i]
				}
			}
			sb.WriteString("{" + sp)
			for i, m := range ms {
				if i > 0 {
					sb.WriteString("," + sp)
				}
				str(m.Key)
				sb.WriteString(sp + ":" + sp)
				w(m.Val)
			}
			sb.WriteString(sp + "}")
		default:
			sb.Write(refjson.Emit(nil, v, true))
		}
	}
	w(v)
	return []byte(sb.String())
}

// ---- state ------------------------------------------------------------------

type state struct {
	text   []byte
	signed map[string]bool // "server|keyid" that signed the current signed content
	ops    []string
}

func parse(b []byte) *refjson.Value {
	v, _, err := refjson.Parse(b)
	if err != nil {
		panic(fmt.Sprintf("harness: not JSON: %s: %v", b, err))
	}
	return v
}

func getSig(v *refjson.Value, server, kid string) (string, bool) {
	s := evgen.Get(evgen.Get(evgen.Get(v, "signatures"), server), kid)
	if s == nil || s.Kind != refjson.String {
		return "", false
	}
	return s.Str, true
}

func without(v *refjson.Value, keys ...string) *refjson.Value {
	out := &refjson.Value{Kind: refjson.Object}
	for _, m := range v.Members {
		skip := false
		for _, k := range keys {
			if m.Key == k {
				skip = true
			}
		}
		if !skip {
			out.Members = append(out.Members, m)
		}
	}
	return out
}

func with(v *refjson.Value, key string, val *refjson.Value) *refjson.Value {
	out := without(v, key)
	out.Members = append(out.Members, refjson.Member{Key: key, Val: val})
	return out
}

// verifyAll checks the complete/sound oracle on one state.
func verifyAll(r *harness.Run, st *state) error {
	v := parse(st.text)
	for _, k := range keys {
		id := k.Server + "|" + k.KeyID
		var err error
		if p, msg := harness.Try(func() { err = gmsl.VerifyJSON(k.Server, gmsl.KeyID(k.KeyID), k.Pub, st.text) }); p {
			return fmt.Errorf("VerifyJSON panics: %s", msg)
		}
		r.Eval()
		if st.signed[id] {
			if err != nil {
				return fmt.Errorf("signature of %s %s does not verify after %v: %v", k.Server, k.KeyID, st.ops, err)
			}
			want := base64.RawStdEncoding.EncodeToString(evgen.ObjectSignature(v, k))
			if got, _ := getSig(v, k.Server, k.KeyID); got != want {
				return fmt.Errorf("signature bytes of %s %s differ from the reference signature after %v", k.Server, k.KeyID, st.ops)
			}
			// wrong parameters must fail
			for _, alt := range []struct {
				name, kid string
				pub       []byte
			}{{"x.org", k.KeyID, k.Pub}, {k.Server, "ed25519:other", k.Pub}, {k.Server, k.KeyID, foreign.Pub}, {strings.ToUpper(k.Server), k.KeyID, k.Pub}} {
				r.Eval()
				if gmsl.VerifyJSON(alt.name, gmsl.KeyID(alt.kid), alt.pub, st.text) == nil {
					return fmt.Errorf("VerifyJSON succeeds for wrong parameters (%s,%s) after %v", alt.name, alt.kid, st.ops)
				}
			}
		} else if err == nil {
			return fmt.Errorf("VerifyJSON succeeds for %s %s which never signed (after %v)", k.Server, k.KeyID, st.ops)
		}
	}
	// ListKeyIDs == reference set, per server
	for _, server := range []string{"a.org", "b.org:8448", "c.org", "nobody"} {
		var want []string
		if sv := evgen.Get(evgen.Get(v, "signatures"), server); sv != nil {
			for _, m := range sv.Members {
				want = append(want, m.Key)
			}
		}
		got, err := gmsl.ListKeyIDs(server, st.text)
		r.Eval()
		if err != nil {
			return fmt.Errorf("ListKeyIDs: %v", err)
		}
		var gs []string
		for _, g := range got {
			gs = append(gs, string(g))
		}
		sort.Strings(gs)
		sort.Strings(want)
		if strings.Join(gs, ",") != strings.Join(want, ",") {
			return fmt.Errorf("ListKeyIDs(%s) = %v, reference %v (after %v)", server, gs, want, st.ops)
		}
	}
	return nil
}

// mutations of the signed content: each must make every signature fail.
func mutations(v *refjson.Value) []*refjson.Value {
	var out []*refjson.Value
	content := without(v, "signatures", "unsigned")
	rest := func(nc *refjson.Value) *refjson.Value {
		o := &refjson.Value{Kind: refjson.Object, Members: append([]refjson.Member(nil), nc.Members...)}
		for _, k := range []string{"signatures", "unsigned"} {
			if x := evgen.Get(v, k); x != nil {
				o.Members = append(o.Members, refjson.Member{Key: k, Val: x})
			}
		}
		return o
	}
	var mutVal func(x *refjson.Value) []*refjson.Value
	mutVal = func(x *refjson.Value) []*refjson.Value {
		var ms []*refjson.Value
		switch x.Kind {
		case refjson.Number:
			if refjson.IsIntegerLiteral(x.Num) {
				// +1 as a decimal string (no float rounding)
				n := []byte(x.Num)
				neg := n[0] == '-'
				if !neg {
					i := len(n) - 1
					for i >= 0 && n[i] == '9' {
						n[i] = '0'
						i--
					}
					if i < 0 {
						n = append([]byte{'1'}, n...)
					} else {
						n[i]++
					}
					ms = append(ms, &refjson.Value{Kind: refjson.Number, Num: string(n)})
				} else if x.Num == "-0" {
					// -0 and 0 are one value (the canonical form writes both as 0): dropping the sign is no mutation
					ms = append(ms, &refjson.Value{Kind: refjson.Number, Num: "1"})
				} else {
					ms = append(ms, &refjson.Value{Kind: refjson.Number, Num: x.Num[1:]})
				}
			} else {
				ms = append(ms, &refjson.Value{Kind: refjson.Number, Num: "7"})
			}
			ms = append(ms, &refjson.Value{Kind: refjson.String, Str: x.Num})
		case refjson.String:
			ms = append(ms, &refjson.Value{Kind: refjson.String, Str: x.Str + "x"}, &refjson.Value{Kind: refjson.String, Str: strings.ToUpper(x.Str) + " "}, &refjson.Value{Kind: refjson.Null})
		case refjson.Null:
			ms = append(ms, &refjson.Value{Kind: refjson.False}, &refjson.Value{Kind: refjson.Number, Num: "0"})
		case refjson.True:
			ms = append(ms, &refjson.Value{Kind: refjson.False})
		case refjson.False:
			ms = append(ms, &refjson.Value{Kind: refjson.True})
		case refjson.Array:
			ms = append(ms, &refjson.Value{Kind: refjson.Array, Elems: append(append([]*refjson.Value(nil), x.Elems...), &refjson.Value{Kind: refjson.Null})})
			if len(x.Elems) > 0 {
				ms = append(ms, &refjson.Value{Kind: refjson.Array, Elems: x.Elems[1:]})
				rev := append([]*refjson.Value(nil), x.Elems...)
				for i, j := 0, len(rev)-1; i < j; i, j = i+1, j-1 {
					rev[i], rev[j] = rev[j], rev[i]
				}
				if len(rev) > 1 && !refjson.Equal(rev[0], x.Elems[0]) {
					ms = append(ms, &refjson.Value{Kind: refjson.Array, Elems: rev})
				}
				for i, e := range x.Elems {
					for _, me := range mutVal(e) {
						ne := append([]*refjson.Value(nil), x.Elems...)
						ne[i] = me
						ms = append(ms, &refjson.Value{Kind: refjson.Array, Elems: ne})
					}
				}
			}
		case refjson.Object:
			ms = append(ms, &refjson.Value{Kind: refjson.Object, Members: append(append([]refjson.Member(nil), x.Members...), refjson.Member{Key: "zz", Val: &refjson.Value{Kind: refjson.Number, Num: "1"}})})
			for i, m := range x.Members {
				nm := append(append([]refjson.Member(nil), x.Members[:i]...), x.Members[i+1:]...)
				ms = append(ms, &refjson.Value{Kind: refjson.Object, Members: nm}) // deletion
				rn := append([]refjson.Member(nil), x.Members...)
				rn[i] = refjson.Member{Key: m.Key + "_", Val: m.Val}
				ms = append(ms, &refjson.Value{Kind: refjson.Object, Members: rn}) // rename
				for _, mv := range mutVal(m.Val) {
					ch := append([]refjson.Member(nil), x.Members...)
					ch[i] = refjson.Member{Key: m.Key, Val: mv}
					ms = append(ms, &refjson.Value{Kind: refjson.Object, Members: ch})
				}
			}
		}
		return ms
	}
	for _, m := range mutVal(content) {
		out = append(out, rest(m))
	}
	return out
}

type base struct {
	Text string
}

func main() { harness.Main("C02", "model_checking", run) }

func run(r *harness.Run) {
	r.Rule("explicit-state search: start objects = every subset of <=2 members (and the triples of the five entries that differ in key shape; thorough: every subset of <=4) from a 10-key menu (keys needing escapes, dotted keys, non-ASCII, and nested members that are themselves named signatures / unsigned) with typed values (big integers, nested objects/arrays, strings with <&>), optionally carrying a foreign signature and/or unsigned, plus wide objects (129 / 257 / 300 members, thorough 64 ... 513; flat and nested; depth 2 over sign x2 / re-serialise x2); operation alphabet (11): sign by 3 identities (two key IDs of one entity, one other entity), re-serialise in 3 non-canonical presentations, set/replace/delete unsigned, add a foreign signature, change a signed member (all signatures made so far go stale and must be replaced when their owner signs again); all sequences up to depth D. After every transition: VerifyJSON for every identity == reference (signed set), signature bytes == ed25519 over refjson canonical form, wrong name/key ID/public key refused, ListKeyIDs == reference. On every distinct reached state: every single-member mutation (value change incl. +1 on integers, insert, delete, rename, nested edit, array edits) must fail verification; mutations confined to unsigned / foreign signatures must not. Non-trivial = distinct state text with >=1 signature.")
	r.Assume("ed25519 is deterministic and trusted", "objects with duplicate keys are outside the property")
	type replayIn struct {
		Start string
		Ops   []string
	}
	// start objects
	menu := [][2]string{
		{"a", `1`}, {"b", `"s<&>"`}, {"é", `{"n":{"m":[1,2,"x"]}}`}, {"x.y", `[1,{"k":"v"},null]`}, {"a\"b\\", `9007199254740992`}, {"t", `true`}, {"big", `12345678901234567890`},
		// keys whose order as raw JSON tokens differs from their order as decoded strings ("a" < "a b" decoded, but the
		// closing quote sorts after the space; "a\nz" < "a b" decoded, but the backslash sorts after the space)
		{"a b", `2`}, {"a\nz", `3`},
		// members NAMED like the two exempt top-level members, but nested: they are signed content like any other
		{"content", `{"unsigned":{"age":1},"signatures":{"x.org":{"ed25519:1":"sig"}},"signed":{"signatures":{"s":1},"unsigned":2}}`},
	}
	keyShape := map[int]bool{0: true, 2: true, 4: true, 7: true, 8: true}
	var starts []string
	var sub func(start int, cur []int)
	sub = func(start int, cur []int) {
		if len(cur) > 0 {
			var parts []string
			for _, i := range cur {
				parts = append(parts, string(refjson.AppendString(nil, menu[i][0]))+":"+menu[i][1])
			}
			starts = append(starts, "{"+strings.Join(parts, ",")+"}")
		}
		if len(cur) == r.Pick(3, 4) {
			return
		}
		for i := start; i < len(menu); i++ {
			if r.Quick() && len(cur) == 2 && !(keyShape[cur[0]] && keyShape[cur[1]] && keyShape[i]) {
				continue // quick tier: triples only among the entries that differ in key shape (escapes, prefixes, non-ASCII)
			}
			sub(i+1, append(cur, i))
		}
	}
	sub(0, nil)
	starts = append(starts, "{}")
	foreignSig := func(text []byte) []byte {
		v := parse(text)
		sigs := evgen.Get(v, "signatures")
		if sigs == nil {
			sigs = &refjson.Value{Kind: refjson.Object}
		}
		sig := base64.RawStdEncoding.EncodeToString(evgen.ObjectSignature(v, foreign))
		entry := &refjson.Value{Kind: refjson.Object, Members: []refjson.Member{{Key: foreign.KeyID, Val: &refjson.Value{Kind: refjson.String, Str: sig}}}}
		return refjson.Emit(nil, with(v, "signatures", with(sigs, foreign.Server, entry)), true)
	}
	opNames := []string{"sign0", "sign1", "sign2", "pres1", "pres2", "pres3", "unsigned-set", "unsigned-replace", "unsigned-delete", "foreign-sign", "edit-signed"}
	apply := func(st *state, op string) (*state, error) {
		ns := &state{signed: map[string]bool{}, ops: append(append([]string(nil), st.ops...), op)}
		for k := range st.signed {
			ns.signed[k] = true
		}
		v := parse(st.text)
		switch {
		case strings.HasPrefix(op, "sign"):
			k := keys[int(op[4]-'0')]
			var out []byte
			var err error
			if p, msg := harness.Try(func() { out, err = gmsl.SignJSON(k.Server, gmsl.KeyID(k.KeyID), k.Priv, st.text) }); p {
				return nil, fmt.Errorf("SignJSON panics: %s", msg)
			}
			if err != nil {
				return nil, fmt.Errorf("SignJSON fails on %s: %v", st.text, err)
			}
			ov, _, perr := refjson.Parse(out)
			if perr != nil {
				return nil, fmt.Errorf("SignJSON output invalid: %v", perr)
			}
			// content, unsigned and earlier signatures preserved value for value
			if !refjson.Equal(without(ov, "signatures", "unsigned"), without(v, "signatures", "unsigned")) {
				return nil, fmt.Errorf("SignJSON changed the signed members: %s -> %s", st.text, out)
			}
			if (evgen.Get(v, "unsigned") == nil) != (evgen.Get(ov, "unsigned") == nil) || (evgen.Get(v, "unsigned") != nil && !refjson.Equal(evgen.Get(v, "unsigned"), evgen.Get(ov, "unsigned"))) {
				return nil, fmt.Errorf("SignJSON changed unsigned: %s -> %s", st.text, out)
			}
			if old := evgen.Get(v, "signatures"); old != nil {
				for _, sm := range old.Members {
					for _, km := range sm.Val.Members {
						if sm.Key == k.Server && km.Key == k.KeyID {
							continue
						}
						if got, ok := getSig(ov, sm.Key, km.Key); !ok || got != km.Val.Str {
							return nil, fmt.Errorf("SignJSON by %s %s lost or changed the earlier signature %s %s", k.Server, k.KeyID, sm.Key, km.Key)
						}
					}
				}
			}
			ns.text = out
			ns.signed[k.Server+"|"+k.KeyID] = true
		case strings.HasPrefix(op, "pres"):
			ns.text = present(v, int(op[4]-'0'))
		case op == "unsigned-set":
			ns.text = refjson.Emit(nil, with(v, "unsigned", parse([]byte(`{"age":1,"x":{"y":"<z>"}}`))), true)
		case op == "unsigned-replace":
			ns.text = refjson.Emit(nil, with(v, "unsigned", parse([]byte(`{"replaced":true}`))), true)
		case op == "unsigned-delete":
			ns.text = refjson.Emit(nil, without(v, "unsigned"), true)
		case op == "foreign-sign":
			ns.text = foreignSig(st.text)
		case op == "edit-signed":
			// a signed member changes (a counter, so that no earlier content ever comes back): every signature made so far is
			// stale - it stays in the object but no longer verifies - and signing again must replace it by a valid one
			n := 1
			if x := evgen.Get(v, "zz_edit"); x != nil {
				fmt.Sscan(x.Num, &n)
				n++
			}
			ns.text = refjson.Emit(nil, with(v, "zz_edit", &refjson.Value{Kind: refjson.Number, Num: fmt.Sprint(n)}), true)
			ns.signed = map[string]bool{}
		}
		return ns, nil
	}
	checkState := func(st *state) error {
		if err := verifyAll(r, st); err != nil {
			return err
		}
		if !r.State(string(st.text)) {
			return nil
		}
		if len(st.signed) == 0 {
			return nil
		}
		r.Nontrivial(string(st.text))
		v := parse(st.text)
		anySigned := func(text []byte) (bool, string) {
			for _, k := range keys {
				if st.signed[k.Server+"|"+k.KeyID] {
					r.Eval()
					if gmsl.VerifyJSON(k.Server, gmsl.KeyID(k.KeyID), k.Pub, text) == nil {
						return true, k.Server + " " + k.KeyID
					}
				}
			}
			return false, ""
		}
		for _, m := range mutations(v) {
			for _, mode := range []int{0, 1} {
				text := present(m, mode)
				if ok, who := anySigned(text); ok {
					return fmt.Errorf("after %v: mutated object %s still verifies for %s (original %s)", st.ops, text, who, st.text)
				}
			}
		}
		// the same mutants once more, written IN PLACE over a buffer that has just verified (a receive buffer that is recycled,
		// an edit in the caller's own slice): every mutant of the original's length, straight after a successful verification
		// of the original in that very buffer
		{
			buf := append([]byte(nil), st.text...)
			for _, m := range mutations(v) {
				text := present(m, 0)
				if len(text) != len(st.text) {
					continue
				}
				copy(buf, st.text)
				if ok, _ := anySigned(buf); !ok {
					break // nothing verifies here: nothing to remember
				}
				copy(buf, text)
				if ok, who := anySigned(buf); ok {
					return fmt.Errorf("after %v: object %s verified, was then overwritten in place with the mutant %s, and that still verifies for %s", st.ops, st.text, text, who)
				}
			}
		}
		// 1-bit signature corruption
		for _, k := range keys {
			if !st.signed[k.Server+"|"+k.KeyID] {
				continue
			}
			sig, _ := getSig(v, k.Server, k.KeyID)
			raw, _ := base64.RawStdEncoding.DecodeString(sig)
			for _, bit := range []int{0, 255, 511} {
				c := append([]byte(nil), raw...)
				c[bit/8] ^= 1 << (bit % 8)
				sigs := evgen.Get(v, "signatures")
				entry := with(evgen.Get(sigs, k.Server), k.KeyID, &refjson.Value{Kind: refjson.String, Str: base64.RawStdEncoding.EncodeToString(c)})
				text := refjson.Emit(nil, with(v, "signatures", with(sigs, k.Server, entry)), true)
				r.Eval()
				if gmsl.VerifyJSON(k.Server, gmsl.KeyID(k.KeyID), k.Pub, text) == nil {
					return fmt.Errorf("signature with bit %d flipped still verifies", bit)
				}
			}
		}
		// neutral edits: unsigned and foreign signatures never matter
		for _, text := range [][]byte{
			refjson.Emit(nil, with(v, "unsigned", parse([]byte(`{"other":[1,2,3]}`))), true),
			refjson.Emit(nil, without(v, "unsigned"), true),
			foreignSig(st.text),
		} {
			for _, k := range keys {
				if st.signed[k.Server+"|"+k.KeyID] {
					r.Eval()
					if err := gmsl.VerifyJSON(k.Server, gmsl.KeyID(k.KeyID), k.Pub, text); err != nil {
						return fmt.Errorf("after %v: edit confined to unsigned / another entity's signature breaks %s %s: %v (%s)", st.ops, k.Server, k.KeyID, err, text)
					}
				}
			}
		}
		return nil
	}
	runSeq := func(start string, ops []string) error {
		st := &state{text: []byte(start), signed: map[string]bool{}}
		for _, op := range ops {
			ns, err := apply(st, op)
			if err != nil {
				return err
			}
			r.Transition(1)
			if err := checkState(ns); err != nil {
				return err
			}
			st = ns
		}
		return nil
	}
	// (N) names and key IDs as strings: the property quantifies over ALL signer names / key IDs, and "fails for every other
	// name / key ID". Every string of <= 2 symbols over an alphabet of characters that some lookup mechanism might treat
	// specially (path separators, wildcards, pipes, brackets, quotes, escapes, non-ASCII) signs and verifies as a name and as a
	// key ID; under every OTHER string of the family (with the signer's own public key) verification must fail.
	{
		syms := []string{"a", ".", "*", "?", "|", "[", "{", "\\", "#", ":", "\"", "\u00e9", " ", "@", "%", "~", "0", "A"}
		var fam []string
		for _, x := range syms {
			fam = append(fam, x)
			for _, y := range syms {
				fam = append(fam, x+y)
			}
		}
		fam = append(fam, "a.org", "*.org", "a.or?", "a.*", "ed25519:1", "ed25519:*", "ed25519:?", "a.org|b.org", "[a.org]", "{a.org}", "a\\.org", "a.org.ed25519:1", "#", "a.#")
		k := keys[0]
		doc := []byte(`{"k":1,"signatures":{"z.org":{"ed25519:z":"AAAA"}},"unsigned":{"x":1}}`)
		type nameCase struct {
			AsKeyID bool
			Signer  string
			Other   string
		}
		checkName := func(c nameCase) error {
			name, kid := c.Signer, k.KeyID
			if c.AsKeyID {
				name, kid = k.Server, c.Signer
			}
			signed, err := gmsl.SignJSON(name, gmsl.KeyID(kid), k.Priv, doc)
			if err != nil {
				return fmt.Errorf("SignJSON(%q, %q): %v", name, kid, err)
			}
			if c.Other == "" {
				if err := gmsl.VerifyJSON(name, gmsl.KeyID(kid), k.Pub, signed); err != nil {
					return fmt.Errorf("object signed as (%q, %q) does not verify under that name and key ID: %v", name, kid, err)
				}
				v := parse(signed)
				want := base64.RawStdEncoding.EncodeToString(evgen.ObjectSignature(v, evgen.Key{Server: name, KeyID: kid, Priv: k.Priv, Pub: k.Pub}))
				if got, _ := getSig(v, name, kid); got != want {
					return fmt.Errorf("signature of (%q, %q) is stored as %q, reference %q", name, kid, got, want)
				}
				return nil
			}
			on, ok := c.Other, kid
			if c.AsKeyID {
				on, ok = name, c.Other
			}
			if gmsl.VerifyJSON(on, gmsl.KeyID(ok), k.Pub, signed) == nil {
				return fmt.Errorf("object signed only as (%q, %q) also verifies as (%q, %q)", name, kid, on, ok)
			}
			return nil
		}
		r.OnReplay("name", func(raw json.RawMessage) error {
			var c nameCase
			_ = json.Unmarshal(raw, &c)
			return checkName(c)
		})
		for _, asKey := range []bool{false, true} {
			asKey := asKey
			if r.Replaying() {
				break
			}
			r.Parallel(len(fam), func(i int) {
				for j := -1; j < len(fam); j++ {
					c := nameCase{AsKeyID: asKey, Signer: fam[i]}
					if j >= 0 {
						if fam[j] == fam[i] {
							continue
						}
						c.Other = fam[j]
					}
					r.Eval()
					if err := checkName(c); err != nil {
						r.Violation(fmt.Sprintf("name:%v:%s:%s", asKey, c.Signer, c.Other), err.Error(), "name", c)
						return
					}
				}
			})
		}
		r.Count("N_name_family", int64(len(fam)))
	}
	r.OnReplay("seq", func(raw json.RawMessage) error {
		var in replayIn
		if err := json.Unmarshal(raw, &in); err != nil {
			return err
		}
		return runSeq(in.Start, in.Ops)
	})
	if r.Replaying() {
		return
	}
	D := r.Pick(3, 4)
	// variants of every start: plain, +foreign signature, +unsigned, both
	var allStarts []string
	for _, s := range starts {
		allStarts = append(allStarts, s)
		fs := string(foreignSig([]byte(s)))
		allStarts = append(allStarts, fs)
		allStarts = append(allStarts, string(refjson.Emit(nil, with(parse([]byte(fs)), "unsigned", parse([]byte(`{"age":5}`))), true)))
	}
	// wide objects (a power-levels users map of a large room): widths around the powers of two where small buffers and index
	// types change, members in reversed order, flat and nested. They run through the same search with a reduced alphabet
	// (sign by two entities, two re-serialisations) and depth 2, the mutation oracle on every member as for any other state.
	nNarrow := len(allStarts)
	for _, n := range r.PickInts([]int{129, 257, 300}, []int{64, 129, 256, 257, 300, 513}) {
		var parts []string
		for j := n - 1; j >= 0; j-- {
			parts = append(parts, fmt.Sprintf(`"@u%d:a.org":%d`, j, j))
		}
		flat := "{" + strings.Join(parts, ",") + "}"
		allStarts = append(allStarts, flat, `{"type":"m.room.power_levels","content":{"users":`+flat+`,"ban":50}}`)
		// sorted at the top, every value a small object whose own keys are out of order
		var nparts []string
		for j := 0; j < n; j++ {
			nparts = append(nparts, fmt.Sprintf(`"m%05d":{"y":%d,"x":1}`, j, j))
		}
		allStarts = append(allStarts, "{"+strings.Join(nparts, ",")+"}")
	}
	wideOps := []string{"sign0", "sign2", "pres1", "pres3"}
	r.Count("start_objects", int64(len(allStarts)))
	r.Parallel(len(allStarts), func(i int) {
		start := allStarts[i]
		D, opNames := D, opNames
		if i >= nNarrow {
			D, opNames = 2, wideOps
		}
		// DFS over op sequences; a prefix that failed is not extended
		var dfs func(st *state, depth int)
		dfs = func(st *state, depth int) {
			if depth == D {
				return
			}
			for _, op := range opNames {
				if op == "unsigned-delete" && evgen.Get(parse(st.text), "unsigned") == nil {
					continue
				}
				if depth == D-1 && !strings.HasPrefix(op, "sign") && len(st.signed) == 0 {
					continue // a last step that neither signs nor has anything to break is vacuous
				}
				ns, err := apply(st, op)
				if err == nil {
					r.Transition(1)
					err = checkState(ns)
				}
				if err != nil {
					ops := append(append([]string(nil), st.ops...), op)
					r.Violation(fmt.Sprintf("seq:%s:%s", strings.Join(ops, ","), start), err.Error(), "seq", replayIn{start, ops})
					continue
				}
				dfs(ns, depth+1)
			}
		}
		dfs(&state{text: []byte(start), signed: map[string]bool{}}, 0)
	})
	r.Sample("sequence", replayIn{Start: allStarts[3], Ops: []string{"sign0", "pres2", "sign1"}})
	r.Sample("sequence", replayIn{Start: allStarts[len(allStarts)-2], Ops: []string{"sign2", "unsigned-replace", "foreign-sign"}})
	r.Extra("bounds", map[string]int{"depth": D, "ops": len(opNames), "starts": len(allStarts)})
	_ = bytes.Equal
}
