// C04 — untrusted events whose content hash fails surface only their redacted form.
package main

import (
	"bytes"
	"context"
	"encoding/base64"
	"encoding/json"
	"fmt"
	"sort"
	"strings"
	"time"

	gmsl "github.com/matrix-org/gomatrixserverlib"
	"github.com/matrix-org/gomatrixserverlib/spec"

	"verif/mc/evalpha"
	"verif/mc/evgen"
	"verif/mc/harness"
	"verif/mc/poison"
	"verif/mc/ref/refevent"
	"verif/mc/ref/refjson"
	"verif/mc/ref/refredact"
	"verif/mc/ref/refversions"
)

type staticVerifier struct{}

func (staticVerifier) VerifyJSONs(ctx context.Context, reqs []gmsl.VerifyJSONRequest) ([]gmsl.VerifyJSONResult, error) {
	out := make([]gmsl.VerifyJSONResult, len(reqs))
	for i, rq := range reqs {
		out[i].Error = fmt.Errorf("no valid signature of %s", rq.ServerName)
		for _, k := range evalpha.Keys {
			if k.Server == string(rq.ServerName) && gmsl.VerifyJSON(k.Server, gmsl.KeyID(k.KeyID), k.Pub, rq.Message) == nil {
				out[i].Error = nil
			}
		}
	}
	return out, nil
}

func uid(_ spec.RoomID, s spec.SenderID) (*spec.UserID, error) {
	return spec.NewUserID(string(s), true)
}

var tamperNames = []string{"none", "content-unprotected", "content-protected", "top-junk", "hash-altered", "hash-removed", "unsigned", "age_ts", "outlier", "destinations", "redacts-top", "depth", "sticky", "msc4354_sticky", "event_id-top", "event_id-twice", "unsigned-twice", "age_ts-twice", "event_id-casefold", "event_id-kelvin", "unsigned-casefold", "event_id-escaped", "unsigned-escaped"}

// redactable[t]: the tampering touches only material that redaction removes or that is stripped on receipt
var redactableOnly = map[string]bool{"none": true, "content-unprotected": true, "top-junk": true, "unsigned": true, "age_ts": true, "outlier": true, "destinations": true, "sticky": true, "msc4354_sticky": true, "event_id-top": true, "event_id-twice": true, "unsigned-twice": true, "age_ts-twice": true, "event_id-casefold": true, "event_id-kelvin": true, "unsigned-casefold": true, "event_id-escaped": true, "unsigned-escaped": true}

func set(v *refjson.Value, key string, val *refjson.Value) *refjson.Value {
	out := &refjson.Value{Kind: refjson.Object}
	done := false
	for _, m := range v.Members {
		if m.Key == key {
			if val != nil {
				out.Members = append(out.Members, refjson.Member{Key: key, Val: val})
			}
			done = true
			continue
		}
		out.Members = append(out.Members, m)
	}
	if !done && val != nil {
		out.Members = append(out.Members, refjson.Member{Key: key, Val: val})
	}
	return out
}

func lit(s string) *refjson.Value { return evgen.MustParse([]byte(s)) }

// tamper applies one tampering; ok=false if it does not apply to this event.
func tamper(version string, v *refjson.Value, t string) (*refjson.Value, bool) {
	row := refversions.Get(version)
	content := evgen.Get(v, "content")
	typ := evgen.Get(v, "type").Str
	switch t {
	case "none":
		return v, true
	case "content-unprotected":
		return set(v, "content", set(content, "zz_forged", lit(`"forged"`))), true
	case "content-protected":
		keys, all := refredact.ContentKeys(row.Redaction, typ)
		if all {
			return set(v, "content", set(content, "zz_forged", lit(`"forged"`))), true
		}
		for _, k := range keys {
			if strings.Contains(k, ".") {
				continue
			}
			if old := evgen.Get(content, k); old != nil {
				return set(v, "content", set(content, k, lit(`"forged-protected"`))), true
			}
		}
		return nil, false
	case "top-junk":
		return set(v, "zz_top", lit(`{"forged":true}`)), true
	case "hash-altered":
		h := evgen.Get(evgen.Get(v, "hashes"), "sha256").Str
		c := "A"
		if h[0] == 'A' {
			c = "B"
		}
		return set(v, "hashes", lit(`{"sha256":"`+c+h[1:]+`"}`)), true
	case "hash-removed":
		return set(v, "hashes", lit(`{}`)), true
	case "unsigned":
		return set(v, "unsigned", lit(`{"age":7,"forged":"u"}`)), true
	case "age_ts":
		return set(v, "age_ts", lit(`5`)), true
	case "outlier":
		return set(v, "outlier", lit(`true`)), true
	case "destinations":
		return set(v, "destinations", lit(`["x.org"]`)), true
	case "redacts-top":
		if evgen.Get(v, "redacts") == nil {
			return set(v, "redacts", lit(`"$forged"`)), true
		}
		return set(v, "redacts", lit(`"$forged"`)), true
	case "depth":
		return set(v, "depth", lit(`77`)), true
	case "event_id-top": // event formats 2 and 3 carry no event_id: a server that adds one has it stripped on receipt
		if row.EventFormat == 1 {
			return nil, false
		}
		return set(v, "event_id", lit(`"$forged_event_id"`)), true
	case "event_id-twice", "unsigned-twice", "age_ts-twice":
		// a key that is stripped on receipt, present twice (a text no honest serialiser emits but any peer can send): both
		// copies have to go. The members are put first and last so that neither a first-match nor a last-match reader is spared.
		key := strings.TrimSuffix(t, "-twice")
		if key == "event_id" && row.EventFormat == 1 {
			return nil, false
		}
		vals := map[string][2]string{"event_id": {`"$forged_first"`, `"$forged_second"`}, "unsigned": {`{"forged":"first"}`, `{"forged":"second"}`}, "age_ts": {`5`, `6`}}[key]
		out := &refjson.Value{Kind: refjson.Object}
		out.Members = append(out.Members, refjson.Member{Key: key, Val: lit(vals[0])})
		for _, m := range v.Members {
			if m.Key != key {
				out.Members = append(out.Members, m)
			}
		}
		out.Members = append(out.Members, refjson.Member{Key: key, Val: lit(vals[1])})
		return out, true
	case "event_id-casefold", "event_id-kelvin", "unsigned-casefold":
		// a top-level key that is NOT one of the stripped keys (JSON member names are case sensitive) but that a decoder
		// matching field names case-insensitively takes for one: "Event_ID", "event_Kd" has no k to fold, so the
		// Kelvin-sign variant is put on unsigned's s instead ("unſigned", long s); all are junk keys outside every keep-list
		key, val := "Event_ID", `"$forged_by_case"`
		switch t {
		case "event_id-kelvin":
			key, val = "un\u017figned", `{"forged":"long-s"}`
		case "unsigned-casefold":
			key, val = "Unsigned", `{"forged":"case"}`
		}
		if t == "event_id-casefold" && row.EventFormat == 1 {
			return nil, false
		}
		return set(v, key, lit(val)), true
	case "event_id-escaped", "unsigned-escaped":
		// the stripped key itself, its name spelt with a \uXXXX escape in the text (see escapeSpelling below): the same key
		key := strings.TrimSuffix(t, "-escaped")
		if key == "event_id" && row.EventFormat == 1 {
			return nil, false
		}
		val := map[string]string{"event_id": `"$forged_escaped"`, "unsigned": `{"forged":"escaped"}`}[key]
		return set(v, key, lit(val)), true
	case "sticky", "msc4354_sticky": // top-level keys outside every keep-list that an accessor (IsSticky / StickyEndTime) reads
		return set(v, t, lit(`{"duration_ms":600000}`)), true
	}
	panic(t)
}

type c04Case struct {
	Version string
	Proto   evalpha.Proto
	Tampers []string
}

func persistable(err error) bool {
	ve, ok := err.(gmsl.EventValidationError)
	return ok && ve.Persistable
}

func runCase(r *harness.Run, c c04Case) error {
	poison.Redaction(c.Version)
	r.Eval()
	row := refversions.Get(c.Version)
	ver := gmsl.MustGetRoomVersion(gmsl.RoomVersion(c.Version))
	orig, err := evalpha.Build(c.Version, c.Proto)
	if err != nil && !(persistable(err) && orig != nil) {
		return fmt.Errorf("Build: %v", err)
	}
	origID := orig.EventID()
	v := evgen.MustParse(orig.JSON())
	for _, t := range c.Tampers {
		nv, ok := tamper(c.Version, v, t)
		if !ok {
			return nil
		}
		v = nv
	}
	text := refjson.Emit(nil, v, true)
	for _, t := range c.Tampers {
		// respell the member name in the text: the last letter as a \u escape (the JSON value is unchanged)
		switch t {
		case "event_id-escaped":
			text = bytes.Replace(text, []byte(`"event_id":`), []byte(`"event_i\u0064":`), 1)
		case "unsigned-escaped":
			text = bytes.Replace(text, []byte(`"unsigned":`), []byte(`"unsigne\u0064":`), 1)
		}
	}
	// what the receiver hashes: the event without the keys stripped on receipt
	strip := []string{"outlier", "destinations", "age_ts", "unsigned"}
	if row.EventFormat != 1 {
		strip = append(strip, "event_id")
	}
	received := v
	for _, k := range strip {
		received = set(received, k, nil)
	}
	wantHash := refevent.ContentHash(received)
	claimed := ""
	if h := evgen.Get(evgen.Get(received, "hashes"), "sha256"); h != nil && h.Kind == refjson.String {
		claimed = h.Str
	}
	cb, derr := base64.RawStdEncoding.DecodeString(claimed)
	mismatch := derr != nil || !bytes.Equal(cb, wantHash)
	var ev gmsl.PDU
	if p, msg := harness.Try(func() { ev, err = ver.NewEventFromUntrustedJSON(text) }); p {
		return fmt.Errorf("NewEventFromUntrustedJSON panics: %s", msg)
	}
	if err != nil && !(persistable(err) && ev != nil) {
		return fmt.Errorf("NewEventFromUntrustedJSON fails on %s: %v", text, err)
	}
	if err != nil {
		// an event with a "persistable" size complaint (a field within 255 code points but over 255 bytes) is handed back
		// together with the error and kept by callers such as EventJSONs.UntrustedEvents: everything below applies to it
		r.Outcome("kept-with-persistable-error")
		kept := gmsl.EventJSONs{text}.UntrustedEvents(gmsl.RoomVersion(c.Version))
		if len(kept) != 1 || kept[0] == nil {
			return fmt.Errorf("UntrustedEvents dropped an event the parser reports as persistable (%v)", err)
		}
		if !bytes.Equal(kept[0].JSON(), ev.JSON()) || kept[0].Redacted() != ev.Redacted() {
			return fmt.Errorf("UntrustedEvents and NewEventFromUntrustedJSON disagree on a persistable event: %s / %s", kept[0].JSON(), ev.JSON())
		}
	}
	if ev.Redacted() != mismatch {
		return fmt.Errorf("Redacted() = %v but reference content hash mismatch = %v (tamperings %v)", ev.Redacted(), mismatch, c.Tampers)
	}
	got, _, perr := refjson.Parse(ev.JSON())
	if perr != nil {
		return fmt.Errorf("JSON() invalid: %v", perr)
	}
	var want *refjson.Value
	if mismatch {
		r.Outcome("redacted")
		want = refredact.Redact(c.Version, received)
	} else {
		r.Outcome("intact")
		want = received
	}
	if !refjson.Equal(got, want) {
		return fmt.Errorf("tamperings %v: JSON() = %s, expected %s", c.Tampers, ev.JSON(), refjson.Canonical(want))
	}
	// every accessor agrees with that JSON (nothing else leaks)
	var accErr error
	if p, msg := harness.Try(func() {
		wc := evgen.Get(want, "content")
		cv, _, e := refjson.Parse(ev.Content())
		if e != nil || !refjson.Equal(cv, wc) {
			accErr = fmt.Errorf("Content() = %s, expected %s", ev.Content(), refjson.Canonical(wc))
			return
		}
		if u := ev.Unsigned(); len(u) != 0 && string(u) != "null" {
			accErr = fmt.Errorf("Unsigned() exposes %s (unsigned is stripped on receipt)", u)
			return
		}
		wr := ""
		if x := evgen.Get(want, "redacts"); x != nil {
			wr = x.Str
		}
		if ev.Redacts() != wr {
			accErr = fmt.Errorf("Redacts() = %q but the event's JSON says %q", ev.Redacts(), wr)
			return
		}
		if ev.Type() != evgen.Get(want, "type").Str || string(ev.SenderID()) != evgen.Get(want, "sender").Str {
			accErr = fmt.Errorf("type/sender accessors disagree with JSON")
			return
		}
		wd := evgen.Get(want, "depth")
		if wd != nil && fmt.Sprint(ev.Depth()) != wd.Num {
			accErr = fmt.Errorf("Depth() = %d, JSON says %s", ev.Depth(), wd.Num)
			return
		}
		// accessors fed by top-level keys: what they report must come from the JSON the event now has
		var wantSticky int64
		for _, k := range []string{"sticky", "msc4354_sticky"} {
			if x := evgen.Get(evgen.Get(want, k), "duration_ms"); x != nil && x.Kind == refjson.Number && wantSticky == 0 {
				fmt.Sscan(x.Num, &wantSticky)
			}
		}
		recv := time.UnixMilli(int64(ev.OriginServerTS()))
		end := ev.StickyEndTime(recv)
		if (wantSticky == 0) != end.IsZero() || ev.IsSticky(recv, recv) != (wantSticky != 0) {
			accErr = fmt.Errorf("StickyEndTime() = %v / IsSticky() = %v but the event's JSON carries sticky duration %d", end, ev.IsSticky(recv, recv), wantSticky)
			return
		}
		h, e := ev.ToHeaderedJSON()
		if e != nil {
			accErr = fmt.Errorf("ToHeaderedJSON: %v", e)
			return
		}
		if bytes.Contains(h, []byte("forged")) && mismatch && !bytes.Contains(refjson.Canonical(want), []byte("forged")) {
			accErr = fmt.Errorf("headered JSON still contains forged material: %s", h)
			return
		}
		if mismatch {
			for _, m := range got.Members {
				found := false
				for _, k := range refredact.TopKeys(row.Redaction) {
					if k == m.Key {
						found = true
					}
				}
				if !found {
					accErr = fmt.Errorf("redacted event exposes top-level key %s", m.Key)
					return
				}
			}
		}
	}); p {
		return fmt.Errorf("accessor panics: %s", msg)
	}
	if accErr != nil {
		return fmt.Errorf("tamperings %v: %v", c.Tampers, accErr)
	}
	// identity and signatures when only redactable / stripped material changed
	only := true
	for _, t := range c.Tampers {
		if !redactableOnly[t] {
			only = false
		}
		if t == "content-unprotected" {
			if _, all := refredact.ContentKeys(row.Redaction, c.Proto.Type); all {
				only = false // this version keeps the whole content of this event type
			}
		}
	}
	if only {
		if row.EventIDFormat != 1 && ev.EventID() != origID {
			return fmt.Errorf("tamperings %v (redactable material only): event ID %s differs from the original %s", c.Tampers, ev.EventID(), origID)
		}
		want := gmsl.VerifyEventSignatures(context.Background(), orig, staticVerifier{}, uid)
		var gotErr error
		if p, msg := harness.Try(func() { gotErr = gmsl.VerifyEventSignatures(context.Background(), ev, staticVerifier{}, uid) }); p {
			return fmt.Errorf("VerifyEventSignatures panics: %s", msg)
		}
		if row.RestrictedJoins && row.Redaction < 4 && strings.Contains(c.Proto.Content, "join_authorised_via_users_server") && ev.Redacted() {
			// room version 8 as specified: its redaction algorithm drops join_authorised_via_users_server (version 9
			// exists to repair exactly that), so the set of required signers of the redacted form is smaller
			r.Count("room_v8_specified_gap_not_judged", 1)
		} else if (want == nil) != (gotErr == nil) {
			return fmt.Errorf("tamperings %v (redactable material only): signature verdict %v differs from the original's %v", c.Tampers, gotErr, want)
		}
		if want == nil {
			r.Count("signature_verdict_compared_valid", 1)
		} else {
			r.Count("signature_verdict_compared_invalid", 1)
		}
	}
	if len(c.Tampers) > 0 {
		r.Nontrivial(fmt.Sprintf("%s|%s|%v|%v", c.Version, origID, c.Tampers, mismatch))
	}
	return nil
}

func main() { harness.Main("C04", "model_checking", run) }

func run(r *harness.Run) {
	r.Rule("every built event of the proto-event alphabet (9 type/state-key shapes x contents) x all 16 room versions x every single and every pair of 17 tamperings (incl. an added top-level event_id in formats 2 / 3, event_id / unsigned / age_ts present twice, and junk keys that differ from event_id / unsigned only in letter case or by a Unicode case-fold, and event_id / unsigned with their name spelt with a \\u escape) (unprotected / protected content key, extra top-level key, hash altered / removed, unsigned, age_ts, outlier, destinations, top-level redacts, depth, top-level sticky / msc4354_sticky) plus the untampered event, parsed with NewEventFromUntrustedJSON; additionally each tampered copy is parsed after the genuine copy and again after another tampered copy (history sensitivity). Oracle: Redacted() <=> reference content-hash mismatch; JSON()/Content()/Redacts()/Unsigned()/StickyEndTime()/IsSticky()/headered JSON equal the reference redaction (refredact) resp. the intact event; redactable-only tampering keeps the event ID and the signature verdict. Non-trivial = distinct (version, event, tampering set).")
	r.Assume("sha256/ed25519 trusted", "signature verdicts are taken through a static verifier holding the signers' keys (key validity is C06/C12)")
	r.OnReplay("case", func(raw json.RawMessage) error {
		var c c04Case
		if err := json.Unmarshal(raw, &c); err != nil {
			return err
		}
		return runCase(r, c)
	})
	if r.Replaying() {
		return
	}
	var sets [][]string
	sets = append(sets, []string{})
	for i := 1; i < len(tamperNames); i++ {
		sets = append(sets, []string{tamperNames[i]})
	}
	for i := 1; i < len(tamperNames); i++ {
		for j := i + 1; j < len(tamperNames); j++ {
			sets = append(sets, []string{tamperNames[i], tamperNames[j]})
		}
	}
	if r.Thorough() {
		// triples: among the first fifteen tamperings (the later ones - a key sent twice, case variants, escaped spellings -
		// are variations of "an extra top-level key" and take part in the singles and pairs)
		nTriple := 15
		for i := 1; i < nTriple; i++ {
			for j := i + 1; j < nTriple; j++ {
				for k := j + 1; k < nTriple; k++ {
					sets = append(sets, []string{tamperNames[i], tamperNames[j], tamperNames[k]})
				}
			}
		}
	}
	type job struct {
		ver string
		p   evalpha.Proto
	}
	var jobs []job
	for _, v := range refversions.All() {
		ps := evalpha.Protos(v, false)
		if r.Thorough() {
			ps = evalpha.Protos(v, true)
		}
		for _, p := range ps {
			jobs = append(jobs, job{v, p})
		}
		// fields within 255 code points but over 255 bytes: the event is returned together with a "persistable" error
		wide := strings.Repeat("\u00e9", 130)
		for _, p := range ps {
			if p.Type == "m.room.message" && (p.Depth == 1 || p.Depth == 2) && p.Unsigned == "" && p.Signer == 0 && len(p.Prev) == 1 && len(p.Auth) == 1 && p.PreSig == "" {
				a, b, c := p, p, p
				a.Type = wide
				b.Type, b.StateKey = "org.example.state", &wide
				c.Sender = "@" + wide[:250] + ":a.org"
				jobs = append(jobs, job{v, a}, job{v, b}, job{v, c})
				break
			}
		}
	}
	r.Parallel(len(jobs), func(i int) {
		j := jobs[i]
		// interleave: genuine, tampered, genuine, other tampered ... all in one process
		for _, ts := range sets {
			for _, order := range [][]string{nil, ts} {
				c := c04Case{j.ver, j.p, order}
				if err := runCase(r, c); err != nil {
					tt := append([]string(nil), order...)
					sort.Strings(tt)
					r.Violation(fmt.Sprintf("case:%s:%s:%v", j.ver, j.p.Type, tt), err.Error(), "case", c)
				}
			}
		}
	})
	r.Count("events", int64(len(jobs)))
	r.Count("tamper_sets", int64(len(sets)))
	r.Sample("case", c04Case{"10", evalpha.Protos("10", false)[9], []string{"content-unprotected", "unsigned"}})
	r.Sample("case", c04Case{"11", evalpha.Protos("11", false)[9], []string{"redacts-top"}})
}
