// C15 — join, leave and invite handshakes admit only well-formed, authorised requests.
// Full products of small parameter alphabets per handler; oracle = guard
// soundness: whatever is ACCEPTED satisfies every condition the property lists
// (computed from the parameters) and carries the local server's valid signature
// over the unmodified event. A vacuity guard demands that each handler accepts
// a non-trivial share of its product.
package main

import (
	"context"
	"crypto/ed25519"
	"encoding/json"
	"errors"
	"fmt"
	"strings"
	"sync/atomic"

	gmsl "github.com/matrix-org/gomatrixserverlib"
	"github.com/matrix-org/gomatrixserverlib/spec"

	"verif/mc/evgen"
	"verif/mc/fedgen"
	"verif/mc/harness"
	"verif/mc/srgen"
)

const local = "a.org" // the local server (alice's); dave@d.org is the remote user
var localKey = fedgen.Keys["a.org"]

func roomPDUs(version string, extra ...srgen.Action) (*srgen.History, srgen.State, map[string]gmsl.PDU, map[string]*fedgen.Real, error) {
	h, st := srgen.New(version, 0, 0)
	tip := []string{h.Order[len(h.Order)-1].ID}
	st, _, _ = h.Branch(st, tip, extra)
	real, _, err := fedgen.Materialise(h, nil)
	if err != nil {
		return nil, nil, nil, nil, err
	}
	pdus := map[string]gmsl.PDU{}
	for _, rr := range real {
		p, err := gmsl.MustGetRoomVersion(gmsl.RoomVersion(version)).NewEventFromTrustedJSON(rr.JSON, false)
		if err != nil {
			return nil, nil, nil, nil, err
		}
		pdus[rr.Nominal] = p
	}
	return h, st, pdus, real, nil
}

// ---------------------------------------------------------------- make_join

type mjCase struct {
	Version       string
	RemoteHas     bool
	OriginMatches bool
	LocalInRoom   bool
	JoinRule      string // public | invite | restricted | none
	Pending       bool
	Resident      bool // local server in the allowed room
	UserInAllowed bool
	Authoriser    string // none | low | high | creator
	PLMissing     bool
	Template      string // ok | banned | nil-event | nil-state | error | wrong-type
}

type mjQuerier struct {
	c    mjCase
	pdus map[string]gmsl.PDU
	jr   gmsl.PDU
	pl   gmsl.PDU
	auth []gmsl.PDU
}

func (q *mjQuerier) CurrentStateEvent(ctx context.Context, roomID spec.RoomID, t, sk string) (gmsl.PDU, error) {
	switch t {
	case "m.room.join_rules":
		return q.jr, nil
	case "m.room.power_levels":
		if q.c.PLMissing {
			return nil, nil
		}
		return q.pl, nil
	case "m.room.create":
		return q.pdus["create"], nil
	}
	return nil, nil
}
func (q *mjQuerier) InvitePending(ctx context.Context, roomID spec.RoomID, s spec.SenderID) (bool, error) {
	return q.c.Pending, nil
}
func (q *mjQuerier) RestrictedRoomJoinInfo(ctx context.Context, roomID spec.RoomID, s spec.SenderID, l spec.ServerName) (*gmsl.RestrictedRoomJoinInfo, error) {
	return &gmsl.RestrictedRoomJoinInfo{LocalServerInRoom: q.c.Resident, UserJoinedToRoom: q.c.UserInAllowed, JoinedUsers: q.auth}, nil
}

func trusted(version string, e evgen.Ev, id string) gmsl.PDU {
	e.NoHash = true
	p, err := gmsl.MustGetRoomVersion(gmsl.RoomVersion(version)).NewEventFromTrustedJSONWithEventID(id, e.JSON(version), false)
	if err != nil {
		panic(err)
	}
	return p
}

func runMakeJoin(r *harness.Run, c mjCase) (bool, error) {
	r.Eval()
	h, st := srgen.New(c.Version, 0, 0)
	room := h.RoomID
	mk := func(e *srgen.E, content string) gmsl.PDU {
		x := *e
		if content != "" {
			x.Content = content
		}
		p, err := h.PDU(&x)
		if err != nil {
			panic(err)
		}
		return p
	}
	pdus := map[string]gmsl.PDU{}
	for _, e := range h.Order {
		pdus[e.Type+"/"+e.SK] = mk(e, "")
	}
	pdus["create"] = pdus["m.room.create/"]
	q := &mjQuerier{c: c, pdus: pdus}
	invite := int64(50)
	plc := `{"users":{"` + srgen.Alice + `":100,"` + srgen.Bob + `":50,"` + srgen.Carol + `":10},"invite":50}`
	if h.Version == "12" || h.Version == "org.matrix.hydra.11" {
		plc = `{"users":{"` + srgen.Bob + `":50,"` + srgen.Carol + `":10},"invite":50}`
	}
	_ = invite
	q.pl = mk(st["m.room.power_levels\x00"], plc)
	switch c.JoinRule {
	case "none":
		q.jr = nil
	case "restricted":
		q.jr = mk(st["m.room.join_rules\x00"], `{"join_rule":"restricted","allow":[{"type":"m.room_membership","room_id":"!allowed:a.org"}]}`)
	default:
		q.jr = mk(st["m.room.join_rules\x00"], `{"join_rule":"`+c.JoinRule+`"}`)
	}
	switch c.Authoriser {
	case "low":
		q.auth = []gmsl.PDU{pdus["m.room.member/"+srgen.Carol]}
	case "high":
		q.auth = []gmsl.PDU{pdus["m.room.member/"+srgen.Carol], pdus["m.room.member/"+srgen.Bob]}
	case "creator":
		q.auth = []gmsl.PDU{pdus["m.room.member/"+srgen.Alice]}
	}
	user, _ := spec.NewUserID(srgen.Dave, true)
	origin := "d.org"
	if !c.OriginMatches {
		origin = "evil.org"
	}
	remote := []gmsl.RoomVersion{}
	for _, v := range []string{"1", "6", "11"} {
		if v != c.Version {
			remote = append(remote, gmsl.RoomVersion(v))
		}
	}
	if c.RemoteHas {
		remote = append(remote, gmsl.RoomVersion(c.Version))
	}
	rid, _ := spec.NewRoomID(room)
	var builtEvent gmsl.PDU
	var builtState []gmsl.PDU
	in := gmsl.HandleMakeJoinInput{Context: context.Background(), UserID: *user, SenderID: spec.SenderID(srgen.Dave), RoomID: *rid, RoomVersion: gmsl.RoomVersion(c.Version),
		RemoteVersions: remote, RequestOrigin: spec.ServerName(origin), LocalServerName: local, LocalServerInRoom: c.LocalInRoom, RoomQuerier: q, UserIDQuerier: fedgen.UID,
		BuildEventTemplate: func(pe *gmsl.ProtoEvent) (gmsl.PDU, []gmsl.PDU, error) {
			switch c.Template {
			case "error":
				return nil, nil, spec.InternalServerError{Err: "scripted"}
			case "nil-event":
				return nil, []gmsl.PDU{}, nil
			}
			sk := ""
			if pe.StateKey != nil {
				sk = *pe.StateKey
			}
			typ := pe.Type
			if c.Template == "wrong-type" {
				typ = "m.room.topic"
			}
			ev := trusted(c.Version, evgen.Ev{Type: typ, Sender: pe.SenderID, RoomID: pe.RoomID, StateKey: &sk, Content: string(pe.Content), Prev: []string{"$p" + strings.Repeat("x", 42)}, Auth: []string{}, Depth: 9, TS: 9, EventID: "$tmpl:a.org"}, "$tmpl"+strings.Repeat("t", 39))
			state := []gmsl.PDU{pdus["create"], q.pl, pdus["m.room.member/"+srgen.Alice], pdus["m.room.member/"+srgen.Bob], pdus["m.room.member/"+srgen.Carol]}
			if q.jr != nil {
				state = append(state, q.jr)
			}
			if c.Pending {
				x := *st["m.room.member\x00"+srgen.Carol]
				x.SK, x.Sender, x.Content, x.ID = srgen.Dave, srgen.Bob, `{"membership":"invite"}`, "$inv"+strings.Repeat("i", 40)
				p, _ := h.PDU(&x)
				state = append(state, p)
			}
			if c.Template == "banned" {
				x := *st["m.room.member\x00"+srgen.Carol]
				x.SK, x.Sender, x.Content, x.ID = srgen.Dave, srgen.Alice, `{"membership":"ban"}`, "$ban"+strings.Repeat("b", 40)
				p, _ := h.PDU(&x)
				state = append(state, p)
			}
			if c.Template == "nil-state" {
				return ev, nil, nil
			}
			builtEvent, builtState = ev, state
			return ev, state, nil
		}}
	var resp *gmsl.HandleMakeJoinResponse
	var err error
	if p, msg := harness.Try(func() { resp, err = gmsl.HandleMakeJoin(in) }); p {
		return false, fmt.Errorf("HandleMakeJoin panics: %s", msg)
	}
	if err != nil || resp == nil {
		r.Outcome("make_join-refused")
		return false, nil
	}
	r.Outcome("make_join-accepted")
	// soundness of the guard
	var why []string
	if !c.RemoteHas {
		why = append(why, "remote does not support the room version")
	}
	if !c.OriginMatches {
		why = append(why, "user does not belong to the requesting server")
	}
	if !c.LocalInRoom {
		why = append(why, "local server not in the room")
	}
	var content struct {
		Via string `json:"join_authorised_via_users_server"`
		M   string `json:"membership"`
	}
	_ = json.Unmarshal(resp.JoinTemplateEvent.Content, &content)
	restrictedVersion := c.Version == "8" || c.Version == "10" || c.Version == "12"
	if c.JoinRule == "restricted" && restrictedVersion && !c.Pending {
		switch {
		case content.Via == "":
			why = append(why, "restricted join without an authorising user")
		case !strings.HasSuffix(content.Via, ":"+local) && content.Via != srgen.Bob:
			why = append(why, "authorising user "+content.Via+" is not local")
		}
		ok := false
		for _, a := range q.auth {
			if a.StateKey() != nil && *a.StateKey() == content.Via {
				ok = true
			}
		}
		if !ok {
			why = append(why, "authorising user "+content.Via+" is not among the joined local users")
		}
		if content.Via == srgen.Carol {
			why = append(why, "authorising user cannot invite (level 10 < 50)")
		}
		if !c.Resident || !c.UserInAllowed {
			why = append(why, "not resident / user not in the allowed room")
		}
	}
	if content.M != "join" || resp.JoinTemplateEvent.Type != "m.room.member" || resp.JoinTemplateEvent.StateKey == nil || *resp.JoinTemplateEvent.StateKey != srgen.Dave {
		why = append(why, "template is not a join of the requested user")
	}
	if builtEvent == nil {
		why = append(why, "no event was built")
	} else {
		prov, _ := gmsl.NewAuthEvents(builtState)
		if gmsl.Allowed(builtEvent, prov, fedgen.UID) != nil {
			why = append(why, "the resulting event does not pass the auth rules")
		}
	}
	if len(why) > 0 {
		return true, fmt.Errorf("HandleMakeJoin returned a template although %s (%+v)", strings.Join(why, "; "), c)
	}
	return true, nil
}

// ---------------------------------------------------------------- send_join

type sjCase struct {
	Version        string
	Membership     string // join | leave | invite
	StateKey       string // sender | other | empty | absent
	RoomMatches    bool
	EventIDMatches bool
	OriginMatches  bool
	Signature      string // valid | absent | other-key
	Current        string // "" | join | ban | leave | invite
	Via            string // "" | local | remote | malformed
	QuerierError   bool
}

type memQ struct {
	m   string
	err bool
	who string // when set, only this sender has membership m; everyone else has none
}

func (q memQ) CurrentMembership(ctx context.Context, r spec.RoomID, s spec.SenderID) (string, error) {
	if q.err {
		return "", errors.New("scripted")
	}
	if q.who != "" && string(s) != q.who {
		return "", nil
	}
	return q.m, nil
}

func runSendJoin(r *harness.Run, c sjCase) (bool, error) {
	r.Eval()
	h, st := srgen.New(c.Version, 0, 0)
	content := `{"membership":"` + c.Membership + `"`
	switch c.Via {
	case "local":
		content += `,"join_authorised_via_users_server":"` + srgen.Alice + `"`
	case "remote":
		content += `,"join_authorised_via_users_server":"` + srgen.Bob + `"`
	case "malformed":
		content += `,"join_authorised_via_users_server":"nobody"`
	}
	content += "}"
	join := srgen.Action{Name: "dave-joins", Type: "m.room.member", SK: srgen.Dave, Sender: srgen.Dave, Content: content}
	e := h.Add(join, st, []string{h.Order[len(h.Order)-1].ID})
	opt := fedgen.Opt{}
	switch c.StateKey {
	case "other":
		opt.StateKey = evgen.S(srgen.Carol)
	case "empty":
		opt.StateKey = evgen.S("")
	case "absent":
		opt.NoStateKey = true
	}
	if !c.RoomMatches {
		opt.Room = "!elsewhere:a.org"
	}
	switch c.Signature {
	case "absent":
		opt.Unsigned = true
	case "other-key":
		opt.BadSignature = true
	}
	var verifier gmsl.JSONVerifier = fedgen.Verifier{}
	if c.Signature == "key-not-valid-at-event-time" {
		// a genuinely signed event dated in the year 2100, and a key ring that knows the key to be valid until 2090 only
		e.TS = 4102444800000
		verifier = timedVerifier{3786912000000}
	}
	real, _, err := fedgen.Materialise(h, map[string]fedgen.Opt{e.ID: opt})
	if err != nil {
		return false, fmt.Errorf("harness: %v", err)
	}
	rr := real[e.ID]
	if c.Signature == "valid+forged-local" {
		// the requesting server claims that we signed the event already
		cp := *rr
		cp.JSON = forgeSig(rr.JSON, local, localKey.KeyID)
		rr = &cp
	}
	reqEventID := rr.ID
	if !c.EventIDMatches {
		reqEventID = "$somethingelse" + strings.Repeat("x", 29)
		if strings.Contains(rr.ID, ":") {
			reqEventID = "$other:d.org"
		}
	}
	origin := "d.org"
	if !c.OriginMatches {
		origin = "evil.org"
	}
	rid, _ := spec.NewRoomID(fedgen.RealRoom(h, real))
	in := gmsl.HandleSendJoinInput{Context: context.Background(), RoomID: *rid, EventID: reqEventID, JoinEvent: rr.JSON, RoomVersion: gmsl.RoomVersion(c.Version), RequestOrigin: spec.ServerName(origin),
		LocalServerName: local, KeyID: gmsl.KeyID(localKey.KeyID), PrivateKey: localKey.Priv, Verifier: verifier, MembershipQuerier: memQ{m: c.Current, err: c.QuerierError}, UserIDQuerier: fedgen.UID,
		StoreSenderIDFromPublicID: func(ctx context.Context, s spec.SenderID, u string, r spec.RoomID) error { return nil }}
	var resp *gmsl.HandleSendJoinResponse
	var herr error
	if p, msg := harness.Try(func() { resp, herr = gmsl.HandleSendJoin(in) }); p {
		return false, fmt.Errorf("HandleSendJoin panics: %s", msg)
	}
	if herr != nil || resp == nil {
		r.Outcome("send_join-refused")
		return false, nil
	}
	r.Outcome("send_join-accepted")
	var why []string
	if c.Membership != "join" {
		why = append(why, "membership is "+c.Membership)
	}
	if c.StateKey != "sender" {
		why = append(why, "state key is not the sender")
	}
	if !c.RoomMatches {
		why = append(why, "room ID differs from the request")
	}
	if !c.EventIDMatches {
		why = append(why, "event ID differs from the request")
	}
	if !c.OriginMatches {
		why = append(why, "sender does not belong to the requesting server")
	}
	if c.Signature != "valid" && c.Signature != "valid+forged-local" {
		why = append(why, "sender's server signature "+c.Signature)
	}
	if c.Current == "ban" {
		why = append(why, "user is banned")
	}
	if c.Via == "remote" || c.Via == "malformed" {
		why = append(why, "authorising user is "+c.Via)
	}
	if c.QuerierError {
		why = append(why, "membership could not be determined")
	}
	if resp.AlreadyJoined != (c.Current == "join") {
		why = append(why, fmt.Sprintf("AlreadyJoined=%v with current membership %q", resp.AlreadyJoined, c.Current))
	}
	if s := countersigned(c.Version, resp.JoinEvent, rr); s != "" {
		why = append(why, s)
	}
	if len(why) > 0 {
		return true, fmt.Errorf("HandleSendJoin accepted a join although %s (%+v)", strings.Join(why, "; "), c)
	}
	return true, nil
}

// countersigned: the returned PDU is the unmodified event plus a valid signature of the local server
func countersigned(version string, ev gmsl.PDU, orig *fedgen.Real) string {
	if ev == nil {
		return "no event returned"
	}
	if ev.EventID() != orig.ID {
		return fmt.Sprintf("returned event has ID %s, the request's event has %s", ev.EventID(), orig.ID)
	}
	red, err := gmsl.MustGetRoomVersion(gmsl.RoomVersion(version)).RedactEventJSON(ev.JSON())
	if err != nil {
		return "returned event cannot be redacted"
	}
	if gmsl.VerifyJSON(local, gmsl.KeyID(localKey.KeyID), localKey.Pub, red) != nil {
		return "returned event does not carry a valid signature of the local server"
	}
	a, b := evgen.MustParse(ev.JSON()), evgen.MustParse(orig.JSON)
	for _, k := range []string{"content", "type", "sender", "state_key", "room_id", "prev_events", "auth_events", "depth", "origin_server_ts", "hashes"} {
		x, y := evgen.Get(a, k), evgen.Get(b, k)
		if (x == nil) != (y == nil) || (x != nil && string(canon(x)) != string(canon(y))) {
			return "returned event differs from the request's event in " + k
		}
	}
	return ""
}

// ---------------------------------------------------------------- invite

type invCase struct {
	Version     string
	Kind        string // invite | join | topic
	Target      string // invited | other
	RoomMatches bool
	Signature   string // valid | absent | other-key
	Known       bool
	Current     string // "" | join | leave | invite
	Stripped    string // given | empty-state-from-querier | none
	RoomQErr    bool
}

type roomQ struct {
	known bool
	err   bool
}

func (q roomQ) IsKnownRoom(ctx context.Context, r spec.RoomID) (bool, error) {
	if q.err {
		return false, errors.New("scripted")
	}
	return q.known, nil
}

type stateQ struct{ events []gmsl.PDU }

func (q stateQ) GetAuthEvents(ctx context.Context, e gmsl.PDU) (gmsl.AuthEventProvider, error) {
	return gmsl.NewAuthEvents(nil)
}
func (q stateQ) GetState(ctx context.Context, r spec.RoomID, w []gmsl.StateKeyTuple) ([]gmsl.PDU, error) {
	return q.events, nil
}

func runInvite(r *harness.Run, c invCase) (bool, error) {
	r.Eval()
	h, st := srgen.New(c.Version, 0, 0)
	// the inviter is bob@b.org (remote), the invited user is a local user
	invited := "@newuser:" + local
	target := invited
	if c.Target == "other" {
		target = "@someoneelse:c.org"
	}
	a := srgen.Action{Name: "bob-invites", Type: "m.room.member", SK: target, Sender: srgen.Bob, Content: `{"membership":"invite"}`}
	switch c.Kind {
	case "join":
		a.Content = `{"membership":"join"}`
	case "topic":
		a = srgen.Action{Name: "bob-topic", Type: "m.room.topic", SK: "", Sender: srgen.Bob, Content: `{"topic":"x"}`}
	}
	e := h.Add(a, st, []string{h.Order[len(h.Order)-1].ID})
	opt := fedgen.Opt{}
	if !c.RoomMatches {
		opt.Room = "!elsewhere:a.org"
	}
	switch c.Signature {
	case "absent":
		opt.Unsigned = true
	case "other-key":
		opt.BadSignature = true
	}
	var verifier gmsl.JSONVerifier = fedgen.Verifier{}
	if c.Signature == "key-not-valid-at-event-time" {
		e.TS = 4102444800000 // the year 2100; the key is known to be valid until 2090
		verifier = timedVerifier{3786912000000}
	}
	// fedgen signs invites with the target's server too; the local server's signature must come from the handler
	real, _, err := fedgen.Materialise(h, map[string]fedgen.Opt{e.ID: opt})
	if err != nil {
		r.Count("invite_unconstructible:"+err.Error(), 1)
		return false, nil
	}
	rr := real[e.ID]
	// strip a pre-existing local signature so that the handler's own signature is what is checked
	js := stripSig(rr.JSON, local)
	if c.Signature == "valid+forged-local" {
		js = forgeSig(js, local, localKey.KeyID)
	}
	ver := gmsl.MustGetRoomVersion(gmsl.RoomVersion(c.Version))
	ev, err := ver.NewEventFromUntrustedJSON(js)
	if err != nil {
		r.Count("invite_unparsable:"+err.Error(), 1)
		return false, nil
	}
	rid, _ := spec.NewRoomID(fedgen.RealRoom(h, real))
	iu, _ := spec.NewUserID(invited, true)
	var sq stateQ
	var stripped []gmsl.InviteStrippedState
	switch c.Stripped {
	case "given":
		p, _ := h.PDU(st["m.room.join_rules\x00"])
		stripped = []gmsl.InviteStrippedState{gmsl.NewInviteStrippedState(p)}
	case "empty-state-from-querier":
	case "state-from-querier":
		p, _ := h.PDU(st["m.room.join_rules\x00"])
		sq.events = []gmsl.PDU{p}
	}
	in := gmsl.HandleInviteInput{RoomID: *rid, RoomVersion: gmsl.RoomVersion(c.Version), InvitedUser: *iu, InvitedSenderID: spec.SenderID(invited), InviteEvent: ev, StrippedState: stripped,
		KeyID: gmsl.KeyID(localKey.KeyID), PrivateKey: localKey.Priv, Verifier: verifier, RoomQuerier: roomQ{c.Known, c.RoomQErr}, MembershipQuerier: memQ{m: c.Current, who: target}, StateQuerier: sq, UserIDQuerier: fedgen.UID}
	var out gmsl.PDU
	var herr error
	if p, msg := harness.Try(func() { out, herr = gmsl.HandleInvite(context.Background(), in) }); p {
		return false, fmt.Errorf("HandleInvite panics: %s", msg)
	}
	if herr != nil || out == nil {
		r.Outcome("invite-refused")
		return false, nil
	}
	r.Outcome("invite-accepted")
	var why []string
	if c.Kind != "invite" {
		why = append(why, "the event is not an invite ("+c.Kind+")")
	}
	if c.Kind == "invite" && c.Target != "invited" {
		why = append(why, "the invite's target is not the invited user of the request")
	}
	if !c.RoomMatches {
		why = append(why, "room ID differs from the request")
	}
	if c.Signature != "valid" && c.Signature != "valid+forged-local" {
		why = append(why, "sender's server signature "+c.Signature)
	}
	if c.Known && c.Current == "join" {
		why = append(why, "the event's target is already joined")
	}
	if c.RoomQErr {
		why = append(why, "room lookup failed")
	}
	if s := countersigned(c.Version, out, &fedgen.Real{ID: ev.EventID(), JSON: js}); s != "" {
		why = append(why, s)
	}
	if len(why) > 0 {
		return true, fmt.Errorf("HandleInvite accepted although %s (%+v)", strings.Join(why, "; "), c)
	}
	return true, nil
}

// forgeSig adds a worthless signature under (server, keyID), keeping the others.
func forgeSig(js []byte, server, keyID string) []byte {
	v := evgen.MustParse(js)
	m := map[string]map[string][]byte{}
	if sigs := evgen.Get(v, "signatures"); sigs != nil {
		for _, sm := range sigs.Members {
			m[sm.Key] = map[string][]byte{}
			for _, km := range sm.Val.Members {
				b, _ := evgen.DecodeB64(km.Val.Str)
				m[sm.Key][km.Key] = b
			}
		}
	}
	if m[server] == nil {
		m[server] = map[string][]byte{}
	}
	m[server][keyID] = make([]byte, 64)
	return evgen.WithSignatures(js, m)
}

func stripSig(js []byte, server string) []byte {
	v := evgen.MustParse(js)
	sigs := evgen.Get(v, "signatures")
	if sigs == nil {
		return js
	}
	m := map[string]map[string][]byte{}
	for _, sm := range sigs.Members {
		if sm.Key == server {
			continue
		}
		m[sm.Key] = map[string][]byte{}
		for _, km := range sm.Val.Members {
			b, _ := evgen.DecodeB64(km.Val.Str)
			m[sm.Key][km.Key] = b
		}
	}
	return evgen.WithSignatures(js, m)
}

// ---------------------------------------------------------------- invite v3 (pseudo-ID rooms)

type inv3Case struct {
	RoomMatches bool
	SenderIDErr bool
	Known       bool
	Current     string // "" | join | leave | invite
	Stripped    string // given | empty-state-from-querier | state-from-querier
	RoomQErr    bool
	Kind        string // invite | join | topic (what the proto event is)
}

func runInviteV3(r *harness.Run, c inv3Case) (bool, error) {
	r.Eval()
	const version = "org.matrix.msc4014"
	h, st := srgen.New("10", 0, 0) // only used for a join-rules event to strip
	room := "!room:b.org"
	reqRoom := room
	if !c.RoomMatches {
		reqRoom = "!elsewhere:b.org"
	}
	key := evgen.NewKey("pseudo", "ed25519:1", 77)
	senderID := spec.SenderIDFromPseudoIDKey(key.Priv)
	inviter := spec.SenderIDFromPseudoIDKey(evgen.NewKey("pseudo", "ed25519:1", 78).Priv)
	sk := "placeholder"
	proto := gmsl.ProtoEvent{SenderID: string(inviter), RoomID: room, Type: "m.room.member", StateKey: &sk, PrevEvents: []string{"$p" + strings.Repeat("x", 42)}, AuthEvents: []string{}, Depth: 4, Content: spec.RawJSON(`{"membership":"invite"}`)}
	switch c.Kind {
	case "join":
		proto.Content = spec.RawJSON(`{"membership":"join"}`)
	case "topic":
		proto.Type, proto.Content = "m.room.topic", spec.RawJSON(`{"topic":"x"}`)
	}
	rid, _ := spec.NewRoomID(reqRoom)
	iu, _ := spec.NewUserID("@newuser:"+local, true)
	var sq stateQ
	var stripped []gmsl.InviteStrippedState
	switch c.Stripped {
	case "given":
		p, _ := h.PDU(st["m.room.join_rules\x00"])
		stripped = []gmsl.InviteStrippedState{gmsl.NewInviteStrippedState(p)}
	case "state-from-querier":
		p, _ := h.PDU(st["m.room.join_rules\x00"])
		sq.events = []gmsl.PDU{p}
	}
	in := gmsl.HandleInviteV3Input{HandleInviteInput: gmsl.HandleInviteInput{RoomID: *rid, RoomVersion: version, InvitedUser: *iu, InvitedSenderID: senderID, StrippedState: stripped,
		KeyID: gmsl.KeyID(localKey.KeyID), PrivateKey: localKey.Priv, Verifier: fedgen.Verifier{}, RoomQuerier: roomQ{c.Known, c.RoomQErr}, MembershipQuerier: memQ{m: c.Current, who: string(senderID)}, StateQuerier: sq, UserIDQuerier: fedgen.UID},
		InviteProtoEvent: proto,
		GetOrCreateSenderID: func(ctx context.Context, u spec.UserID, rm spec.RoomID, v string) (spec.SenderID, ed25519.PrivateKey, error) {
			if c.SenderIDErr {
				return "", nil, errors.New("scripted")
			}
			return senderID, key.Priv, nil
		}}
	var out gmsl.PDU
	var herr error
	if p, msg := harness.Try(func() { out, herr = gmsl.HandleInviteV3(context.Background(), in) }); p {
		return false, fmt.Errorf("HandleInviteV3 panics: %s", msg)
	}
	if herr != nil || out == nil {
		r.Outcome("invite_v3-refused")
		return false, nil
	}
	r.Outcome("invite_v3-accepted")
	var why []string
	if c.Kind != "invite" {
		why = append(why, "the proto event is not an invite ("+c.Kind+")")
	}
	if !c.RoomMatches {
		why = append(why, "room ID differs from the request")
	}
	if c.SenderIDErr {
		why = append(why, "no sender ID could be created")
	}
	if c.Known && c.Current == "join" {
		why = append(why, "the invited user is already joined")
	}
	if c.RoomQErr {
		why = append(why, "room lookup failed")
	}
	if out.StateKey() == nil || *out.StateKey() != string(senderID) {
		why = append(why, "the returned event is not addressed to the invited user's sender ID")
	}
	if out.Type() != proto.Type || string(out.SenderID()) != string(inviter) || out.RoomID().String() != room {
		why = append(why, "the returned event differs from the proto event")
	}
	// signed by the invited user's room key over the unmodified event
	if err := gmsl.VerifyJSON(string(senderID), "ed25519:1", key.Pub, redactedOf(version, out.JSON())); err != nil {
		why = append(why, "no valid signature of the invited user's room key: "+err.Error())
	}
	if len(why) > 0 {
		return true, fmt.Errorf("HandleInviteV3 accepted although %s (%+v)", strings.Join(why, "; "), c)
	}
	return true, nil
}

func redactedOf(version string, js []byte) []byte {
	b, err := gmsl.MustGetRoomVersion(gmsl.RoomVersion(version)).RedactEventJSON(js)
	if err != nil {
		return js
	}
	return b
}

// ---------------------------------------------------------------- make_leave

type mlCase struct {
	Version       string
	OriginMatches bool
	LocalInRoom   bool
	Template      string // ok | not-in-room | nil-event | nil-state | error | wrong-type
}

func runMakeLeave(r *harness.Run, c mlCase) (bool, error) {
	r.Eval()
	h, st := srgen.New(c.Version, 0, 0)
	user, _ := spec.NewUserID(srgen.Carol, true)
	origin := "c.org"
	if !c.OriginMatches {
		origin = "evil.org"
	}
	rid, _ := spec.NewRoomID(h.RoomID)
	var builtEvent gmsl.PDU
	var builtState []gmsl.PDU
	in := gmsl.HandleMakeLeaveInput{UserID: *user, SenderID: spec.SenderID(srgen.Carol), RoomID: *rid, RoomVersion: gmsl.RoomVersion(c.Version), RequestOrigin: spec.ServerName(origin), LocalServerName: local,
		LocalServerInRoom: c.LocalInRoom, UserIDQuerier: fedgen.UID,
		BuildEventTemplate: func(pe *gmsl.ProtoEvent) (gmsl.PDU, []gmsl.PDU, error) {
			switch c.Template {
			case "error":
				return nil, nil, spec.InternalServerError{Err: "scripted"}
			case "nil-event":
				return nil, []gmsl.PDU{}, nil
			}
			typ := pe.Type
			if c.Template == "wrong-type" {
				typ = "m.room.topic"
			}
			ev := trusted(c.Version, evgen.Ev{Type: typ, Sender: pe.SenderID, RoomID: pe.RoomID, StateKey: pe.StateKey, Content: string(pe.Content), Prev: []string{"$p" + strings.Repeat("x", 42)}, Auth: []string{}, Depth: 9, TS: 9, EventID: "$tmpl:a.org"}, "$tmpl"+strings.Repeat("t", 39))
			var state []gmsl.PDU
			for k, e := range st {
				if c.Template == "not-in-room" && strings.Contains(k, srgen.Carol) {
					x := *e
					x.Sender, x.Content = srgen.Alice, `{"membership":"ban"}`
					p, _ := h.PDU(&x)
					state = append(state, p)
					continue
				}
				p, _ := h.PDU(e)
				state = append(state, p)
			}
			if c.Template == "nil-state" {
				return ev, nil, nil
			}
			builtEvent, builtState = ev, state
			return ev, state, nil
		}}
	var resp *gmsl.HandleMakeLeaveResponse
	var err error
	if p, msg := harness.Try(func() { resp, err = gmsl.HandleMakeLeave(in) }); p {
		return false, fmt.Errorf("HandleMakeLeave panics: %s", msg)
	}
	if err != nil || resp == nil {
		r.Outcome("make_leave-refused")
		return false, nil
	}
	r.Outcome("make_leave-accepted")
	var why []string
	if !c.OriginMatches {
		why = append(why, "user does not belong to the requesting server")
	}
	if !c.LocalInRoom {
		why = append(why, "local server not in the room")
	}
	if builtEvent == nil {
		why = append(why, "no event was built")
	} else {
		prov, _ := gmsl.NewAuthEvents(builtState)
		if gmsl.Allowed(builtEvent, prov, fedgen.UID) != nil {
			why = append(why, "the resulting event does not pass the auth rules")
		}
	}
	if len(why) > 0 {
		return true, fmt.Errorf("HandleMakeLeave returned a template although %s (%+v)", strings.Join(why, "; "), c)
	}
	return true, nil
}

// ---------------------------------------------------------------- PerformJoin

type pjCase struct {
	Version  string
	MakeJoin string // ok | error | unknown-version
	SendJoin string // ok | error | no-create | create-unknown-version | create-only-in-state | bad-signatures | join-not-allowed | echo-foreign-join | invited-in-state | invited-only-in-auth-chain
	// MembersOmitted: the send_join response says it left member events out of the state (partial-state join)
	MembersOmitted bool `json:",omitempty"`
}

type joinClient struct {
	c     pjCase
	real  map[string]*fedgen.Real
	h     *srgen.History
	order []*fedgen.Real
}

type mjResp struct {
	pe  gmsl.ProtoEvent
	ver gmsl.RoomVersion
}

func (m mjResp) GetJoinEvent() gmsl.ProtoEvent    { return m.pe }
func (m mjResp) GetRoomVersion() gmsl.RoomVersion { return m.ver }

type sjResp struct {
	auth, state gmsl.EventJSONs
	join        spec.RawJSON
	omitted     bool
}

func (s sjResp) GetAuthEvents() gmsl.EventJSONs  { return s.auth }
func (s sjResp) GetStateEvents() gmsl.EventJSONs { return s.state }
func (s sjResp) GetOrigin() spec.ServerName      { return "a.org" }
func (s sjResp) GetJoinEvent() spec.RawJSON      { return s.join }
func (s sjResp) GetMembersOmitted() bool         { return s.omitted }
func (s sjResp) GetServersInRoom() []string      { return nil }

func (j *joinClient) MakeJoin(ctx context.Context, origin, s spec.ServerName, roomID, userID string) (gmsl.MakeJoinResponse, error) {
	if j.c.MakeJoin == "error" {
		return nil, errors.New("scripted")
	}
	ver := gmsl.RoomVersion(j.c.Version)
	if j.c.MakeJoin == "unknown-version" {
		ver = "not.a.version"
	}
	var auth, prev []string
	for _, rr := range j.order {
		k := rr.E.Key()
		if k == "m.room.create\x00" || k == "m.room.power_levels\x00" || k == "m.room.join_rules\x00" || k == "m.room.member\x00"+userID {
			auth = append(auth, rr.ID)
		}
	}
	prev = []string{j.order[len(j.order)-1].ID}
	sk := userID
	return mjResp{gmsl.ProtoEvent{SenderID: userID, RoomID: roomID, Type: "m.room.member", StateKey: &sk, PrevEvents: prev, AuthEvents: auth, Depth: 8, Content: spec.RawJSON(`{"membership":"join"}`)}, ver}, nil
}

func (j *joinClient) SendJoin(ctx context.Context, origin, s spec.ServerName, event gmsl.PDU) (gmsl.SendJoinResponse, error) {
	if j.c.SendJoin == "error" {
		return nil, errors.New("scripted")
	}
	var out sjResp
	out.omitted = j.c.MembersOmitted
	for _, rr := range j.order {
		isCreate := rr.E.Type == "m.room.create"
		js := spec.RawJSON(rr.JSON)
		switch j.c.SendJoin {
		case "invited-only-in-auth-chain":
			// the invite the join relies on is part of the auth chain but not of the state the remote returns
			if rr.E.Key() == "m.room.member\x00"+srgen.Dave {
				out.auth = append(out.auth, js)
				continue
			}
		case "no-create":
			if isCreate {
				continue
			}
		case "create-only-in-state":
			if isCreate {
				out.state = append(out.state, js)
				continue
			}
		}
		out.auth = append(out.auth, js)
		out.state = append(out.state, js)
	}
	return out, nil
}

func runPerformJoin(r *harness.Run, c pjCase) (bool, error) {
	r.Eval()
	h, st := srgen.New(c.Version, 0, 0)
	tip := []string{h.Order[len(h.Order)-1].ID}
	opts := map[string]fedgen.Opt{}
	switch c.SendJoin {
	case "create-unknown-version":
		opts[h.CreateID] = fedgen.Opt{ContentOverride: `{"creator":"` + srgen.Alice + `","room_version":"not.a.version"}`}
	case "bad-signatures":
		for _, e := range h.Order {
			opts[e.ID] = fedgen.Opt{BadSignature: true}
		}
	case "join-not-allowed":
		// the room became invite-only (and dave is not invited)
		st, tip, _ = h.Branch(st, tip, []srgen.Action{{Name: "jr-invite", Type: "m.room.join_rules", SK: "", Sender: srgen.Alice, Content: `{"join_rule":"invite"}`}})
	case "invited-in-state", "invited-only-in-auth-chain":
		// invite-only room, dave invited: the join stands or falls with the invite
		st, tip, _ = h.Branch(st, tip, []srgen.Action{{Name: "jr-invite", Type: "m.room.join_rules", SK: "", Sender: srgen.Alice, Content: `{"join_rule":"invite"}`},
			{Name: "alice-invites-dave", Type: "m.room.member", SK: srgen.Dave, Sender: srgen.Alice, Content: `{"membership":"invite"}`}})
	}
	_ = st
	real, order, err := fedgen.Materialise(h, opts)
	if err != nil {
		return false, fmt.Errorf("harness: %v", err)
	}
	// current state only (the superseded join rules event is not part of it)
	cur := map[string]*fedgen.Real{}
	for _, rr := range order {
		cur[rr.E.Key()] = rr
	}
	var curOrder []*fedgen.Real
	for _, rr := range order {
		if cur[rr.E.Key()] == rr {
			curOrder = append(curOrder, rr)
		}
	}
	cl := &joinClient{c: c, real: real, h: h, order: curOrder}
	user, _ := spec.NewUserID(srgen.Dave, true)
	rid, _ := spec.NewRoomID(fedgen.RealRoom(h, real))
	dk := fedgen.Keys["d.org"]
	ring := &gmsl.KeyRing{KeyDatabase: staticDB{}}
	in := gmsl.PerformJoinInput{UserID: user, RoomID: rid, ServerName: "a.org", PrivateKey: dk.Priv, KeyID: gmsl.KeyID(dk.KeyID), KeyRing: ring,
		EventProvider: func(v gmsl.RoomVersion, ids []string) ([]gmsl.PDU, error) { return nil, nil }, UserIDQuerier: fedgen.UID}
	var resp *gmsl.PerformJoinResponse
	var ferr *gmsl.FederationError
	if p, msg := harness.Try(func() { resp, ferr = gmsl.PerformJoin(context.Background(), cl, in) }); p {
		return false, fmt.Errorf("PerformJoin panics: %s", msg)
	}
	if ferr != nil || resp == nil {
		r.Outcome("perform_join-refused")
		if c.MakeJoin == "ok" && c.SendJoin == "ok" && ferr != nil {
			r.Count("perform_join_ok_refused:"+c.Version+": "+ferr.Error(), 1)
		}
		return false, nil
	}
	r.Outcome("perform_join-accepted")
	var why []string
	if c.MakeJoin != "ok" {
		why = append(why, "make_join "+c.MakeJoin)
	}
	switch c.SendJoin {
	case "error", "no-create", "create-unknown-version", "create-only-in-state", "join-not-allowed", "invited-only-in-auth-chain":
		why = append(why, "send_join response: "+c.SendJoin)
	case "bad-signatures":
		why = append(why, "no state event carries a valid signature")
	}
	if resp.JoinEvent == nil || resp.JoinEvent.Type() != "m.room.member" || !resp.JoinEvent.StateKeyEquals(srgen.Dave) {
		why = append(why, "the returned event is not the user's join")
	} else if m, _ := resp.JoinEvent.Membership(); m != "join" {
		why = append(why, "the returned event is not a join")
	}
	if len(why) > 0 {
		return true, fmt.Errorf("PerformJoin returned a join although %s (%+v)", strings.Join(why, "; "), c)
	}
	return true, nil
}

type staticDB struct{}

func (staticDB) FetcherName() string { return "static" }
func (staticDB) FetchKeys(ctx context.Context, reqs map[gmsl.PublicKeyLookupRequest]spec.Timestamp) (map[gmsl.PublicKeyLookupRequest]gmsl.PublicKeyLookupResult, error) {
	out := map[gmsl.PublicKeyLookupRequest]gmsl.PublicKeyLookupResult{}
	for rq := range reqs {
		if k, ok := fedgen.Keys[string(rq.ServerName)]; ok && string(rq.KeyID) == k.KeyID {
			out[rq] = gmsl.PublicKeyLookupResult{VerifyKey: gmsl.VerifyKey{Key: spec.Base64Bytes(k.Pub)}, ValidUntilTS: spec.Timestamp(1 << 50)}
		}
	}
	return out, nil
}
func (staticDB) StoreKeys(context.Context, map[gmsl.PublicKeyLookupRequest]gmsl.PublicKeyLookupResult) error {
	return nil
}

func canon(v interface{}) []byte { return evgen.CanonOf(v) }

// timedVerifier is the static verifier with a validity limit: a request about an instant after validUntil is refused, as a
// key ring does for a key whose validity ended before the event's origin_server_ts.
type timedVerifier struct{ validUntil int64 }

func (t timedVerifier) VerifyJSONs(ctx context.Context, reqs []gmsl.VerifyJSONRequest) ([]gmsl.VerifyJSONResult, error) {
	out, err := fedgen.Verifier{}.VerifyJSONs(ctx, reqs)
	for i, rq := range reqs {
		if err == nil && int64(rq.AtTS) > t.validUntil && out[i].Error == nil {
			out[i].Error = fmt.Errorf("key of %s not valid at %d", rq.ServerName, rq.AtTS)
		}
	}
	return out, err
}

func main() { harness.Main("C15", "fault_enumeration", run) }

func run(r *harness.Run) {
	r.Rule("full products of parameter alphabets: make_join (remote version list x origin x local residency x join rule x pending invite x allowed-room residency x authoriser candidates x power-levels presence x 6 template-builder outcomes; versions 6, 8, 10, 12 quick / 1-12 thorough; the other handlers versions 1, 10, 12 quick / 1-12 thorough), make_leave (origin x residency x 6 template outcomes), send_join (membership x state key x room / event ID match x origin x signature state (valid, absent, wrong key, valid plus a forged signature under the local server's own name and key ID) x current membership x authorised-via x querier error), invite (event kind x target x room match x signature x known room x current membership x stripped state source x room-querier error), PerformJoin over a scripted remote (make_join x send_join outcomes incl. an invite-only room whose invite is in the returned state / only in the auth chain x the members_omitted flag). Oracle: guard soundness - every ACCEPTED request satisfies all listed conditions, and the returned event is the unmodified event with a valid local signature; vacuity guard: each handler must accept some cell. Non-trivial = distinct accepted cell + distinct refused cell with exactly one condition broken.")
	r.Assume("Allowed / VerifyJSON are sub-oracles (C07, C02)", "completeness (every well-formed request is accepted) is checked only as the vacuity guard")
	replay := func(kind string, raw json.RawMessage) error {
		var err error
		switch kind {
		case "make_join":
			var c mjCase
			_ = json.Unmarshal(raw, &c)
			_, err = runMakeJoin(r, c)
		case "make_leave":
			var c mlCase
			_ = json.Unmarshal(raw, &c)
			_, err = runMakeLeave(r, c)
		case "send_join":
			var c sjCase
			_ = json.Unmarshal(raw, &c)
			_, err = runSendJoin(r, c)
		case "invite":
			var c invCase
			_ = json.Unmarshal(raw, &c)
			_, err = runInvite(r, c)
		case "invite_v3":
			var c inv3Case
			_ = json.Unmarshal(raw, &c)
			_, err = runInviteV3(r, c)
		case "perform_join":
			var c pjCase
			_ = json.Unmarshal(raw, &c)
			_, err = runPerformJoin(r, c)
		}
		return err
	}
	for _, k := range []string{"make_join", "make_leave", "send_join", "invite", "invite_v3", "perform_join"} {
		k := k
		r.OnReplay(k, func(raw json.RawMessage) error { return replay(k, raw) })
	}
	if r.Replaying() {
		return
	}
	bools := []bool{true, false}
	var accepted [5]atomic.Int64
	mjVers, vers := []string{"6", "8", "10", "12"}, []string{"1", "10", "12"}
	if r.Thorough() {
		mjVers = []string{"1", "2", "3", "4", "5", "6", "7", "8", "9", "10", "11", "12"}
		vers = mjVers
	}
	// make_join
	var mj []mjCase
	for _, v := range mjVers {
		for _, rh := range bools {
			for _, om := range bools {
				for _, li := range bools {
					for _, jr := range []string{"public", "invite", "restricted", "none"} {
						for _, pend := range bools {
							for _, res := range bools {
								for _, uia := range bools {
									for _, au := range []string{"none", "low", "high", "creator"} {
										for _, plm := range bools {
											for _, t := range []string{"ok", "banned", "nil-event", "nil-state", "error", "wrong-type"} {
												if jr != "restricted" && (!res || !uia || au != "none" || plm) {
													continue
												}
												mj = append(mj, mjCase{v, rh, om, li, jr, pend, res, uia, au, plm, t})
											}
										}
									}
								}
							}
						}
					}
				}
			}
		}
	}
	r.Parallel(len(mj), func(i int) {
		acc, err := runMakeJoin(r, mj[i])
		if acc {
			accepted[0].Add(1)
			r.Nontrivial("mj" + harness.J(mj[i]))
		}
		if err != nil {
			r.Violation("make_join:"+harness.J(mj[i]), err.Error(), "make_join", mj[i])
		}
	})
	var ml []mlCase
	for _, v := range vers {
		for _, om := range bools {
			for _, li := range bools {
				for _, t := range []string{"ok", "not-in-room", "nil-event", "nil-state", "error", "wrong-type"} {
					ml = append(ml, mlCase{v, om, li, t})
				}
			}
		}
	}
	for _, c := range ml {
		acc, err := runMakeLeave(r, c)
		if acc {
			accepted[1].Add(1)
			r.Nontrivial("ml" + harness.J(c))
		}
		if err != nil {
			r.Violation("make_leave:"+harness.J(c), err.Error(), "make_leave", c)
		}
	}
	var sj []sjCase
	for _, v := range vers {
		for _, m := range []string{"join", "leave", "invite"} {
			for _, sk := range []string{"sender", "other", "empty", "absent"} {
				for _, rm := range bools {
					for _, em := range bools {
						for _, om := range bools {
							for _, sg := range []string{"valid", "absent", "other-key", "valid+forged-local", "key-not-valid-at-event-time"} {
								for _, cur := range []string{"", "join", "ban", "leave", "invite"} {
									for _, via := range []string{"", "local", "remote", "malformed"} {
										for _, qe := range bools {
											if qe && (cur != "" || via != "") {
												continue
											}
											sj = append(sj, sjCase{v, m, sk, rm, em, om, sg, cur, via, qe})
										}
									}
								}
							}
						}
					}
				}
			}
		}
	}
	r.Parallel(len(sj), func(i int) {
		acc, err := runSendJoin(r, sj[i])
		if acc {
			accepted[2].Add(1)
			r.Nontrivial("sj" + harness.J(sj[i]))
		}
		if err != nil {
			r.Violation("send_join:"+harness.J(sj[i]), err.Error(), "send_join", sj[i])
		}
	})
	var inv []invCase
	for _, v := range vers {
		for _, k := range []string{"invite", "join", "topic"} {
			for _, tg := range []string{"invited", "other"} {
				for _, rm := range bools {
					for _, sg := range []string{"valid", "absent", "other-key", "valid+forged-local", "key-not-valid-at-event-time"} {
						for _, kn := range bools {
							for _, cur := range []string{"", "join", "leave", "invite"} {
								for _, sp := range []string{"given", "empty-state-from-querier", "state-from-querier"} {
									for _, qe := range bools {
										inv = append(inv, invCase{v, k, tg, rm, sg, kn, cur, sp, qe})
									}
								}
							}
						}
					}
				}
			}
		}
	}
	r.Parallel(len(inv), func(i int) {
		acc, err := runInvite(r, inv[i])
		if acc {
			accepted[3].Add(1)
			r.Nontrivial("inv" + harness.J(inv[i]))
		}
		if err != nil {
			what := "guard"
			if strings.Contains(err.Error(), "panics") {
				what = "PANIC"
			}
			r.Violation(fmt.Sprintf("invite/%s/%s:%s", what, inv[i].Kind, harness.J(inv[i])), err.Error(), "invite", inv[i])
		}
	})
	var inv3 []inv3Case
	var acc3 atomic.Int64
	for _, rm := range bools {
		for _, se := range bools {
			for _, kn := range bools {
				for _, cur := range []string{"", "join", "leave", "invite"} {
					for _, sp := range []string{"given", "empty-state-from-querier", "state-from-querier"} {
						for _, qe := range bools {
							for _, k := range []string{"invite", "join", "topic"} {
								inv3 = append(inv3, inv3Case{rm, se, kn, cur, sp, qe, k})
							}
						}
					}
				}
			}
		}
	}
	r.Parallel(len(inv3), func(i int) {
		acc, err := runInviteV3(r, inv3[i])
		if acc {
			acc3.Add(1)
			r.Nontrivial("inv3" + harness.J(inv3[i]))
		}
		if err != nil {
			r.Violation(fmt.Sprintf("invite_v3/%s:%s", inv3[i].Kind, harness.J(inv3[i])), err.Error(), "invite_v3", inv3[i])
		}
	})
	r.Count("accepted_invite_v3", acc3.Load())
	r.Count("cells_invite_v3", int64(len(inv3)))
	r.Vacuous(acc3.Load() == 0 && r.ViolationCount() == 0, "invite_v3 accepted nothing: the product never reaches the accepting path")
	var pj []pjCase
	for _, v := range vers {
		for _, m := range []string{"ok", "error", "unknown-version"} {
			for _, s := range []string{"ok", "error", "no-create", "create-unknown-version", "create-only-in-state", "bad-signatures", "join-not-allowed", "invited-in-state", "invited-only-in-auth-chain"} {
				pj = append(pj, pjCase{Version: v, MakeJoin: m, SendJoin: s}, pjCase{Version: v, MakeJoin: m, SendJoin: s, MembersOmitted: true})
			}
		}
	}
	for _, c := range pj {
		acc, err := runPerformJoin(r, c)
		if acc {
			accepted[4].Add(1)
			r.Nontrivial("pj" + harness.J(c))
		}
		if err != nil {
			r.Violation("perform_join:"+harness.J(c), err.Error(), "perform_join", c)
		}
	}
	names := []string{"make_join", "make_leave", "send_join", "invite", "perform_join"}
	for i, n := range names {
		r.Count("accepted_"+n, accepted[i].Load())
		r.Vacuous(accepted[i].Load() == 0 && r.ViolationCount() == 0, n+" accepted nothing: the product never reaches the accepting path")
	}
	r.Count("cells_make_join", int64(len(mj)))
	r.Count("cells_send_join", int64(len(sj)))
	r.Count("cells_invite", int64(len(inv)))
	r.Sample("send_join", sj[0])
	r.Sample("invite", inv[0])
	r.Sample("make_join", mj[0])
}
