package main

// (f) destinationTripper.RoundTrip: the resolution cache (sync.Map) and the transport cache together, from several threads.
//
// The environment is closed without sockets: http.DefaultTransport (the well-known lookup) and the last hop (a method that
// shadows the promoted http.Transport.RoundTrip, added by the instrumented bridge) are scripted and are scheduling points;
// net.DefaultResolver fails every dial, so an SRV lookup ends in "no record" and resolution falls back to <name>:8448.

import (
	"errors"
	"fmt"
	"io"
	"net"
	"net/http"
	"sort"
	"strings"
	"sync"

	"context"

	"github.com/matrix-org/gomatrixserverlib/fclient"
	"github.com/matrix-org/gomatrixserverlib/verifhook"
)

// rtWorld: which names serve a well-known document, and where it delegates to (always a name with a port: no second lookup).
var rtWorld = map[string]string{
	"a.org": "da.org:443",
	"c.org": "da.org:443", // same delegate as a.org: one transport (TLS name da.org) shared by two names
	"e.org": "de.org:8443",
}

type rtTriple struct{ dest, host, sni string }

func hostOnly(n string) string {
	if h, _, err := net.SplitHostPort(n); err == nil {
		return h
	}
	return n
}

// rtLegal lists what name may resolve to, given the well-known answers handed out for it so far.
func rtLegal(name string, answered map[string]map[bool]bool, wk bool) []rtTriple {
	if !wk {
		// resolution switched off: the request goes to the name as it stands
		return []rtTriple{{name, name, name}}
	}
	if strings.Contains(name, ":") {
		return []rtTriple{{name, name, hostOnly(name)}}
	}
	var out []rtTriple
	if answered[name][true] {
		d := rtWorld[name]
		out = append(out, rtTriple{d, d, hostOnly(d)})
	}
	if answered[name][false] {
		out = append(out, rtTriple{name + ":8448", name, name})
	}
	return out
}

type wkStub struct {
	e  *env
	on func(name string, ok bool)
}

func (w wkStub) RoundTrip(req *http.Request) (*http.Response, error) {
	name := req.URL.Host
	verifhook.Point("wellknown:" + name)
	d, has := rtWorld[name]
	ok := has && w.e.fault(2, "wellknown-fails") == 0
	w.on(name, ok)
	if !ok {
		return &http.Response{StatusCode: 404, Status: "404 Not Found", Header: http.Header{}, Body: http.NoBody, Request: req}, nil
	}
	body := fmt.Sprintf(`{"m.server":%q}`, d)
	return &http.Response{StatusCode: 200, Status: "200 OK", Header: http.Header{"Content-Type": {"application/json"}},
		Body: io.NopCloser(strings.NewReader(body)), ContentLength: int64(len(body)), Request: req}, nil
}

type rtAttempt struct {
	caller string
	rtTriple
	scheme, path string
	failed       bool
}

var rtGlobal sync.Mutex // the scripted environment is process-global: one round-trip scenario body at a time

func roundTripScenario(name string, wk bool, ops ...[]string) scenario {
	return scenario{name: name, what: fmt.Sprintf("destinationTripper.RoundTrip (well-known / SRV resolution %v) from %d threads %v over names that share a delegate; well-known and last-hop failures as environment faults", wk, len(ops), ops), body: func(e *env) {
		rtGlobal.Lock()
		defer rtGlobal.Unlock()
		var mu sync.Mutex // free-running mode only needs it; harmless under the scheduler (never contended there)
		answered := map[string]map[bool]bool{}
		var attempts []rtAttempt
		oldT, oldR := http.DefaultTransport, net.DefaultResolver
		http.DefaultTransport = wkStub{e, func(n string, ok bool) {
			mu.Lock()
			if answered[n] == nil {
				answered[n] = map[bool]bool{}
			}
			answered[n][ok] = true
			mu.Unlock()
		}}
		net.DefaultResolver = &net.Resolver{PreferGo: true, Dial: func(context.Context, string, string) (net.Conn, error) {
			return nil, errors.New("no network in the harness")
		}}
		fclient.VerifRoundTripHook = func(sni string, r *http.Request) (*http.Response, error) {
			verifhook.Point("send:" + sni)
			a := rtAttempt{caller: r.Header.Get("X-Caller"), rtTriple: rtTriple{r.URL.Host, r.Host, sni}, scheme: r.URL.Scheme, path: r.URL.Path}
			a.failed = e.fault(2, "send-fails") == 1
			mu.Lock()
			attempts = append(attempts, a)
			mu.Unlock()
			if a.failed {
				return nil, errors.New("scripted connection failure")
			}
			return &http.Response{StatusCode: 200, Header: http.Header{"X-Served": {a.caller}, "X-At": {a.dest}}, Body: http.NoBody, Request: r}, nil
		}
		defer func() { http.DefaultTransport, net.DefaultResolver, fclient.VerifRoundTripHook = oldT, oldR, nil }()

		tr := fclient.VerifNewTripper(wk)
		var fs []func()
		for ti, list := range ops {
			ti, list := ti, list
			fs = append(fs, func() {
				for k, n := range list {
					caller := fmt.Sprintf("t%d#%d", ti, k)
					req, err := http.NewRequest("GET", "matrix://"+n+"/_matrix/federation/v1/version", nil)
					if err != nil {
						e.violate("harness: %v", err)
						return
					}
					req.Header.Set("X-Caller", caller)
					resp, err := tr.RoundTrip(req)
					mu.Lock()
					var mine []rtAttempt
					for _, a := range attempts {
						if a.caller == caller {
							mine = append(mine, a)
						}
					}
					legal := rtLegal(n, answered, wk)
					mu.Unlock()
					for _, a := range mine {
						ok := false
						for _, l := range legal {
							ok = ok || l == a.rtTriple
						}
						if !ok {
							e.violate("request for %s was sent to destination %q with Host %q and TLS name %q; %s resolves to %v", n, a.dest, a.host, a.sni, n, legal)
						}
						if a.scheme != "https" || a.path != "/_matrix/federation/v1/version" {
							e.violate("request for %s left as %s://…%s", n, a.scheme, a.path)
						}
					}
					if len(mine) == 0 {
						e.violate("RoundTrip for %s returned (%v) without any attempt", n, err)
					}
					switch {
					case err == nil:
						last := mine[len(mine)-1]
						if resp == nil || resp.Header.Get("X-Served") != caller {
							e.violate("caller %s (%s) was handed another caller's response %v", caller, n, resp)
						} else if last.failed || resp.Header.Get("X-At") != last.dest {
							e.violate("caller %s (%s): success reported although its last attempt %+v failed or went elsewhere", caller, n, last)
						}
						for _, a := range mine[:len(mine)-1] {
							if !a.failed {
								e.violate("caller %s (%s): a further attempt was made after a successful one", caller, n)
							}
						}
					default:
						for _, a := range mine {
							if !a.failed {
								e.violate("caller %s (%s): error %v although the attempt at %s succeeded", caller, n, err, a.dest)
							}
						}
						if len(mine) > 2 {
							// every name here resolves to one destination: a failed first pass is retried at most once
							e.violate("caller %s (%s): %d attempts before giving up, expected the first pass and at most one retry", caller, n, len(mine))
						}
					}
					e.lock()
					e.obs = append(e.obs, fmt.Sprintf("%s %s attempts=%d err=%v", caller, n, len(mine), err != nil))
					e.unlock()
				}
			})
		}
		e.threads(fs...)
		// final cache: only requested names, each holding a resolution that one of its well-known answers justifies
		requested := map[string]bool{}
		for _, l := range ops {
			for _, n := range l {
				requested[n] = true
			}
		}
		cache := tr.ResolutionCache()
		var keys []string
		for k := range cache {
			keys = append(keys, k)
		}
		sort.Strings(keys)
		for _, k := range keys {
			if !requested[k] {
				e.violate("resolution cache holds an entry under %q, a name nobody asked for", k)
				continue
			}
			legal := rtLegal(k, answered, wk)
			rs := cache[k]
			ok := len(rs) == 1
			if ok {
				got := rtTriple{rs[0].Destination, string(rs[0].Host), rs[0].TLSServerName}
				ok = false
				for _, l := range legal {
					ok = ok || l == got
				}
			}
			if !ok {
				e.violate("resolution cache entry for %q is %+v; legal: %v", k, rs, legal)
			}
		}
		names := tr.TransportNames()
		sort.Strings(names)
		e.observe("cache %v transports %v", keys, names)
	}}
}
