package main

// (a') DNSCache.DialContext with connections that really succeed: a loopback listener of the harness is the one allowed
// address; an entry lists a refused address first and the live one second, so the dial goes past the first address of the
// entry (the path on which an implementation might want to remember which address answered).

import (
	"context"
	"errors"
	"fmt"
	"net"
	"strings"
	"sync"
	"time"

	"github.com/matrix-org/gomatrixserverlib/fclient"
	"github.com/matrix-org/gomatrixserverlib/verifhook"
)

var liveOnce sync.Once
var livePort string

// liveListener starts (once per process) a listener on 127.0.0.1 that accepts and closes; "" if the sandbox has no loopback.
func liveListener() string {
	liveOnce.Do(func() {
		l, err := net.Listen("tcp4", "127.0.0.1:0")
		if err != nil {
			return
		}
		_, livePort, _ = net.SplitHostPort(l.Addr().String())
		go func() {
			for {
				c, err := l.Accept()
				if err != nil {
					return
				}
				_ = c.Close()
			}
		}()
	})
	return livePort
}

func dnsLiveScenario(name string, size int, clockSteps []time.Duration, ops ...[]dnsOp) scenario {
	return scenario{name: name, what: fmt.Sprintf("DNSCache size=%d with a live loopback address behind a refused one, %d caller threads %v, clock steps %v", size, len(ops), ops, clockSteps), body: func(e *env) {
		port := liveListener()
		if port == "" {
			e.observe("no loopback listener in this sandbox: scenario not run")
			return
		}
		// every host: a refused address first (127.0.0.<10+n>, outside the allow list), then the live one
		addrsOf := func(host string) []net.IPAddr {
			return []net.IPAddr{{IP: net.IPv4(127, 0, 0, 10+hostByte(host))}, {IP: net.IPv4(127, 0, 0, 1)}}
		}
		var dns *fclient.VerifDNS
		dns = fclient.VerifNewDNSCacheWith(size, ttl, []string{"127.0.0.1/32"}, nil, func(ctx context.Context, host string) ([]net.IPAddr, error) {
			verifhook.Point("resolve")
			if e.fault(2, "resolver-error") == 1 {
				return nil, errors.New("scripted resolver failure")
			}
			return addrsOf(host), nil
		})
		if !e.free {
			e.step = func() {
				if n := dns.Len(); n > size {
					e.violate("cache holds %d entries, configured size %d", n, size)
				}
			}
		}
		var fs []func()
		for ti, list := range ops {
			ti, list := ti, list
			fs = append(fs, func() {
				for oi, op := range list {
					if op.dial {
						remote, err := dns.DialAddr(op.host + ":" + port)
						if err == nil && remote != "127.0.0.1:"+port {
							e.violate("dial of %s connected to %s", op.host, remote)
						}
						e.observe("t%d.%d dial %s ok=%v", ti, oi, op.host, err == nil)
						continue
					}
					addrs, _, _, ok := dns.Lookup(op.host)
					if ok && fmt.Sprint(addrs) != fmt.Sprint(addrsOf(op.host)) {
						e.violate("lookup of %s returned %v, the resolver answers %v", op.host, addrs, addrsOf(op.host))
					}
					e.observe("t%d.%d %s ok=%v", ti, oi, op.host, ok)
				}
			})
		}
		if len(clockSteps) > 0 && !e.free {
			fs = append(fs, func() {
				for _, d := range clockSteps {
					verifhook.Point("clock")
					e.s.Advance(d)
				}
			})
		}
		e.threads(fs...)
		ents := dns.Entries()
		if len(ents) > size {
			e.violate("cache holds %d entries at the end, configured size %d", len(ents), size)
		}
		for _, en := range ents {
			// whatever order an implementation keeps them in, an entry holds its own host's addresses and nothing else
			want := map[string]bool{}
			for _, a := range addrsOf(en.Host) {
				want[a.String()] = true
			}
			for _, a := range en.Addrs {
				if !want[a.String()] {
					e.violate("cache maps %s to %v, the resolver answers %v", en.Host, en.Addrs, addrsOf(en.Host))
				}
			}
		}
		_ = strings.TrimSpace
	}}
}
