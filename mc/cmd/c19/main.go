// C19 — shared caches and parallel key fetching are safe under concurrency.
//
// The real library code (instrumented flavour: sync.Mutex / WaitGroup / sync.Map / atomic.Value / go statements /
// time.Now / time.AfterFunc routed through verifhook) runs under a cooperative scheduler. Every schedule with at most
// B preemptions (switches away from a thread that could continue) plus environment faults is executed; switches forced
// by blocking are free and fully expanded. Oracles per execution: no deadlock / livelock / panic; invariants at every
// scheduling point (cache size); per-operation result oracles; linearizability of the transport cache against a
// sequential model (porcupine); FetchKeys result == union of per-server successes; and data races derived with vector
// clocks from the field accesses the instrumented methods report. A separate free-running pass of the same bodies
// under the Go race detector complements the last point.
package main

import (
	"io"
	"runtime"
	"sync/atomic"

	"context"
	"encoding/json"
	"errors"
	"fmt"
	"github.com/sirupsen/logrus"
	"net"
	"os"
	"os/exec"
	"sort"
	"strings"
	"sync"
	"time"

	"github.com/anishathalye/porcupine"
	gmsl "github.com/matrix-org/gomatrixserverlib"
	"github.com/matrix-org/gomatrixserverlib/fclient"
	"github.com/matrix-org/gomatrixserverlib/spec"
	"github.com/matrix-org/gomatrixserverlib/verifhook"

	"verif/mc/evgen"
	"verif/mc/explore"
	"verif/mc/harness"
)

// ---------------------------------------------------------------- execution environment

// env is what a scenario body sees. Under the scheduler exactly one goroutine runs at a time, so its fields need no lock;
// the free-running (race detector) mode takes mu.
type env struct {
	c    *explore.Ctx
	s    *verifhook.Scheduler
	free bool
	iter int // free mode: iteration number, drives the fault choices
	mu   sync.Mutex
	obs  []string // observations (order-insensitive parts are sorted by the scenario)
	viol []string
	now  map[int]time.Time // last clock value handed to each thread
	step func()            // invariant evaluated at every scheduling point
	nsel int
}

func (e *env) lock() {
	if e.free {
		e.mu.Lock()
	}
}
func (e *env) unlock() {
	if e.free {
		e.mu.Unlock()
	}
}

func (e *env) violate(format string, a ...interface{}) {
	e.lock()
	e.viol = append(e.viol, fmt.Sprintf(format, a...))
	e.unlock()
}

func (e *env) observe(format string, a ...interface{}) {
	e.lock()
	e.obs = append(e.obs, fmt.Sprintf(format, a...))
	e.unlock()
}

// fault is an environment decision with a default (0); alternatives cost one deviation.
func (e *env) fault(n int, label string) int {
	if e.free {
		e.lock()
		e.nsel++
		v := (e.iter/(e.nsel*3) + e.nsel) % (n * 4)
		e.unlock()
		if v < n {
			return v
		}
		return 0
	}
	return e.c.Choose(n, "E:"+label)
}

// dimension is an enumeration dimension of the scenario (all alternatives, no cost).
func (e *env) dimension(n int, label string) int {
	if e.free {
		e.lock()
		e.nsel++
		v := (e.iter / e.nsel) % n
		e.unlock()
		return v
	}
	return e.c.Free(n, "D:"+label)
}

func (e *env) tid() int {
	if e.free {
		return 0
	}
	return e.s.CurID()
}

// threads runs the bodies as concurrent threads and joins them.
func (e *env) threads(fs ...func()) {
	var wg verifhook.WaitGroup
	wg.Add(len(fs))
	for _, f := range fs {
		f := f
		verifhook.Go(func() {
			defer wg.Done()
			f()
		})
	}
	wg.Wait()
}

type scenario struct {
	name  string
	what  string
	body  func(e *env)
	heavy bool // 50+ scheduling points: explored with one deviation less
}

type execResult struct {
	obs   string
	viol  []string
	steps int
}

var t0 = time.Unix(1_700_000_000, 0)

// runScheduled executes one schedule of sc.
func runScheduled(sc scenario, c *explore.Ctx) execResult {
	s := &verifhook.Scheduler{Horizon: 3000, TrackAccess: true, MaxAccesses: 20000}
	e := &env{c: c, s: s, now: map[int]time.Time{}}
	s.SetNow(t0)
	s.Pick = func(enabled []int, cur int, what string) int {
		if e.step != nil {
			e.step()
		}
		if cur >= 0 {
			return enabled[c.Choose(len(enabled), "P:"+what)]
		}
		return enabled[c.Free(len(enabled), "F:"+what)]
	}
	// a strictly increasing clock: two reads never return the same instant (see DESIGN, C19)
	verifhook.Clock = func() time.Time {
		t := s.Now()
		s.SetNow(t.Add(time.Nanosecond))
		e.now[s.CurID()] = t
		return t
	}
	// map iteration inside the library follows the canonical (sorted) order: iteration order is owned, not explored, here
	verifhook.Chooser = func(int, string) []int { return nil }
	defer func() { verifhook.Clock, verifhook.Chooser = nil, nil }()
	verifhook.Run(s, func() { sc.body(e) })
	if s.Err != "" {
		e.viol = append(e.viol, "scheduler: "+s.Err)
	}
	if vectorClocksUsable() {
		for _, r := range s.Races() {
			e.viol = append(e.viol, "data race: "+r)
		}
	}
	return execResult{strings.Join(e.obs, " ; "), e.viol, s.Steps()}
}

var vcOnce sync.Once
var vcUsable = true
var vcWhy []string

// vectorClocksUsable: the instrumenter reports synchronisation inside the access-logged methods that the scheduler does not
// model (sync.Once, typed atomics, channel operations); happens-before is then incomplete and the vector-clock race verdict
// would be unsound, so it is left to the race-detector pass alone.
func vectorClocksUsable() bool {
	vcOnce.Do(func() {
		b, err := os.ReadFile(harness.OutRoot + "/.work/instr/instr-stats.json")
		if err != nil {
			return
		}
		var st struct {
			U map[string]int `json:"unshimmed_sync_in_access_logged_methods"`
		}
		if json.Unmarshal(b, &st) == nil && len(st.U) > 0 {
			vcUsable = false
			for k := range st.U {
				vcWhy = append(vcWhy, k)
			}
			sort.Strings(vcWhy)
		}
	})
	return vcUsable
}

// ---------------------------------------------------------------- (a) DNS cache

const ttl = 10 * time.Second

type dnsOp struct {
	dial bool
	host string
}

func hostByte(h string) byte { return h[0] - 'a' + 1 }

// dnsScenario: the listed per-thread operation lists run concurrently against one cache; a clock thread advances time
// across the expiry; the resolver answers with a fresh, host-specific address per call or (fault) an error.
func dnsScenario(name string, size int, clockSteps []time.Duration, ops ...[]dnsOp) scenario {
	return scenario{name: name, what: fmt.Sprintf("DNSCache size=%d, %d caller threads %v, clock steps %v", size, len(ops), ops, clockSteps), body: func(e *env) {
		gen := map[string]int{}
		answers := map[string]map[string]bool{} // host -> set of address lists handed out
		var rmu sync.Mutex
		resolvedAt := map[int]time.Time{}
		var dns *fclient.VerifDNS
		dns = fclient.VerifNewDNSCache(size, ttl, func(ctx context.Context, host string) ([]net.IPAddr, error) {
			verifhook.Point("resolve") // the lookup takes time: others may run
			if !e.free {
				resolvedAt[e.tid()] = e.s.Now() // whatever this caller is handed afterwards is handed out at or after this instant
			}
			if e.fault(2, "resolver-error") == 1 {
				return nil, errors.New("scripted resolver failure")
			}
			rmu.Lock()
			gen[host]++
			a := []net.IPAddr{{IP: net.IPv4(10, hostByte(host), 0, byte(gen[host]))}, {IP: net.IPv4(10, hostByte(host), 1, byte(gen[host]))}}
			if answers[host] == nil {
				answers[host] = map[string]bool{}
			}
			answers[host][fmt.Sprint(a)] = true
			rmu.Unlock()
			return a, nil
		})
		if !e.free {
			e.step = func() {
				if n := dns.Len(); n > size {
					e.violate("cache holds %d entries, configured size %d", n, size)
				}
			}
		}
		var fs []func()
		for ti, list := range ops {
			ti, list := ti, list
			fs = append(fs, func() {
				for oi, op := range list {
					if op.dial {
						err := dns.Dial(op.host + ":8448")
						if err == nil {
							e.violate("dial to a denied network succeeded")
						}
						e.observe("t%d.%d dial %s err", ti, oi, op.host)
						continue
					}
					rmu.Lock()
					delete(resolvedAt, e.tid()) // set again if this lookup goes through the resolver
					rmu.Unlock()
					addrs, expires, cached, ok := dns.Lookup(op.host)
					if !ok {
						e.observe("t%d.%d %s -> failed", ti, oi, op.host)
						continue
					}
					for _, a := range addrs {
						if ip := a.IP.To4(); ip == nil || ip[1] != hostByte(op.host) {
							e.violate("lookup of %s returned %v, an address of another host", op.host, addrs)
						}
					}
					rmu.Lock()
					known := answers[op.host][fmt.Sprint(addrs)]
					rmu.Unlock()
					if !known {
						e.violate("lookup of %s returned %v, which the resolver never answered for it", op.host, addrs)
					}
					if cached && !e.free {
						// the instant the library compared with the expiry is the last one this thread read
						if at := e.now[e.tid()]; !at.Before(expires) {
							e.violate("lookup of %s served a cached entry at %v, at or past its expiry %v", op.host, at.Sub(t0), expires.Sub(t0))
						}
					}
					if !e.free {
						// the lookup went through the resolver (whatever it says about "cached" afterwards): what comes back is
						// handed out no earlier than the resolver's return
						rmu.Lock()
						at, ok := resolvedAt[e.tid()]
						rmu.Unlock()
						if ok && !at.Before(expires) {
							e.violate("lookup of %s (after resolving) was handed an entry that had expired at %v, before the resolver even returned at %v", op.host, expires.Sub(t0), at.Sub(t0))
						}
					}
					e.observe("t%d.%d %s -> gen%d cached=%v", ti, oi, op.host, addrs[0].IP.To4()[3], cached)
				}
			})
		}
		if len(clockSteps) > 0 && !e.free {
			fs = append(fs, func() {
				for _, d := range clockSteps {
					verifhook.Point("clock")
					e.s.Advance(d)
				}
			})
		}
		e.threads(fs...)
		// quiescent: the cache content must be coherent
		ents := dns.Entries()
		if len(ents) > size {
			e.violate("cache holds %d entries at the end, configured size %d", len(ents), size)
		}
		for _, en := range ents {
			rmu.Lock()
			known := answers[en.Host][fmt.Sprint(en.Addrs)]
			rmu.Unlock()
			if !known {
				e.violate("cache maps %s to %v, which the resolver never answered for it", en.Host, en.Addrs)
			}
		}
	}}
}

// ---------------------------------------------------------------- (b) DirectKeyFetcher, (c) KeyRing

var serverKey = map[string]evgen.Key{
	"s1.org": evgen.NewKey("s1.org", "ed25519:k", 11),
	"s2.org": evgen.NewKey("s2.org", "ed25519:k", 12),
	"s3.org": evgen.NewKey("s3.org", "ed25519:k", 13),
	"me.org": evgen.NewKey("me.org", "ed25519:k", 14),
}

func serverKeys(name string) gmsl.ServerKeys {
	k := serverKey[name]
	text := fmt.Sprintf(`{"server_name":%q,"valid_until_ts":%d,"verify_keys":{%q:{"key":%q}},"old_verify_keys":{}}`, name, int64(1)<<45, k.KeyID, evgen.B64(k.Pub))
	obj := evgen.MustParse([]byte(text))
	sig := evgen.ObjectSignature(obj, k)
	signed := evgen.WithSignatures([]byte(text), map[string]map[string][]byte{name: {k.KeyID: sig}})
	var sk gmsl.ServerKeys
	if err := json.Unmarshal(signed, &sk); err != nil {
		panic(err)
	}
	return sk
}

// keyClient answers per server according to mode: 0 direct keys (notary too); 1 direct error, notary keys; 2 both fail;
// 3 direct keys, notary fails. A cancelled context makes the call fail, as an HTTP client would.
type keyClient struct {
	e     *env
	mode  map[string]int
	mu    sync.Mutex
	calls []string
}

func (k *keyClient) GetServerKeys(ctx context.Context, s spec.ServerName) (gmsl.ServerKeys, error) {
	verifhook.Point("http-get-keys")
	k.mu.Lock()
	k.calls = append(k.calls, "get:"+string(s))
	k.mu.Unlock()
	if err := ctx.Err(); err != nil {
		return gmsl.ServerKeys{}, err
	}
	if m := k.mode[string(s)]; m == 1 || m == 2 {
		return gmsl.ServerKeys{}, errors.New("scripted: direct fetch failed")
	}
	return serverKeys(string(s)), nil
}

func (k *keyClient) LookupServerKeys(ctx context.Context, s spec.ServerName, _ map[gmsl.PublicKeyLookupRequest]spec.Timestamp) ([]gmsl.ServerKeys, error) {
	verifhook.Point("http-notary")
	k.mu.Lock()
	k.calls = append(k.calls, "notary:"+string(s))
	k.mu.Unlock()
	if err := ctx.Err(); err != nil {
		return nil, err
	}
	if m := k.mode[string(s)]; m == 2 || m == 3 {
		return nil, errors.New("scripted: notary fetch failed")
	}
	return []gmsl.ServerKeys{serverKeys(string(s))}, nil
}

func fetcher(kc *keyClient) *gmsl.DirectKeyFetcher {
	return &gmsl.DirectKeyFetcher{Client: kc, IsLocalServerName: func(s spec.ServerName) bool { return s == "me.org" }, LocalPublicKey: []byte(serverKey["me.org"].Pub)}
}

func checkFetch(e *env, who string, servers []string, mode map[string]int, res map[gmsl.PublicKeyLookupRequest]gmsl.PublicKeyLookupResult, err error) {
	if err != nil {
		e.violate("%s: FetchKeys returned error %v", who, err)
		return
	}
	want := map[string]bool{}
	for _, s := range servers {
		if s == "me.org" || mode[s] != 2 {
			want[s] = true
		}
	}
	got := map[string]bool{}
	for rq, r := range res {
		got[string(rq.ServerName)] = true
		k := serverKey[string(rq.ServerName)]
		if string(rq.KeyID) != k.KeyID || string(r.Key) != string(k.Pub) {
			e.violate("%s: result for %s/%s carries the wrong key", who, rq.ServerName, rq.KeyID)
		}
	}
	if fmt.Sprint(sortedKeys(got)) != fmt.Sprint(sortedKeys(want)) {
		e.violate("%s: FetchKeys returned keys for %v, the per-server successes are %v (modes %v)", who, sortedKeys(got), sortedKeys(want), mode)
	}
	e.observe("%s -> %v", who, sortedKeys(got))
}

func sortedKeys(m map[string]bool) []string {
	var out []string
	for k := range m {
		out = append(out, k)
	}
	sort.Strings(out)
	return out
}

// modeSets lists every assignment of an answer mode (0 keys, 1 error then notary keys, 2 both fail) to the servers.
func modeSets(servers ...string) []map[string]int {
	out := []map[string]int{{}}
	for _, s := range servers {
		var next []map[string]int
		for _, m := range out {
			for v := 0; v < 3; v++ {
				n := map[string]int{s: v}
				for k, x := range m {
					n[k] = x
				}
				next = append(next, n)
			}
		}
		out = next
	}
	return out
}

func modeName(m map[string]int) string {
	var ks []string
	for k := range m {
		ks = append(ks, k)
	}
	sort.Strings(ks)
	out := ""
	for _, k := range ks {
		out += fmt.Sprint(m[k])
	}
	return out
}

func fetchScenario(name string, mode map[string]int, callers [][]string) scenario {
	return scenario{name: name + "[" + modeName(mode) + "]", what: fmt.Sprintf("DirectKeyFetcher.FetchKeys: %d concurrent calls for %v; per-server answers %v (0 keys, 1 error then notary keys, 2 both fail)", len(callers), callers, mode), body: func(e *env) {
		kc := &keyClient{e: e, mode: mode}
		f := fetcher(kc)
		var fs []func()
		for ci, servers := range callers {
			ci, servers := ci, servers
			fs = append(fs, func() {
				reqs := map[gmsl.PublicKeyLookupRequest]spec.Timestamp{}
				for _, s := range servers {
					reqs[gmsl.PublicKeyLookupRequest{ServerName: spec.ServerName(s), KeyID: gmsl.KeyID(serverKey[s].KeyID)}] = 1
				}
				res, err := f.FetchKeys(context.Background(), reqs)
				checkFetch(e, fmt.Sprintf("caller%d", ci), servers, mode, res, err)
			})
		}
		e.threads(fs...)
		e.observe("calls %v", kc.calls)
	}}
}

// fetchCancelScenario: two overlapping FetchKeys calls; the first caller's context is cancelled at some point. The second
// caller must be unaffected: it still gets exactly the union of the per-server successes.
func fetchCancelScenario(name string, mode map[string]int) scenario {
	return scenario{name: name + "[" + modeName(mode) + "]", what: fmt.Sprintf("two overlapping FetchKeys calls for s1.org (+ s2.org); the first caller's context is cancelled concurrently; per-server answers %v", mode), body: func(e *env) {
		kc := &keyClient{e: e, mode: mode}
		f := fetcher(kc)
		ctx0, cancel := context.WithCancel(context.Background())
		defer cancel()
		req := func(servers ...string) map[gmsl.PublicKeyLookupRequest]spec.Timestamp {
			reqs := map[gmsl.PublicKeyLookupRequest]spec.Timestamp{}
			for _, s := range servers {
				reqs[gmsl.PublicKeyLookupRequest{ServerName: spec.ServerName(s), KeyID: gmsl.KeyID(serverKey[s].KeyID)}] = 1
			}
			return reqs
		}
		e.threads(func() {
			res, err := f.FetchKeys(ctx0, req("s1.org"))
			if err != nil {
				e.violate("cancelled caller: FetchKeys returned error %v", err)
			}
			for rq, r := range res {
				if string(r.Key) != string(serverKey[string(rq.ServerName)].Pub) {
					e.violate("cancelled caller: wrong key for %s", rq.ServerName)
				}
			}
			e.observe("cancelled-caller -> %d keys", len(res))
		}, func() {
			res, err := f.FetchKeys(context.Background(), req("s1.org", "s2.org"))
			checkFetch(e, "other-caller", []string{"s1.org", "s2.org"}, mode, res, err)
		}, func() {
			verifhook.Point("cancel")
			cancel()
		})
		e.observe("calls %v", kc.calls)
	}}
}

// memDB is a thread-safe key database (the caller's responsibility); its lock is visible to the scheduler.
type memDB struct {
	mu   verifhook.Mutex
	keys map[gmsl.PublicKeyLookupRequest]gmsl.PublicKeyLookupResult
}

func (d *memDB) FetcherName() string { return "memDB" }
func (d *memDB) FetchKeys(ctx context.Context, reqs map[gmsl.PublicKeyLookupRequest]spec.Timestamp) (map[gmsl.PublicKeyLookupRequest]gmsl.PublicKeyLookupResult, error) {
	d.mu.Lock()
	defer d.mu.Unlock()
	out := map[gmsl.PublicKeyLookupRequest]gmsl.PublicKeyLookupResult{}
	for rq := range reqs {
		if r, ok := d.keys[rq]; ok {
			out[rq] = r
		}
	}
	return out, nil
}
func (d *memDB) StoreKeys(ctx context.Context, res map[gmsl.PublicKeyLookupRequest]gmsl.PublicKeyLookupResult) error {
	d.mu.Lock()
	defer d.mu.Unlock()
	for k, v := range res {
		d.keys[k] = v
	}
	return nil
}

func signedMessage(server string, n int) []byte {
	k := serverKey[server]
	text := fmt.Sprintf(`{"n":%d,"from":%q}`, n, server)
	obj := evgen.MustParse([]byte(text))
	return evgen.WithSignatures([]byte(text), map[string]map[string][]byte{server: {k.KeyID: evgen.ObjectSignature(obj, k)}})
}

func ringScenario(name string, mode map[string]int, batches [][]string) scenario {
	return scenario{name: name + "[" + modeName(mode) + "]", what: fmt.Sprintf("%d concurrent KeyRing.VerifyJSONs batches over servers %v sharing one key database and one DirectKeyFetcher; per-server answers %v", len(batches), batches, mode), body: func(e *env) {
		kc := &keyClient{e: e, mode: mode}
		db := &memDB{keys: map[gmsl.PublicKeyLookupRequest]gmsl.PublicKeyLookupResult{}}
		ring := &gmsl.KeyRing{KeyFetchers: []gmsl.KeyFetcher{fetcher(kc)}, KeyDatabase: db}
		var fs []func()
		for bi, servers := range batches {
			bi, servers := bi, servers
			fs = append(fs, func() {
				var reqs []gmsl.VerifyJSONRequest
				for i, s := range servers {
					reqs = append(reqs, gmsl.VerifyJSONRequest{ServerName: spec.ServerName(s), AtTS: 5, Message: signedMessage(s, bi*10+i), ValidityCheckingFunc: gmsl.StrictValiditySignatureCheck})
				}
				res, err := ring.VerifyJSONs(context.Background(), reqs)
				if err != nil || len(res) != len(reqs) {
					e.violate("batch%d: VerifyJSONs returned %d results, error %v", bi, len(res), err)
					return
				}
				var out []string
				for i, s := range servers {
					wantOK := mode[s] != 2 // the key can be obtained directly or from the notary
					if (res[i].Error == nil) != wantOK {
						e.violate("batch%d: message of %s verified=%v, a sequential run gives %v (modes %v; error %v)", bi, s, res[i].Error == nil, wantOK, mode, res[i].Error)
					}
					out = append(out, fmt.Sprintf("%s=%v", s, res[i].Error == nil))
				}
				e.observe("batch%d %v", bi, out)
			})
		}
		e.threads(fs...)
		e.observe("calls %v", kc.calls)
		for rq, r := range db.keys {
			if string(r.Key) != string(serverKey[string(rq.ServerName)].Pub) {
				e.violate("key database holds a wrong key for %s", rq.ServerName)
			}
		}
	}}
}

// ---------------------------------------------------------------- (d) transport cache

type trIn struct {
	Reap bool
	Name string
	Now  int64 // the instant the operation read (ns since t0)
}
type trOut struct{ ID int }

const lifetime = 5 * time.Minute // destinationTripperLifetime

type trState struct {
	entries string // canonical "name=id@lastUsed;..."
}

func trModel() porcupine.Model {
	type ent struct {
		id   int
		last int64
	}
	dec := func(s string) (map[string]ent, map[int]bool) {
		m, used := map[string]ent{}, map[int]bool{}
		parts := strings.SplitN(s, "|", 2)
		if len(parts) == 2 {
			for _, u := range strings.Split(parts[1], ",") {
				if u != "" {
					var id int
					fmt.Sscan(u, &id)
					used[id] = true
				}
			}
		}
		for _, p := range strings.Split(parts[0], ";") {
			if p == "" {
				continue
			}
			var n string
			var e ent
			kv := strings.SplitN(p, "=", 2)
			n = kv[0]
			fmt.Sscanf(kv[1], "%d@%d", &e.id, &e.last)
			m[n] = e
		}
		return m, used
	}
	enc := func(m map[string]ent, used map[int]bool) string {
		var names []string
		for n := range m {
			names = append(names, n)
		}
		sort.Strings(names)
		var ps []string
		for _, n := range names {
			ps = append(ps, fmt.Sprintf("%s=%d@%d", n, m[n].id, m[n].last))
		}
		var us []int
		for u := range used {
			us = append(us, u)
		}
		sort.Ints(us)
		var uss []string
		for _, u := range us {
			uss = append(uss, fmt.Sprint(u))
		}
		return strings.Join(ps, ";") + "|" + strings.Join(uss, ",")
	}
	return porcupine.Model{
		Init: func() interface{} { return "|" },
		Step: func(state, input, output interface{}) (bool, interface{}) {
			m, used := dec(state.(string))
			in, out := input.(trIn), output.(trOut)
			if in.Reap {
				for n, e := range m {
					if time.Duration(in.Now-e.last) > lifetime {
						delete(m, n)
					}
				}
				return true, enc(m, used)
			}
			if e, ok := m[in.Name]; ok {
				if out.ID != e.id {
					return false, state
				}
				m[in.Name] = ent{e.id, in.Now}
				return true, enc(m, used)
			}
			if used[out.ID] {
				return false, state // a transport that was already handed out for a (now reaped or other) name
			}
			used[out.ID] = true
			m[in.Name] = ent{out.ID, in.Now}
			return true, enc(m, used)
		},
		Equal: func(a, b interface{}) bool { return a.(string) == b.(string) },
	}
}

func transportScenario(name string, clockSteps []time.Duration, ops ...[]string) scenario {
	return scenario{name: name, what: fmt.Sprintf("destinationTripper.getTransport from %d threads %v, reaper fired by clock steps %v", len(ops), ops, clockSteps), body: func(e *env) {
		tr := fclient.VerifNewTripper(false)
		ids := map[interface{}]int{}
		var imu sync.Mutex
		var hist []porcupine.Operation
		var stamp int64
		tick := func() int64 {
			imu.Lock()
			defer imu.Unlock()
			stamp++
			return stamp
		}
		var fs []func()
		for ti, list := range ops {
			ti, list := ti, list
			fs = append(fs, func() {
				for _, n := range list {
					call := tick()
					var rt interface{}
					if n == "REAP" {
						tr.Reap()
					} else {
						rt = tr.GetTransport(n)
					}
					ret := tick()
					at := int64(0)
					if !e.free {
						at = int64(e.now[e.tid()].Sub(t0))
					}
					if n == "REAP" {
						imu.Lock()
						hist = append(hist, porcupine.Operation{ClientId: ti, Input: trIn{Reap: true, Now: at}, Call: call, Output: trOut{}, Return: ret})
						imu.Unlock()
						continue
					}
					sni, id := fclient.VerifTransportSNI(rt)
					if sni != n {
						e.violate("getTransport(%q) returned a transport for TLS server name %q", n, sni)
					}
					imu.Lock()
					if _, ok := ids[id]; !ok {
						ids[id] = len(ids) + 1
					}
					hist = append(hist, porcupine.Operation{ClientId: ti, Input: trIn{Name: n, Now: at}, Call: call, Output: trOut{ids[id]}, Return: ret})
					e.obs = append(e.obs, fmt.Sprintf("t%d get %s -> #%d", ti, n, ids[id]))
					imu.Unlock()
				}
			})
		}
		if len(clockSteps) > 0 && !e.free {
			fs = append(fs, func() {
				for _, d := range clockSteps {
					verifhook.Point("clock")
					e.s.Advance(d) // fires the reaper timer as a new thread when due
				}
			})
		}
		e.threads(fs...)
		if !e.free {
			// the reaper threads started by the timer are not in the history (their instant is not observable); the history of
			// explicit operations must still be linearizable when no timer fired
			fired := false
			for _, d := range clockSteps {
				fired = fired || d >= time.Minute
			}
			if !fired && porcupine.CheckOperations(trModel(), hist) != true {
				e.violate("history of transport cache operations is not linearizable: %v", hist)
			}
		}
		names := tr.TransportNames()
		sort.Strings(names)
		e.observe("final %v", names)
	}}
}

// ---------------------------------------------------------------- (e) shared event

func sharedEventScenario(version string, trusted bool) scenario {
	return scenario{name: fmt.Sprintf("event-v%s-trusted=%v", version, trusted), what: "first-time read-only accessor calls on one freshly parsed event from three threads", body: func(e *env) {
		sk := "@alice:a.org"
		ev := evgen.Ev{Type: "m.room.member", Sender: "@alice:a.org", RoomID: roomFor(version), StateKey: &sk, Content: `{"membership":"join"}`, Prev: []string{refID(version, "p")}, Auth: []string{refID(version, "a")}, Depth: 3, TS: 5, EventID: "$e:a.org"}
		js := evgen.SignEvent(version, ev.JSON(version), evgen.NewKey("a.org", "ed25519:1", 1))
		ver := gmsl.MustGetRoomVersion(gmsl.RoomVersion(version))
		parse := func() gmsl.PDU {
			var p gmsl.PDU
			var err error
			if trusted {
				p, err = ver.NewEventFromTrustedJSON(js, false)
			} else {
				p, err = ver.NewEventFromUntrustedJSON(js)
			}
			if err != nil {
				panic(err)
			}
			return p
		}
		read := func(p gmsl.PDU) string {
			m, _ := p.Membership()
			return fmt.Sprint(p.EventID(), p.RoomID().String(), p.Type(), m, p.AuthEventIDs(), p.PrevEventIDs(), p.Redacted(), string(p.SenderID()), len(p.JSON()))
		}
		want := read(parse())
		shared := parse()
		var fs []func()
		for i := 0; i < 3; i++ {
			i := i
			fs = append(fs, func() {
				verifhook.Point("accessor")
				if got := read(shared); got != want {
					e.violate("thread %d read %s from the shared event, a sequential read gives %s", i, got, want)
				}
			})
		}
		e.threads(fs...)
		e.observe("ok")
	}}
}

func roomFor(version string) string {
	if version == "12" {
		return "!" + strings.Repeat("C", 43)
	}
	return "!room:a.org"
}

func refID(version, tag string) string {
	if version == "1" || version == "2" {
		return "$" + tag + ":a.org"
	}
	return "$" + (tag + strings.Repeat("0", 43))[:43]
}

// ---------------------------------------------------------------- scenario list

func scenarios(thorough bool) []scenario {
	L := func(hosts ...string) []dnsOp {
		var out []dnsOp
		for _, h := range hosts {
			if strings.HasPrefix(h, "dial:") {
				out = append(out, dnsOp{true, h[5:]})
			} else {
				out = append(out, dnsOp{false, h})
			}
		}
		return out
	}
	out := []scenario{
		dnsScenario("dns-evict", 1, []time.Duration{ttl}, L("a"), L("b"), L("a")),
		dnsScenario("dns-same-host", 1, []time.Duration{ttl}, L("a", "a"), L("a")),
		dnsScenario("dns-two-slots", 2, []time.Duration{ttl / 2, ttl / 2}, L("a", "b"), L("b", "c")),
		dnsScenario("dns-dial", 2, nil, L("dial:a"), L("a"), L("dial:a")),
		heavy(dnsScenario("dns-refill", 2, nil, L("a", "b", "c", "d"), L("a"))),
		dnsLiveScenario("dns-dial-live", 1, []time.Duration{ttl}, L("dial:a"), L("b"), L("dial:a")),
		transportScenario("transport-get", nil, []string{"x"}, []string{"x"}, []string{"y"}),
		transportScenario("transport-reap-explicit", nil, []string{"x", "x"}, []string{"REAP"}, []string{"y", "x"}),
		transportScenario("transport-reap-timer", []time.Duration{time.Minute, lifetime}, []string{"x"}, []string{"x", "y"}),
		roundTripScenario("roundtrip-shared-delegate", true, []string{"a.org"}, []string{"a.org"}, []string{"c.org"}),
		roundTripScenario("roundtrip-direct", false, []string{"x.org:1"}, []string{"y.org:2", "x.org:1"}, []string{"z.org"}),
		heavy(roundTripScenario("roundtrip-two-each", true, []string{"a.org", "b.org:8448"}, []string{"e.org", "a.org"})),
		sharedEventScenario("1", false),
		sharedEventScenario("10", false),
		sharedEventScenario("12", false),
		sharedEventScenario("10", true),
	}
	for _, m := range modeSets("s1.org", "s2.org", "s3.org") {
		out = append(out, fetchScenario("fetch-one-call", m, [][]string{{"s1.org", "s2.org", "s3.org", "me.org"}}))
	}
	for _, m := range modeSets("s1.org", "s2.org") {
		out = append(out, heavy(fetchScenario("fetch-two-calls", m, [][]string{{"s1.org", "s2.org"}, {"s2.org", "me.org"}})))
		out = append(out, heavy(ringScenario("ring-two-batches", m, [][]string{{"s1.org", "s2.org"}, {"s2.org", "s1.org"}})))
	}
	for _, m := range []map[string]int{{"s1.org": 3, "s2.org": 0}, {"s1.org": 0, "s2.org": 1}, {"s1.org": 1, "s2.org": 3}} {
		out = append(out, heavy(fetchCancelScenario("fetch-cancel", m)))
	}
	if thorough {
		for _, m := range []map[string]int{{"s1.org": 0, "s2.org": 0, "s3.org": 0}, {"s1.org": 0, "s2.org": 1, "s3.org": 2}, {"s1.org": 1, "s2.org": 1, "s3.org": 1}, {"s1.org": 2, "s2.org": 0, "s3.org": 1}} {
			out = append(out, heavy(fetchScenario("fetch-three-calls", m, [][]string{{"s1.org", "s2.org"}, {"s2.org", "s3.org"}, {"s3.org", "s1.org", "me.org"}})))
		}
		for _, m := range []map[string]int{{"s1.org": 0, "s2.org": 0}, {"s1.org": 1, "s2.org": 2}, {"s1.org": 2, "s2.org": 1}} {
			out = append(out, heavy(ringScenario("ring-three-batches", m, [][]string{{"s1.org"}, {"s2.org", "s1.org"}, {"s1.org", "s2.org"}})))
		}
		out = append(out,
			dnsScenario("dns-three-hosts", 2, []time.Duration{ttl}, L("a", "b"), L("b", "c"), L("c", "a")),
			dnsScenario("dns-dial-evict", 1, []time.Duration{ttl}, L("dial:a", "b"), L("a"), L("dial:b")),
			transportScenario("transport-many", []time.Duration{lifetime + time.Minute}, []string{"x", "y"}, []string{"y", "x"}, []string{"REAP", "x"}),
			heavy(roundTripScenario("roundtrip-three-threads", true, []string{"e.org", "a.org"}, []string{"a.org"}, []string{"c.org", "e.org"})),
			sharedEventScenario("3", false), sharedEventScenario("11", false), sharedEventScenario("12", true), sharedEventScenario("1", true),
		)
	}
	return out
}

func heavy(s scenario) scenario { s.heavy = true; return s }

// ---------------------------------------------------------------- driver

type replayInput struct {
	Scenario string
	Choices  []int
}

func main() {
	logrus.SetOutput(io.Discard)
	logrus.SetLevel(logrus.PanicLevel)
	if len(os.Args) > 1 && os.Args[1] == "--free" {
		freeRun()
		return
	}
	if len(os.Args) > 5 && os.Args[1] == "--child" {
		child(os.Args[2], os.Args[3], os.Args[4], os.Args[5])
		return
	}
	harness.Main("C19", "model_checking", run)
}

func run(r *harness.Run) {
	r.Rule("real library code (instrumented: every lock, wait group, sync.Map, atomic.Value, go statement, channel receive, time.Now and time.AfterFunc goes through a cooperative scheduler) driven by small closed harnesses: DNSCache.lookup / DialContext from 3 threads over colliding hosts with cache sizes 1-2, a clock thread crossing the expiry and resolver faults; DirectKeyFetcher.FetchKeys (1-3 concurrent calls, 2-3 remote servers + the local one, every per-server answer in {keys, error then notary keys, both fail}); concurrent KeyRing.VerifyJSONs batches over overlapping servers; destinationTripper.getTransport / reaper (explicit and timer-fired); destinationTripper.RoundTrip from 2-3 threads over names that share a delegate (resolution cache + transport cache; the well-known lookup and the last hop are scripted scheduling points that may fail); DNSCache.DialContext against a live loopback listener listed behind a refused address; first-time accessor calls on one shared event from 3 threads. EVERY schedule with at most B deviations is executed (a deviation = preempting a runnable thread, or an environment fault; switches forced by blocking are free and fully expanded). Oracles: no deadlock / horizon overrun / panic; cache size at every scheduling point; addresses belong to the host and were answered by the resolver; no cached entry served at or past its expiry; FetchKeys result == union of per-server successes; VerifyJSONs results == sequential results; transport TLS name and linearizability (porcupine) against a sequential cache model; every attempt of a round trip goes to a destination / Host / TLS name its own server name resolves to, the caller gets its own response, success iff its last attempt succeeded; vector-clock data races over the field accesses reported by the instrumented methods. Plus a free-running pass of the same bodies under the Go race detector.")
	r.Assume("scheduling points at synchronisation operations only; unsynchronised accesses are covered by the vector-clock oracle on instrumented receiver-field accesses (eventV1/2/3, DNSCache, destinationTripper) and by the separate race-detector pass", "the clock is strictly increasing: no two reads return the same instant", "real http.Transport round trips and real DNS are outside the scheduler: the last hop of RoundTrip and the well-known lookup are scripted, SRV lookups fail at the dialer")
	bound := r.Pick(2, 3)
	scs := scenarios(r.Thorough())
	byName := map[string]scenario{}
	for _, sc := range scs {
		byName[sc.name] = sc
	}
	for _, sc := range scenarios(true) {
		if _, ok := byName[sc.name]; !ok {
			byName[sc.name] = sc
		}
	}
	r.OnReplay("schedule", func(raw json.RawMessage) error {
		var in replayInput
		if err := json.Unmarshal(raw, &in); err != nil {
			return err
		}
		sc, ok := byName[in.Scenario]
		if !ok {
			return fmt.Errorf("unknown scenario %s", in.Scenario)
		}
		var res execResult
		explore.Run(in.Choices, func(c *explore.Ctx) { res = runScheduled(sc, c) })
		if len(res.viol) > 0 {
			return errors.New(strings.Join(res.viol, "; "))
		}
		return nil
	})
	r.OnReplay("race", func(raw json.RawMessage) error { return raceOnce() })
	if r.Replaying() {
		return
	}
	// per-scenario time budget; scenarios run 16 at a time, so the whole exploration takes about waves x budget at most
	waves := (len(scs) + runtime.GOMAXPROCS(0) - 1) / runtime.GOMAXPROCS(0)
	budget := time.Duration(r.Pick(400, 2700)/waves) * time.Second
	r.Budget(time.Duration(waves)*budget + 20*time.Minute)
	r.Extra("per_scenario_budget_seconds", int(budget.Seconds()))
	type childOut struct {
		Execs, Steps, MaxSteps int64
		Observations           []string
		Interrupted            bool
		CompletedBound         int
		Viol                   []struct {
			Key, What string
			Choices   []int
		}
		Err string
	}
	results := make([]childOut, len(scs))
	start := time.Now()
	r.Parallel(len(scs), func(i int) {
		// one process per scenario: the scheduler is a process-wide singleton
		b := bound
		if scs[i].heavy {
			b--
		}
		cmd := exec.Command(os.Args[0], "--child", scs[i].name, fmt.Sprint(b), fmt.Sprint(int(budget.Seconds())), r.Tier)
		cmd.Stderr = os.Stderr
		out, err := cmd.Output()
		if err != nil {
			results[i].Err = fmt.Sprintf("child failed: %v", err)
			return
		}
		if err := json.Unmarshal(out, &results[i]); err != nil {
			results[i].Err = fmt.Sprintf("child output unreadable: %v: %s", err, tail(string(out), 300))
		}
	})
	var lines []string
	for i, sc := range scs {
		res := results[i]
		if res.Err != "" {
			panic("scenario " + sc.name + ": " + res.Err)
		}
		r.Evals(res.Execs)
		r.Transition(res.Steps)
		for _, o := range res.Observations {
			r.Nontrivial(sc.name + "|" + o)
		}
		for _, v := range res.Viol {
			r.Violation("schedule:"+sc.name+":"+v.Key, sc.name+": "+v.What+" (schedule "+fmt.Sprint(v.Choices)+")", "schedule", replayInput{sc.name, v.Choices})
		}
		if res.Interrupted {
			r.Cap(fmt.Sprintf("scenario %s: time budget reached after %d schedules: bound %d completed, bound %d not", sc.name, res.Execs, res.CompletedBound, res.CompletedBound+1))
		}
		if len(res.Observations) == 1 && strings.Contains(res.Observations[0], "scenario not run") {
			// the live-dial scenario needs a loopback interface; without one it decides nothing and says so
			r.Count("scenarios_not_run_for_lack_of_loopback", 1)
		} else {
			r.Vacuous(len(res.Observations) < 2 && !strings.HasPrefix(sc.name, "event-"), sc.name+": every schedule gave the same observation - nothing collided")
		}
		b := bound
		if sc.heavy {
			b--
		}
		lines = append(lines, fmt.Sprintf("%s: target_bound=%d completed_bound=%d schedules=%d distinct_observations=%d max_steps=%d", sc.name, b, res.CompletedBound, res.Execs, len(res.Observations), res.MaxSteps))
		r.Count("schedules:"+strings.SplitN(sc.name, "[", 2)[0], res.Execs)
		if os.Getenv("C19_TRACE") != "" {
			fmt.Fprintf(os.Stderr, "%s\n", lines[len(lines)-1])
		}
	}
	if os.Getenv("C19_TRACE") != "" {
		fmt.Fprintf(os.Stderr, "[%6.1fs] exploration done\n", time.Since(start).Seconds())
	}
	r.Extra("scenarios", lines)
	r.Extra("preemption_plus_fault_bound", bound)
	if !vectorClocksUsable() {
		r.Extra("vector_clock_race_oracle", "disabled: unmodelled synchronisation in access-logged methods: "+strings.Join(vcWhy, "; "))
	} else {
		r.Extra("vector_clock_race_oracle", "enabled")
	}
	// the free-running race-detector pass (pointless, and possibly endless, once the exploration has found a violation)
	if r.ViolationCount() == 0 {
		if err := raceOnce(); err != nil {
			if strings.HasPrefix(err.Error(), "harness:") {
				panic(err.Error())
			}
			r.Violation("race:detector:"+firstLine(err.Error()), err.Error(), "race", nil)
		}
	}
}

func firstLine(s string) string {
	for _, l := range strings.Split(s, "\n") {
		if strings.Contains(l, "gomatrixserverlib") && !strings.Contains(l, "verif/mc") {
			return strings.TrimSpace(l)
		}
	}
	return strings.SplitN(s, "\n", 2)[0]
}

// raceOnce runs the race-instrumented build of this binary in free-running mode.
func raceOnce() error {
	bin := os.Getenv("VERIF_RACE_BIN")
	if bin == "" {
		return errors.New("harness: VERIF_RACE_BIN not set (./check builds the race flavour)")
	}
	ctx, cancel := context.WithTimeout(context.Background(), 15*time.Minute)
	defer cancel()
	cmd := exec.CommandContext(ctx, bin, "--free")
	cmd.Env = append(os.Environ(), "GORACE=halt_on_error=1 exitcode=66")
	out, err := cmd.CombinedOutput()
	if ctx.Err() != nil {
		return errors.New("harness: the free-running pass did not finish in 15 minutes (a scenario body hangs without the scheduler)")
	}
	if err == nil {
		return nil
	}
	text := string(out)
	if i := strings.Index(text, "WARNING: DATA RACE"); i >= 0 {
		text = text[i:]
		if len(text) > 3000 {
			text = text[:3000]
		}
		return fmt.Errorf("race detector: %s", text)
	}
	return fmt.Errorf("harness: free-running pass failed: %v\n%s", err, tail(text, 2000))
}

func tail(s string, n int) string {
	if len(s) > n {
		return s[len(s)-n:]
	}
	return s
}

// freeRun executes every scenario body with real goroutines (no scheduler), many times, for the race detector.
func freeRun() {
	var ctr int64
	var cmu sync.Mutex
	verifhook.Clock = func() time.Time {
		cmu.Lock()
		defer cmu.Unlock()
		ctr++
		return t0.Add(time.Duration(ctr) * time.Millisecond * 700)
	}
	iters := 60
	for _, sc := range scenarios(true) {
		for i := 0; i < iters; i++ {
			e := &env{free: true, iter: i, now: map[int]time.Time{}}
			sc.body(e)
			for _, v := range e.viol {
				if strings.Contains(v, "served a cached entry") {
					continue // oracles that need the scheduler's bookkeeping
				}
				fmt.Println("FREE-RUN VIOLATION", sc.name, v)
				os.Exit(3)
			}
		}
	}
	fmt.Println("free-running pass done")
}

// child explores one scenario and prints its result as JSON.
func child(name, boundS, budgetS, tier string) {
	var bound, budget int
	fmt.Sscan(boundS, &bound)
	fmt.Sscan(budgetS, &budget)
	var sc *scenario
	for _, x := range scenarios(true) {
		if x.name == name {
			x := x
			sc = &x
		}
	}
	if sc == nil {
		fmt.Fprintln(os.Stderr, "unknown scenario", name)
		os.Exit(2)
	}
	real := os.Stdout
	os.Stdout, _ = os.Open(os.DevNull) // the library prints from some paths
	deadline := time.Now().Add(time.Duration(budget) * time.Second)
	type viol struct {
		Key, What string
		Choices   []int
	}
	out := struct {
		Execs, Steps, MaxSteps int64
		Observations           []string
		Interrupted            bool
		CompletedBound         int
		Viol                   []viol
	}{}
	// determinism: the default schedule twice must give identical observations
	var a, b execResult
	explore.Run(nil, func(c *explore.Ctx) { a = runScheduled(*sc, c) })
	explore.Run(nil, func(c *explore.Ctx) { b = runScheduled(*sc, c) })
	if a.obs != b.obs || a.steps != b.steps {
		fmt.Fprintf(os.Stderr, "scenario %s is not deterministic under the scheduler: %q/%d vs %q/%d\n", name, a.obs, a.steps, b.obs, b.steps)
		os.Exit(2)
	}
	seen := map[string]bool{}
	vseen := map[string]int{}
	var beat atomic.Int64
	go func() {
		// a thread blocked on something the scheduler does not model (or spinning without touching instrumented state)
		// cannot be decided here: that is a harness limitation, reported as such, never as a violation
		last, since := int64(-1), time.Now()
		for {
			time.Sleep(time.Second)
			if b := beat.Load(); b != last {
				last, since = b, time.Now()
			} else if time.Since(since) > 90*time.Second {
				fmt.Fprintf(os.Stderr, "scenario %s: one execution has not finished for 90 s: a thread blocks or spins outside the scheduler's model\n", name)
				os.Exit(2)
			}
		}
	}()
	violating := 0
	out.CompletedBound = -1
	var st explore.Stats
	// iterative context bounding: everything with 0 deviations, then <= 1, ... ; the bound reported as completed is the
	// largest one whose exploration finished inside the budget
	for b := 0; b <= bound; b++ {
		if b > 0 && b < bound-1 {
			continue // 0 (the default schedule), then the last two bounds
		}
		st = explore.Explore(explore.Options{Bound: b, Workers: 1, Stop: func() bool { return time.Now().After(deadline) || violating >= 25 }}, func(c *explore.Ctx) {
			beat.Add(1)
			res := runScheduled(*sc, c)
			out.Execs++
			out.Steps += int64(res.steps)
			if int64(res.steps) > out.MaxSteps {
				out.MaxSteps = int64(res.steps)
			}
			if !seen[res.obs] && len(seen) < 5000 {
				seen[res.obs] = true
			}
			if len(res.viol) > 0 {
				violating++ // the exploration stops early once the property is known to be violated
			}
			for _, v := range res.viol {
				key := v
				if i := strings.Index(key, " from the shared"); i > 0 {
					key = key[:i]
				}
				if i := strings.Index(key, " (at "); i > 0 {
					key = key[:i]
				}
				vseen[key]++
				if vseen[key] <= 2 && len(out.Viol) < 20 {
					out.Viol = append(out.Viol, viol{key, v, append([]int{}, c.Choices...)})
				}
			}
		})
		if st.Interrupted {
			break
		}
		out.CompletedBound = b
	}
	out.Interrupted = st.Interrupted
	for o := range seen {
		out.Observations = append(out.Observations, o)
	}
	sort.Strings(out.Observations)
	b2, _ := json.Marshal(out)
	real.Write(b2)
}
