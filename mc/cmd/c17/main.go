// C17 — identifiers, size limits and per-version traits follow the specification.
package main

import (
	"bytes"
	"encoding/base64"
	"encoding/json"
	"errors"
	"fmt"
	"strings"
	"time"
	"unicode/utf8"

	gmsl "github.com/matrix-org/gomatrixserverlib"
	"github.com/matrix-org/gomatrixserverlib/spec"

	"verif/mc/evgen"
	"verif/mc/harness"
	"verif/mc/ref/refids"
	"verif/mc/ref/refversions"
)

type idCase struct {
	Parser string
	Input  string
}

// checkID runs one parser on one string against the reference recogniser.
func checkID(r *harness.Run, c idCase) error {
	r.Eval()
	s := c.Input
	switch c.Parser {
	case "server":
		var host string
		var port int
		var ok bool
		if p, msg := harness.Try(func() { host, port, ok = spec.ParseAndValidateServerName(spec.ServerName(s)) }); p {
			return fmt.Errorf("panic: %s", msg)
		}
		rh, rp, rok := refids.ServerName(s)
		if ok != rok {
			return fmt.Errorf("ParseAndValidateServerName(%q) valid=%v, grammar says %v", s, ok, rok)
		}
		if ok && (host != rh || port != rp) {
			return fmt.Errorf("ParseAndValidateServerName(%q) = (%q,%d), grammar gives (%q,%d)", s, host, port, rh, rp)
		}
		if ok {
			r.Nontrivial("s:" + s)
		}
	case "user", "user-historical":
		hist := c.Parser == "user-historical"
		var u *spec.UserID
		var err error
		if p, msg := harness.Try(func() { u, err = spec.NewUserID(s, hist) }); p {
			return fmt.Errorf("panic: %s", msg)
		}
		l, d, rok := refids.UserID(s, hist)
		if (err == nil) != rok {
			return fmt.Errorf("NewUserID(%q, historical=%v) err=%v, grammar says valid=%v", s, hist, err, rok)
		}
		if rok {
			if u.Local() != l || string(u.Domain()) != d || u.String() != s || "@"+u.Local()+":"+string(u.Domain()) != s {
				return fmt.Errorf("NewUserID(%q) parts (%q,%q) do not re-concatenate", s, u.Local(), u.Domain())
			}
			r.Nontrivial("u:" + c.Parser + s)
		}
	case "room":
		var rm *spec.RoomID
		var err error
		if p, msg := harness.Try(func() { rm, err = spec.NewRoomID(s) }); p {
			return fmt.Errorf("panic: %s", msg)
		}
		o, d, dl, rok := refids.RoomID(s)
		if (err == nil) != rok {
			return fmt.Errorf("NewRoomID(%q) err=%v, grammar says valid=%v", s, err, rok)
		}
		if rok {
			if rm.OpaqueID() != o || rm.String() != s {
				return fmt.Errorf("NewRoomID(%q) opaque %q", s, rm.OpaqueID())
			}
			if !dl {
				if string(rm.Domain()) != d || "!"+rm.OpaqueID()+":"+string(rm.Domain()) != s {
					return fmt.Errorf("NewRoomID(%q) parts (%q,%q) do not re-concatenate", s, rm.OpaqueID(), rm.Domain())
				}
			}
			r.Nontrivial("r:" + s)
		}
	case "split@", "split!", "split$":
		sigil := c.Parser[5]
		var l string
		var d spec.ServerName
		var err error
		if p, msg := harness.Try(func() { l, d, err = gmsl.SplitID(sigil, s) }); p {
			return fmt.Errorf("panic: %s", msg)
		}
		i := strings.IndexByte(s, ':')
		rok := len(s) > 0 && s[0] == sigil && i >= 0
		if (err == nil) != rok {
			return fmt.Errorf("SplitID(%q,%q) err=%v, expected ok=%v", sigil, s, err, rok)
		}
		if rok && (l != s[1:i] || string(d) != s[i+1:]) {
			return fmt.Errorf("SplitID(%q,%q) = (%q,%q)", sigil, s, l, d)
		}
		if rok {
			r.Nontrivial("x:" + c.Parser + s)
		}
	}
	return nil
}

var parsers = []string{"server", "user", "user-historical", "room", "split@", "split!", "split$"}

// ---- base64 -----------------------------------------------------------------

func checkB64Bytes(r *harness.Run, b []byte) error {
	r.Eval()
	enc := spec.Base64Bytes(b).Encode()
	if enc != base64.RawStdEncoding.EncodeToString(b) {
		return fmt.Errorf("Encode(%x) = %q, want unpadded standard base64", b, enc)
	}
	for _, s := range []string{enc, base64.RawURLEncoding.EncodeToString(b)} {
		var d spec.Base64Bytes
		if err := d.Decode(s); err != nil || !bytes.Equal(d, b) {
			return fmt.Errorf("Decode(%q) = %x, %v; want %x", s, []byte(d), err, b)
		}
		var j spec.Base64Bytes
		if err := json.Unmarshal([]byte(`"`+s+`"`), &j); err != nil || !bytes.Equal(j, b) {
			return fmt.Errorf("UnmarshalJSON(%q) = %x, %v; want %x", s, []byte(j), err, b)
		}
	}
	// a value that was handed out stays what it was when the same variable is decoded into again (and again through the
	// JSON entry point), with a shorter, an equally long and a longer value
	for _, later := range [][]byte{{}, {0xAA}, bytes.Repeat([]byte{0x55}, len(b)), bytes.Repeat([]byte{0x33}, len(b)+7)} {
		var v spec.Base64Bytes
		if err := v.Decode(enc); err != nil {
			return fmt.Errorf("Decode(%q): %v", enc, err)
		}
		kept := v
		if err := v.Decode(base64.RawStdEncoding.EncodeToString(later)); err != nil || !bytes.Equal(v, later) {
			return fmt.Errorf("second Decode into the same variable gives %x, %v; want %x", []byte(v), err, later)
		}
		if !bytes.Equal(kept, b) {
			return fmt.Errorf("a value decoded earlier (%x) reads %x after the same variable was decoded into again with %x", b, []byte(kept), later)
		}
		kept = v
		if err := json.Unmarshal([]byte(`"`+enc+`"`), &v); err != nil || !bytes.Equal(v, b) {
			return fmt.Errorf("UnmarshalJSON into a used variable gives %x, %v; want %x", []byte(v), err, b)
		}
		if !bytes.Equal(kept, later) {
			return fmt.Errorf("a value decoded earlier (%x) reads %x after the same variable was unmarshalled into again", later, []byte(kept))
		}
	}
	mj, err := json.Marshal(spec.Base64Bytes(b))
	if err != nil || string(mj) != `"`+enc+`"` {
		return fmt.Errorf("MarshalJSON(%x) = %s, %v", b, mj, err)
	}
	r.Nontrivial("b:" + enc)
	return nil
}

func checkB64String(r *harness.Run, s string) error {
	r.Eval()
	var d spec.Base64Bytes
	var err error
	if p, msg := harness.Try(func() { err = d.Decode(s) }); p {
		return fmt.Errorf("panic: %s", msg)
	}
	// canonical strings of either alphabet must be accepted with the right value
	for _, encd := range []*base64.Encoding{base64.RawStdEncoding.Strict(), base64.RawURLEncoding.Strict()} {
		if want, e := encd.DecodeString(s); e == nil && !strings.ContainsAny(s, "\r\n") {
			if err != nil || !bytes.Equal(d, want) {
				return fmt.Errorf("Decode(%q) = %x, %v; canonical base64 for %x", s, []byte(d), err, want)
			}
			r.Nontrivial("bs:" + s)
		}
	}
	// the JSON entry point: every spelling of the same string (one character, or all of them, written as \u00xx in lower or
	// upper case, or with the short escape JSON defines for it: \/ for the solidus, \n for the line feed) denotes the same
	// string and must decode exactly as Decode does
	spell := func(c byte, kind int) string {
		switch kind {
		case 1:
			return fmt.Sprintf("\\u%04x", c)
		case 2:
			return fmt.Sprintf("\\u%04X", c)
		case 3:
			switch c {
			case '/':
				return "\\/"
			case '\n':
				return "\\n"
			}
		}
		if c == '\n' {
			return "\\n" // a raw line feed is not allowed inside a JSON string
		}
		return string(c)
	}
	for kind := 0; kind <= 3; kind++ {
		for pos := -1; pos < len(s); pos++ {
			if kind == 0 && pos >= 0 {
				break
			}
			var sb strings.Builder
			sb.WriteByte('"')
			for i := 0; i < len(s); i++ {
				k := 0
				if pos == -1 || pos == i {
					k = kind
				}
				sb.WriteString(spell(s[i], k))
			}
			sb.WriteByte('"')
			var j spec.Base64Bytes
			jerr := json.Unmarshal([]byte(sb.String()), &j)
			if (jerr == nil) != (err == nil) || (err == nil && !bytes.Equal(j, d)) {
				return fmt.Errorf("UnmarshalJSON(%s) = %x, %v but Decode(%q) = %x, %v: one string, two answers", sb.String(), []byte(j), jerr, s, []byte(d), err)
			}
		}
	}
	if err == nil {
		// whatever was accepted must round-trip as a value
		var d2 spec.Base64Bytes
		if e := d2.Decode(d.Encode()); e != nil || !bytes.Equal(d2, d) {
			return fmt.Errorf("Decode(%q) accepted as %x but does not round-trip", s, []byte(d))
		}
		// and must not contain a character of neither alphabet
		for i := 0; i < len(s); i++ {
			c := s[i]
			if !(c >= 'a' && c <= 'z' || c >= 'A' && c <= 'Z' || c >= '0' && c <= '9' || c == '+' || c == '/' || c == '-' || c == '_' || c == '\r' || c == '\n') {
				return fmt.Errorf("Decode(%q) accepted a string with byte %q", s, c)
			}
		}
	}
	return nil
}

// ---- size limits ------------------------------------------------------------

type limCase struct {
	Version  string
	Path     string // untrusted | build
	Field    [4]string
	JSONPad  int // pad content so that len(JSON) == JSONPad (0 = no padding)
	JSONSize int
}

var errRoomFirst = errors.New("an event whose room ID exceeds only the 255-byte limit while another field exceeds 255 code points is reported as too large but persistable: the room ID is checked at parse time, before CheckFields sees the other fields")

var fieldNames = []string{"type", "state_key", "sender", "room_id"}

// size classes for one field: 0 within both limits, 1 >255 bytes only, 2 >255 code points
func classOf(s string) int {
	if utf8.RuneCountInString(s) > 255 {
		return 2
	}
	if len(s) > 255 {
		return 1
	}
	return 0
}

func mkField(kind int, variant string) string {
	// kind: which field; variant: size shape
	pad := func(prefix, suffix string, fill string, n int) string {
		return prefix + strings.Repeat(fill, n) + suffix
	}
	prefix, suffix := "", ""
	switch kind {
	case 2:
		prefix, suffix = "@", ":a.org"
	case 3:
		prefix, suffix = "!", ":a.org"
	}
	fixed := utf8.RuneCountInString(prefix + suffix)
	switch variant {
	case "small":
		return pad(prefix, suffix, "x", 3)
	case "a254":
		return pad(prefix, suffix, "x", 254-fixed)
	case "a255":
		return pad(prefix, suffix, "x", 255-fixed)
	case "a256":
		return pad(prefix, suffix, "x", 256-fixed)
	case "m255cp": // 255 code points, far more than 255 bytes
		return pad(prefix, suffix, "é", 255-fixed)
	case "m256cp":
		return pad(prefix, suffix, "é", 256-fixed)
	case "m128cp": // 256 bytes-ish: just over the byte limit, well under the code point limit
		n := (256 - len(prefix+suffix) + 1) / 2
		return pad(prefix, suffix, "é", n)
	case "m127cp": // <= 255 bytes
		n := (255 - len(prefix+suffix)) / 2
		return pad(prefix, suffix, "é", n)
	}
	panic(variant)
}

var variants = []string{"small", "a254", "a255", "a256", "m255cp", "m256cp", "m128cp", "m127cp"}

func expectedLimit(c limCase, fields [4]string, jsonLen int, hasStateKey bool, pseudo bool) (refuse bool, persistable bool) {
	worst := 0
	for i, f := range fields {
		if i == 1 && !hasStateKey {
			continue
		}
		if i == 2 && pseudo {
			continue
		}
		if k := classOf(f); k > worst {
			worst = k
		}
	}
	if jsonLen > 65536 || worst == 2 {
		return true, false
	}
	if worst == 1 {
		return true, true
	}
	return false, false
}

func classify(err error) string {
	if err == nil {
		return "ok"
	}
	var ve gmsl.EventValidationError
	if errors.As(err, &ve) {
		if ve.Persistable {
			return "too-large-persistable"
		}
		return "too-large"
	}
	return "other-error"
}

func runLimit(r *harness.Run, version string, path string, fields [4]string, targetJSON int) error {
	r.Eval()
	row := refversions.Get(version)
	ver := gmsl.MustGetRoomVersion(gmsl.RoomVersion(version))
	pseudo := version == "org.matrix.msc4014"
	roomID := fields[3]
	if row.DomainlessRoomIDs {
		// domainless room IDs have a fixed length: the room ID dimension does not apply
		roomID = "!" + strings.Repeat("A", 43)
		fields[3] = roomID
	}
	var err error
	var jsonLen int
	content := `{"body":"x"}`
	switch path {
	case "untrusted":
		e := evgen.Ev{Type: fields[0], Sender: fields[2], RoomID: roomID, StateKey: evgen.S(fields[1]), Content: content, Prev: []string{"$p:a.org"}, Auth: []string{}, Depth: 2, TS: 1000}
		if row.EventFormat != 1 {
			e.Prev = []string{"$" + strings.Repeat("p", 43)}
		}
		js := e.JSON(version)
		if targetJSON > 0 {
			// pad content so that the canonical JSON the library measures (without unsigned) has the target size
			canon, cerr := gmsl.CanonicalJSON(js)
			if cerr != nil {
				return fmt.Errorf("canonical: %v", cerr)
			}
			need := targetJSON - len(canon)
			if need < 0 {
				return nil
			}
			e.Content = `{"body":"x` + strings.Repeat("y", need) + `"}`
			js = e.JSON(version)
		}
		canon, _ := gmsl.CanonicalJSON(js)
		jsonLen = len(canon)
		if p, msg := harness.Try(func() { _, err = ver.NewEventFromUntrustedJSON(js) }); p {
			return fmt.Errorf("panic: %s", msg)
		}
	case "build":
		sk := fields[1]
		eb := ver.NewEventBuilderFromProtoEvent(&gmsl.ProtoEvent{SenderID: fields[2], RoomID: roomID, Type: fields[0], StateKey: &sk, PrevEvents: []string{"$" + strings.Repeat("p", 43)}, AuthEvents: []string{}, Depth: 2, Content: []byte(content)})
		k := evgen.NewKey("a.org", "ed25519:1", 1)
		var ev gmsl.PDU
		if p, msg := harness.Try(func() { ev, err = eb.Build(time.UnixMilli(1000), "a.org", "ed25519:1", k.Priv) }); p {
			return fmt.Errorf("panic: %s", msg)
		}
		if targetJSON > 0 && ev != nil {
			need := targetJSON - len(ev.JSON())
			if need < 0 {
				return nil
			}
			eb.Content = []byte(`{"body":"x` + strings.Repeat("y", need) + `"}`)
			ev, err = eb.Build(time.UnixMilli(1000), "a.org", "ed25519:1", k.Priv)
		}
		if ev != nil {
			jsonLen = len(ev.JSON())
		}
		if targetJSON > 0 && jsonLen != targetJSON {
			return nil // v1 event IDs are random-length free; cannot hit the size exactly: skip
		}
	}
	refuse, pers := expectedLimit(limCase{}, fields, jsonLen, true, pseudo)
	got := classify(err)
	want := "ok"
	if refuse && pers {
		want = "too-large-persistable"
	} else if refuse {
		want = "too-large"
	}
	r.Outcome(want)
	if got == "other-error" && want != "ok" {
		// refused, although not with the documented error class: the property demands refusal; accept
		if want == "too-large-persistable" {
			return fmt.Errorf("version %s %s: event exceeding only the 255-byte limit must be reported as too large but persistable; got %v", version, path, err)
		}
		return nil
	}
	if got == "too-large-persistable" && want == "too-large" && classOf(fields[3]) == 1 {
		// one call site: the room ID is checked at parse time, before the other fields
		return errRoomFirst
	}
	if got != want {
		sizes := ""
		for i, f := range fields {
			sizes += fmt.Sprintf(" %s=%dB/%dcp", fieldNames[i], len(f), utf8.RuneCountInString(f))
		}
		return fmt.Errorf("version %s %s:%s json=%dB: expected %s, got %s (%v)", version, path, sizes, jsonLen, want, got, err)
	}
	if want != "ok" {
		r.Nontrivial(fmt.Sprintf("l:%s:%s:%d:%v", version, path, jsonLen, []int{classOf(fields[0]), classOf(fields[1]), classOf(fields[2]), classOf(fields[3])}))
	}
	return nil
}

// ---- version table ------------------------------------------------------------

func checkVersion(r *harness.Run, version string) []string {
	var bad []string
	fail := func(f string, a ...interface{}) {
		bad = append(bad, fmt.Sprintf("version %s: ", version)+fmt.Sprintf(f, a...))
	}
	row := refversions.Get(version)
	v, err := gmsl.GetRoomVersion(gmsl.RoomVersion(version))
	if err != nil {
		return []string{"version " + version + " is not registered"}
	}
	r.Eval()
	if v.Version() != gmsl.RoomVersion(version) {
		fail("Version() = %s", v.Version())
	}
	if v.Stable() != row.Stable {
		fail("Stable() = %v, spec %v", v.Stable(), row.Stable)
	}
	if int(v.StateResAlgorithm()) != row.StateRes {
		fail("StateResAlgorithm() = %d, spec %d", v.StateResAlgorithm(), row.StateRes)
	}
	if int(v.EventFormat()) != row.EventFormat {
		fail("EventFormat() = %d, spec %d", v.EventFormat(), row.EventFormat)
	}
	if int(v.EventIDFormat()) != row.EventIDFormat {
		fail("EventIDFormat() = %d, spec %d", v.EventIDFormat(), row.EventIDFormat)
	}
	if v.DomainlessRoomIDs() != row.DomainlessRoomIDs {
		fail("DomainlessRoomIDs() = %v", v.DomainlessRoomIDs())
	}
	if v.PrivilegedCreators() != row.PrivilegedCreators {
		fail("PrivilegedCreators() = %v", v.PrivilegedCreators())
	}
	// behavioural probes through every function-valued column
	try := func(name string, f func()) {
		r.Eval()
		if p, msg := harness.Try(f); p {
			fail("%s panics: %s", name, msg)
		}
	}
	try("SignatureValidityCheck", func() {
		strictRejects := !v.SignatureValidityCheck(2000, 1000)
		if strictRejects != row.StrictKeyValidity {
			fail("SignatureValidityCheck(at=2000, valid_until=1000) strict=%v, spec %v", strictRejects, row.StrictKeyValidity)
		}
		if !v.SignatureValidityCheck(1000, 1000) || !v.SignatureValidityCheck(999, 1000) {
			fail("SignatureValidityCheck refuses at <= valid_until")
		}
	})
	try("CheckCanonicalJSON", func() {
		enf := v.CheckCanonicalJSON([]byte(`{"a":1.5}`)) != nil
		if enf != row.EnforceCanonicalJSON {
			fail("CheckCanonicalJSON enforces=%v, spec %v", enf, row.EnforceCanonicalJSON)
		}
		if v.CheckCanonicalJSON([]byte(`{"a":1}`)) != nil {
			fail("CheckCanonicalJSON refuses an integer")
		}
	})
	try("ParsePowerLevels", func() {
		var c gmsl.PowerLevelContent
		c.Defaults()
		intOnly := v.ParsePowerLevels([]byte(`{"users_default":"5"}`), &c) != nil
		if intOnly != row.IntegerPowerLevels {
			fail("ParsePowerLevels refuses string levels=%v, spec %v", intOnly, row.IntegerPowerLevels)
		}
		var c2 gmsl.PowerLevelContent
		c2.Defaults()
		if err := v.ParsePowerLevels([]byte(`{"users_default":5,"users":{"@a:b":7}}`), &c2); err != nil || c2.UsersDefault != 5 || c2.Users["@a:b"] != 7 {
			fail("ParsePowerLevels fails on integer levels: %v", err)
		}
	})
	try("CheckKnockingAllowed", func() {
		ok := v.CheckKnockingAllowed(version, "@a:b", "@a:b", "knock", "leave") == nil
		if ok != row.Knock {
			fail("knocking allowed=%v, spec %v", ok, row.Knock)
		}
	})
	try("CheckRestrictedJoinsAllowed", func() {
		ok := v.CheckRestrictedJoinsAllowed() == nil
		if ok != row.RestrictedJoins {
			fail("restricted joins allowed=%v, spec %v", ok, row.RestrictedJoins)
		}
	})
	try("RestrictedJoinServername", func() {
		s, err := v.RestrictedJoinServername([]byte(`{"membership":"join","join_authorised_via_users_server":"@x:auth.org"}`))
		want := ""
		if row.RestrictedJoins {
			want = "auth.org"
		}
		if err != nil || string(s) != want {
			fail("RestrictedJoinServername = %q, %v; spec %q", s, err, want)
		}
	})
	try("RedactEventJSON", func() {
		probe := func(typ, content string, keep []string, drop []string) {
			e := evgen.Ev{Type: typ, Sender: "@a:a.org", RoomID: "!r:a.org", StateKey: evgen.S(""), Content: content, Depth: 1, TS: 1,
				Extra: map[string]string{"origin": `"a.org"`, "membership": `"join"`, "prev_state": `[]`}}
			out, err := v.RedactEventJSON(e.JSON(version))
			if err != nil {
				fail("RedactEventJSON: %v", err)
				return
			}
			o := evgen.MustParse(out)
			c := evgen.Get(o, "content")
			for _, k := range keep {
				if evgen.Get(c, k) == nil {
					fail("redaction of %s drops content.%s (algorithm generation %d)", typ, k, row.Redaction)
				}
			}
			for _, k := range drop {
				if evgen.Get(c, k) != nil {
					fail("redaction of %s keeps content.%s (algorithm generation %d)", typ, k, row.Redaction)
				}
			}
			for _, k := range []string{"origin", "membership", "prev_state"} {
				if (evgen.Get(o, k) != nil) != (row.Redaction < 5) {
					fail("redaction keeps top-level %s = %v (algorithm generation %d)", k, evgen.Get(o, k) != nil, row.Redaction)
				}
			}
		}
		kd := func(cond bool, k string, keep, drop *[]string) {
			if cond {
				*keep = append(*keep, k)
			} else {
				*drop = append(*drop, k)
			}
		}
		var keep, drop []string
		kd(row.Redaction == 1, "aliases", &keep, &drop)
		probe("m.room.aliases", `{"aliases":["#a:b"]}`, keep, drop)
		keep, drop = []string{"join_rule"}, nil
		kd(row.Redaction >= 3, "allow", &keep, &drop)
		probe("m.room.join_rules", `{"join_rule":"restricted","allow":[]}`, keep, drop)
		keep, drop = []string{"membership"}, []string{"displayname"}
		kd(row.Redaction >= 4, "join_authorised_via_users_server", &keep, &drop)
		probe("m.room.member", `{"membership":"join","join_authorised_via_users_server":"@x:y","displayname":"d"}`, keep, drop)
		keep, drop = []string{"users"}, nil
		kd(row.Redaction >= 5, "invite", &keep, &drop)
		probe("m.room.power_levels", `{"users":{},"invite":5}`, keep, drop)
		keep, drop = nil, nil
		kd(row.Redaction >= 5, "room_version", &keep, &drop)
		kd(true, "creator", &keep, &drop)
		probe("m.room.create", `{"creator":"@a:a.org","room_version":"x"}`, keep, drop)
		keep, drop = nil, nil
		kd(row.Redaction >= 5, "redacts", &keep, &drop)
		probe("m.room.redaction", `{"redacts":"$x","reason":"r"}`, keep, drop)
	})
	try("Build/format", func() {
		k := evgen.NewKey("a.org", "ed25519:1", 1)
		room := "!r:a.org"
		if row.DomainlessRoomIDs {
			room = "!" + strings.Repeat("A", 43)
		}
		sk := ""
		eb := v.NewEventBuilderFromProtoEvent(&gmsl.ProtoEvent{SenderID: "@a:a.org", RoomID: room, Type: "m.room.topic", StateKey: &sk, PrevEvents: []string{"$" + strings.Repeat("p", 43)}, AuthEvents: []string{"$" + strings.Repeat("q", 43)}, Depth: 2, Content: []byte(`{"topic":"t"}`)})
		ev, err := eb.Build(time.UnixMilli(1000), "a.org", "ed25519:1", k.Priv)
		if err != nil {
			fail("Build: %v", err)
			return
		}
		o := evgen.MustParse(ev.JSON())
		hasID := evgen.Get(o, "event_id") != nil
		if hasID != (row.EventFormat == 1) {
			fail("built event has event_id field = %v, format %d", hasID, row.EventFormat)
		}
		pe := evgen.Get(o, "prev_events")
		if pe == nil || len(pe.Elems) != 1 {
			fail("built event prev_events malformed")
		} else if (pe.Elems[0].Kind == 5) != (row.EventFormat == 1) { // Array kind == 5
			fail("built event prev_events element kind %d for format %d", pe.Elems[0].Kind, row.EventFormat)
		}
		id := ev.EventID()
		switch row.EventIDFormat {
		case 1:
			if !strings.HasSuffix(id, ":a.org") {
				fail("v1-format event ID %q lacks the origin", id)
			}
		case 2:
			if len(id) != 44 || strings.ContainsAny(id[1:], "-_") && !strings.ContainsAny(id[1:], "+/") && false {
				fail("event ID %q", id)
			}
			if _, e := base64.RawStdEncoding.DecodeString(id[1:]); e != nil {
				fail("event ID %q is not standard unpadded base64", id)
			}
		case 3:
			if _, e := base64.RawURLEncoding.DecodeString(id[1:]); e != nil || len(id) != 44 {
				fail("event ID %q is not URL-safe unpadded base64", id)
			}
		}
	})
	if len(bad) == 0 {
		r.Nontrivial("v:" + version)
	}
	return bad
}

func main() { harness.Main("C17", "model_checking", run) }

func run(r *harness.Run) {
	r.Rule("(a) every string of length <= L over a 17-symbol identifier alphabet, plus every string of length <= L2 over {: f 0 . 1 [ ]} and a long-tail list (length limits, ports) plus every single-byte substitution / insertion / deletion and every pair of skip-byte insertions around valid 43-character IDs, through 7 parser entry points vs grammar recognisers; (b) every byte string of length <= B and every string of length <= 4 over a 12-symbol base64 alphabet; (c) events with each of type/state_key/sender/room_id in 8 size shapes (singles and all pairs) and JSON of 65535/65536/65537 bytes, on receipt and on build, all 16 versions; (d) the 16-row version table through getters and behavioural probes of every function-valued column. Non-trivial = distinct accepted identifier / distinct refused size class / version row fully matching.")
	r.Assume("net/netip decides IPv6 literal validity", "historical user IDs: the library documents that it does not enforce the historical character range; the reference follows that", "room-ID length is only limited where events are checked (255), as the code documents; ports may have any number of digits as long as the value is <= 65535 (the property states only the value bound)")
	r.OnReplay("id", func(raw json.RawMessage) error {
		var c idCase
		_ = json.Unmarshal(raw, &c)
		return checkID(r, c)
	})
	r.OnReplay("b64", func(raw json.RawMessage) error {
		var s struct{ S string }
		_ = json.Unmarshal(raw, &s)
		return checkB64String(r, s.S)
	})
	r.OnReplay("limit", func(raw json.RawMessage) error {
		var c struct {
			Version, Path string
			Fields        [4]string
			Target        int
		}
		_ = json.Unmarshal(raw, &c)
		return runLimit(r, c.Version, c.Path, c.Fields, c.Target)
	})
	r.OnReplay("version", func(raw json.RawMessage) error {
		var s struct{ Version string }
		_ = json.Unmarshal(raw, &s)
		if b := checkVersion(r, s.Version); len(b) > 0 {
			return fmt.Errorf("%s", strings.Join(b, "; "))
		}
		return nil
	})
	if r.Replaying() {
		return
	}
	idViol := func(c idCase, err error) {
		if err != nil {
			r.Violation("id:"+c.Parser+":"+c.Input, err.Error(), "id", c)
		}
	}
	// (a) identifiers
	alpha := []string{"@", "!", "$", ":", "a", "A", "1", ".", "-", "_", "/", "[", "]", "=", " ", "é", "\x00"}
	L := r.Pick(6, 7)
	var enum func(prefix string, depth int, alpha []string, max int, f func(string))
	enum = func(prefix string, depth int, alpha []string, max int, f func(string)) {
		f(prefix)
		if depth == max {
			return
		}
		for _, a := range alpha {
			enum(prefix+a, depth+1, alpha, max, f)
		}
	}
	var shards []string
	for _, a := range alpha {
		for _, b := range alpha {
			shards = append(shards, a+b)
		}
	}
	for _, a := range alpha {
		for _, p := range parsers {
			idViol(idCase{p, a}, checkID(r, idCase{p, a}))
		}
	}
	for _, p := range parsers {
		idViol(idCase{p, ""}, checkID(r, idCase{p, ""}))
	}
	r.Parallel(len(shards), func(i int) {
		enum(shards[i], 2, alpha, L, func(s string) {
			for _, p := range parsers {
				c := idCase{p, s}
				idViol(c, checkID(r, c))
			}
		})
	})
	// server-name focused sub-alphabets (IPv6 literals, ports), also embedded in user and room IDs
	alpha2 := []string{":", "f", "0", ".", "1", "[", "]", "+", "-"}
	L2 := r.Pick(7, 9)
	var shards2 []string
	for _, a := range alpha2 {
		for _, b := range alpha2 {
			shards2 = append(shards2, a+b)
		}
	}
	r.Parallel(len(shards2), func(i int) {
		enum(shards2[i], 2, alpha2, L2, func(s string) {
			c := idCase{"server", s}
			idViol(c, checkID(r, c))
			c = idCase{"user", "@a:" + s}
			idViol(c, checkID(r, c))
			c = idCase{"room", "!a:" + s}
			idViol(c, checkID(r, c))
		})
	})
	alpha3 := []string{":", "f", "0", "."}
	L3 := r.Pick(10, 11)
	var shards3 []string
	for _, a := range alpha3 {
		for _, b := range alpha3 {
			for _, c := range alpha3 {
				shards3 = append(shards3, a+b+c)
			}
		}
	}
	r.Parallel(len(shards3), func(i int) {
		enum(shards3[i], 3, alpha3, L3, func(s string) {
			c := idCase{"server", s}
			idViol(c, checkID(r, c))
		})
	})
	// long tail
	x := func(n int) string { return strings.Repeat("x", n) }
	b43 := strings.Repeat("A", 40) + "-_9"
	tail := []string{
		"a.org:65535", "a.org:65536", "a.org:000080", "a.org:0", "a.org:99999", "a.org:100000", "a.org:+80", "a.org:-0", "a.org:8 0", "a.org:", "a.org:80:80",
		"[::1]:8448", "[::1]", "[::1]:", "[::1]x", "[::1", "::1", "[1.2.3.4]", "[1.2.3.4]:80", "[::ffff:1.2.3.4]", "::ffff:1.2.3.4", "[fe80::1%eth0]", "[]", "[:]", "[::1]:65536", "[2001:db8::1]:1", "2001:db8::1",
		"1.2.3.4", "1.2.3.4:8448", "256.1.1.1", "1.2.3", "a_b.org", "a b.org", "é.org", "a..b", "-", ".", "A.ORG", x(255), x(256), x(300) + ":1",
		"@a:" + x(251), "@a:" + x(252), "@a:" + x(253), "@" + x(250) + ":ab", "@" + x(251) + ":ab", "@" + x(252) + ":ab", "@" + strings.Repeat("é", 125) + ":ab", "@" + strings.Repeat("é", 126) + ":ab",
		"@:ab", "@:a", "@a:", "@a", "@", "a:b", "@A:b", "@a:b:c", "@a:b:80", "@a:[::1]", "@a:[::1]:80", "@a b:c", "@a\x00:b", "@é:b", "@a:b/c",
		"!" + b43, "!" + b43 + "A", "!" + b43[:42], "!" + b43[:42] + "+", "!" + b43[:42] + "/", "!" + b43[:42] + "=", "!" + b43[:42] + ":", "!" + b43 + ":a", "!:", "!a:", "!:b", "!a:b c", "!a:[::1", "!", "!a", "!a:b", "!" + x(300) + ":a", "!a:b:c:d", "!a:b:80",
		"$a:b", "$" + b43, "$", "$:", "",
	}
	// IPv6 literals are longer than any enumerated string: a generated family over every shape (full, "::" at the front / in
	// the middle / at the end, IPv4-suffixed, malformed: 9 groups, 7 groups, two "::", 5-digit group, 7 groups + IPv4) x
	// group widths 1-4 x IPv4 suffixes of 7-15 characters, so that every length from 2 to 46 occurs; alone, with a port,
	// and as the domain of a user and a room ID
	{
		grp := func(w, i int) string { return strings.Repeat(string("123456789abcdefABCDEF"[i%21]), w) }
		groups := func(n, w int) string {
			var g []string
			for i := 0; i < n; i++ {
				g = append(g, grp(w, i))
			}
			return strings.Join(g, ":")
		}
		var lits []string
		v4s := []string{"1.2.3.4", "10.20.30.4", "10.20.30.40", "123.123.123.12", "123.123.123.123", "255.255.255.255", "256.1.1.1", "1.2.3"}
		for w := 1; w <= 5; w++ {
			for n := 1; n <= 9; n++ {
				lits = append(lits, groups(n, w))
				if n <= 8 {
					lits = append(lits, "::"+groups(n, w), groups(n, w)+"::")
				}
				for k := 1; k < n && n <= 8; k += 2 {
					lits = append(lits, groups(k, w)+"::"+groups(n-k, w))
				}
			}
			for _, v4 := range v4s {
				lits = append(lits, groups(6, w)+":"+v4, groups(7, w)+":"+v4, groups(5, w)+":"+v4, "::"+v4, "::ffff:"+v4, groups(2, w)+"::"+groups(2, w)+":"+v4, groups(5, w)+"::"+v4, "::"+groups(5, w)+":"+v4)
			}
		}
		lits = append(lits, "1::2::3", ":::", "::", ":", "1:2:3:4:5:6:7:8:", ":1:2:3:4:5:6:7:8", "g::1", "1::%eth0", "::1%25lo")
		for _, l := range lits {
			tail = append(tail, "["+l+"]", "["+l+"]:8448", l, "@u:["+l+"]", "!r:["+l+"]:1")
		}
	}
	// 43-character (domainless) room IDs and event IDs cannot be reached by short-string enumeration: every single-byte
	// substitution, insertion (all 256 byte values) and deletion around a valid one, and every pair of insertions from
	// a menu of bytes that lenient decoders skip
	for _, sig := range []string{"!", "$"} {
		tmpl := sig + b43
		for i := 0; i <= len(tmpl); i++ {
			for b := 0; b < 256; b++ {
				tail = append(tail, tmpl[:i]+string([]byte{byte(b)})+tmpl[i:])
				if i < len(tmpl) {
					tail = append(tail, tmpl[:i]+string([]byte{byte(b)})+tmpl[i+1:])
				}
			}
			if i < len(tmpl) {
				tail = append(tail, tmpl[:i]+tmpl[i+1:])
			}
		}
		skip := []string{"\n", "\r", " ", "=", "\t", "A"}
		for i := 1; i <= len(tmpl); i++ {
			for j := i; j <= len(tmpl); j++ {
				for _, a := range skip {
					for _, b := range skip {
						tail = append(tail, tmpl[:i]+a+tmpl[i:j]+b+tmpl[j:])
					}
				}
			}
		}
	}
	r.Count("long_tail_identifiers", int64(len(tail)))
	r.Parallel(len(tail), func(i int) {
		for _, p := range parsers {
			c := idCase{p, tail[i]}
			idViol(c, checkID(r, c))
		}
	})
	r.Sample("identifier", idCase{"server", "::ffff:0:0"})
	r.Sample("identifier", idCase{"user-historical", "@:ab"})
	r.Sample("identifier", idCase{"room", "!" + b43})

	// (b) base64
	B := r.Pick(2, 3)
	var bgen func(cur []byte)
	nb := 0
	bgen = func(cur []byte) {
		if err := checkB64Bytes(r, cur); err != nil {
			r.Violation(fmt.Sprintf("b64bytes:%x", cur), err.Error(), "none", nil)
		}
		nb++
		if len(cur) == B {
			return
		}
		for b := 0; b < 256; b++ {
			bgen(append(append([]byte(nil), cur...), byte(b)))
		}
	}
	if B >= 3 {
		var top [][]byte
		for b := 0; b < 256; b++ {
			top = append(top, []byte{byte(b)})
		}
		_ = checkB64Bytes(r, nil)
		r.Parallel(len(top), func(i int) { bgen(top[i]) })
	} else {
		bgen(nil)
	}
	for _, n := range []int{31, 32, 33, 64} { // key / hash / signature sizes
		b := make([]byte, n)
		for i := range b {
			b[i] = byte(0xf8 + i%8)
		}
		if err := checkB64Bytes(r, b); err != nil {
			r.Violation(fmt.Sprintf("b64bytes:%x", b), err.Error(), "none", nil)
		}
	}
	b64alpha := []string{"A", "Q", "g", "w", "/", "+", "-", "_", "=", " ", "9", "\n"}
	enum("", 0, b64alpha, 4, func(s string) {
		if err := checkB64String(r, s); err != nil {
			r.Violation("b64:"+s, err.Error(), "b64", map[string]string{"S": s})
		}
	})
	r.Sample("base64", "all 4-character strings over "+strings.Join(b64alpha, ""))

	// (c) limits
	vers := refversions.All()
	type lim struct {
		ver, path string
		fields    [4]string
		target    int
	}
	var lims []lim
	for _, v := range vers {
		for _, path := range []string{"untrusted", "build"} {
			base := [4]string{mkField(0, "small"), mkField(1, "small"), mkField(2, "small"), mkField(3, "small")}
			for f := 0; f < 4; f++ {
				for _, va := range variants {
					fl := base
					fl[f] = mkField(f, va)
					lims = append(lims, lim{v, path, fl, 0})
					// pairs: a second field in each over-limit shape
					for g := f + 1; g < 4; g++ {
						for _, vb := range []string{"a256", "m128cp", "m256cp"} {
							if va == "small" || va == "a254" || va == "a255" || va == "m127cp" {
								continue
							}
							fl2 := fl
							fl2[g] = mkField(g, vb)
							lims = append(lims, lim{v, path, fl2, 0})
						}
					}
				}
			}
			for _, t := range []int{65535, 65536, 65537} {
				lims = append(lims, lim{v, path, base, t})
			}
		}
	}
	r.Parallel(len(lims), func(i int) {
		l := lims[i]
		if err := runLimit(r, l.ver, l.path, l.fields, l.target); err != nil {
			key := fmt.Sprintf("limit:%s:%s:%v:%d", l.ver, l.path, []int{classOf(l.fields[0]), classOf(l.fields[1]), classOf(l.fields[2]), classOf(l.fields[3])}, l.target)
			if err == errRoomFirst {
				key = "limit:room-id-byte-limit-reported-before-other-fields-code-point-limit"
			}
			r.Violation(key, err.Error(), "limit", map[string]interface{}{"Version": l.ver, "Path": l.path, "Fields": l.fields, "Target": l.target})
		}
	})
	r.Count("limit_cases", int64(len(lims)))
	r.Sample("limit", map[string]interface{}{"version": "10", "path": "untrusted", "type": "150 x 'é' (300 bytes, 150 code points)", "sender": "@" + "x*249" + ":a.org (256 code points)", "expect": "too-large (not persistable)"})

	// (d) version table
	for _, v := range vers {
		for _, b := range checkVersion(r, v) {
			r.Violation("version:"+b, b, "version", map[string]string{"Version": v})
		}
	}
	for v := range gmsl.RoomVersions() {
		if !refversions.Known(string(v)) {
			r.Violation("unknown-version:"+string(v), "registered room version missing from the reference table", "none", nil)
		}
	}
	r.Sample("version-row", refversions.Get("org.matrix.msc3787"))
	r.Extra("bounds", map[string]int{"L": L, "L2": L2, "L3": L3, "B": B})
}
