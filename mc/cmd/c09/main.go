// C09 — an auth verdict depends only on the event and the state it needs.
// Three metamorphic explorations on the real code:
//  1. presentation of the auth state (insertion orders, un-needed events removed, unrelated state added, repetition);
//  2. checker reuse: every sequence up to a depth bound of (event, state) pairs through ONE allower context,
//     updated between events exactly as state resolution does, vs a fresh Allowed for each;
//  3. sufficiency of the auth events selected by EventBuilder.AddAuthEvents / StateNeededForAuth.
package main

import (
	"encoding/json"
	"fmt"
	"strings"

	gmsl "github.com/matrix-org/gomatrixserverlib"
	"github.com/matrix-org/gomatrixserverlib/spec"

	"verif/mc/authcells"
	"verif/mc/authgen"
	"verif/mc/evgen"
	"verif/mc/explore"
	"verif/mc/harness"
	"verif/mc/ref/refversions"
)

func verdictStr(err error) string {
	if err == nil {
		return "allowed"
	}
	return "refused"
}

func safeAllowed(ev gmsl.PDU, p gmsl.AuthEventProvider) (v string, perr error) {
	var err error
	if pn, msg := harness.Try(func() { err = gmsl.Allowed(ev, p, authgen.UID) }); pn {
		return "", fmt.Errorf("Allowed panics: %s", msg)
	}
	return verdictStr(err), nil
}

// unrelated state that no rule reads for the given event
func extras(sc *authgen.Scenario, needed map[gmsl.StateKeyTuple]bool) []authgen.SE {
	cand := []authgen.SE{
		{ID: "$xtopic" + strings.Repeat("t", 37), Type: "m.room.topic", StateKey: "", Sender: authcells.C, Content: `{"topic":"t"}`},
		{ID: "$xmember" + strings.Repeat("m", 36), Type: "m.room.member", StateKey: "@unrelated:z.org", Sender: "@unrelated:z.org", Content: `{"membership":"ban"}`},
		{ID: "$xmember2" + strings.Repeat("m", 35), Type: "m.room.member", StateKey: "@unrelated2:a.org", Sender: "@unrelated2:a.org", Content: `{"membership":"join"}`},
		{ID: "$xtpi" + strings.Repeat("i", 39), Type: "m.room.third_party_invite", StateKey: "other-token", Sender: authcells.C, Content: `{"display_name":"x","public_keys":[]}`},
		{ID: "$xhv" + strings.Repeat("h", 40), Type: "m.room.history_visibility", StateKey: "", Sender: authcells.C, Content: `{"history_visibility":"joined"}`},
	}
	var out []authgen.SE
	for _, c := range cand {
		if !needed[gmsl.StateKeyTuple{EventType: c.Type, StateKey: c.StateKey}] {
			out = append(out, c)
		}
	}
	return out
}

type presCase struct {
	Sc authgen.Scenario
}

func checkPresentation(r *harness.Run, sc authgen.Scenario) error {
	r.Eval()
	st, err := sc.StatePDUs()
	if err != nil {
		return nil // not constructible: not this check's business
	}
	ev, err := sc.EventPDU()
	if err != nil {
		return nil
	}
	prov, _ := gmsl.NewAuthEvents(st)
	base, perr := safeAllowed(ev, prov)
	if perr != nil {
		return perr
	}
	// repetition
	for i := 0; i < 2; i++ {
		if v, _ := safeAllowed(ev, prov); v != base {
			return fmt.Errorf("verdict changes on repetition: %s then %s", base, v)
		}
	}
	needed := map[gmsl.StateKeyTuple]bool{}
	for _, t := range gmsl.StateNeededForAuth([]gmsl.PDU{ev}).Tuples() {
		needed[t] = true
	}
	// every insertion order
	for _, perm := range explore.OrderMenu(len(st)) {
		p2, _ := gmsl.NewAuthEvents(nil)
		for _, i := range perm {
			_ = p2.AddEvent(st[i])
		}
		r.Eval()
		if v, perr := safeAllowed(ev, p2); perr != nil || v != base {
			return fmt.Errorf("verdict %s becomes %s (%v) when the auth events are supplied in order %v", base, v, perr, perm)
		}
	}
	// each un-needed event removed; only needed events kept
	var onlyNeeded []gmsl.PDU
	for i, e := range st {
		k := gmsl.StateKeyTuple{EventType: e.Type(), StateKey: *e.StateKey()}
		if needed[k] {
			onlyNeeded = append(onlyNeeded, e)
			continue
		}
		rest := append(append([]gmsl.PDU(nil), st[:i]...), st[i+1:]...)
		p2, _ := gmsl.NewAuthEvents(rest)
		r.Eval()
		if v, perr := safeAllowed(ev, p2); perr != nil || v != base {
			return fmt.Errorf("verdict %s becomes %s (%v) when the un-needed event %s/%s is removed", base, v, perr, e.Type(), *e.StateKey())
		}
	}
	p3, _ := gmsl.NewAuthEvents(onlyNeeded)
	r.Eval()
	if v, perr := safeAllowed(ev, p3); perr != nil || v != base {
		return fmt.Errorf("verdict %s becomes %s (%v) when only the state named by StateNeededForAuth is supplied (%d of %d events)", base, v, perr, len(onlyNeeded), len(st))
	}
	// unrelated state added (singly and all together)
	sc2 := sc
	ex := extras(&sc, needed)
	for i := -1; i < len(ex); i++ {
		sc2.State = append([]authgen.SE(nil), sc.State...)
		if i < 0 {
			sc2.State = append(sc2.State, ex...)
		} else {
			sc2.State = append(sc2.State, ex[i])
		}
		st2, err := sc2.StatePDUs()
		if err != nil {
			continue
		}
		p4, _ := gmsl.NewAuthEvents(st2)
		r.Eval()
		if v, perr := safeAllowed(ev, p4); perr != nil || v != base {
			return fmt.Errorf("verdict %s becomes %s (%v) when unrelated state is added", base, v, perr)
		}
	}
	// sufficiency: the auth events AddAuthEvents selects from the full state
	if ev.Type() != "m.room.create" {
		sc2.State = append(append([]authgen.SE(nil), sc.State...), ex...)
		full, err := sc2.StatePDUs()
		if err == nil {
			fp, _ := gmsl.NewAuthEvents(full)
			ver := gmsl.MustGetRoomVersion(gmsl.RoomVersion(sc.Version))
			pe := &gmsl.ProtoEvent{SenderID: sc.Event.Sender, RoomID: ev.RoomID().String(), Type: sc.Event.Type, StateKey: sc.Event.StateKey, Content: spec.RawJSON(sc.Event.Content), Redacts: sc.Event.Redacts}
			eb := ver.NewEventBuilderFromProtoEvent(pe)
			var aerr error
			if pn, msg := harness.Try(func() { aerr = eb.AddAuthEvents(fp) }); pn {
				return fmt.Errorf("AddAuthEvents panics: %s", msg)
			}
			if aerr == nil {
				ids := map[string]bool{}
				if l, ok := eb.AuthEvents.([]string); ok {
					for _, id := range l {
						ids[id] = true
					}
				}
				if refversions.Get(sc.Version).DomainlessRoomIDs {
					ids[authgen.CreateID] = true // implied by the room ID in this version
				}
				var sel []gmsl.PDU
				for _, e := range full {
					if ids[e.EventID()] {
						sel = append(sel, e)
					}
				}
				p5, _ := gmsl.NewAuthEvents(sel)
				r.Eval()
				fv, _ := safeAllowed(ev, fp)
				if v, perr := safeAllowed(ev, p5); perr != nil || v != fv {
					return fmt.Errorf("with the full room state the verdict is %s, with the %d auth events chosen by AddAuthEvents it is %s (%v)", fv, len(sel), v, perr)
				}
			}
		}
	}
	r.Outcome(base)
	return nil
}

// ---------------------------------------------------------------- checker reuse

type pair struct {
	Name string
	Sc   authgen.Scenario
}

func reusePairs(version string) []pair {
	C, S, T, X := authcells.C, "@s:a.org", authcells.T, authcells.X
	create := func(creator string) authgen.SE {
		return authgen.SE{ID: authgen.CreateID, Type: "m.room.create", StateKey: "", Sender: creator, Content: `{"creator":"` + creator + `","room_version":"` + version + `"}`}
	}
	mem := func(u, m string) authgen.SE {
		return authgen.SE{ID: "$m" + strings.NewReplacer("@", "", ":", "_", ".", "_").Replace(u) + m + strings.Repeat("m", 26), Type: "m.room.member", StateKey: u, Sender: u, Content: `{"membership":"` + m + `"}`}
	}
	jr := func(rule string) authgen.SE {
		return authgen.SE{ID: "$jr" + rule + strings.Repeat("j", 30), Type: "m.room.join_rules", StateKey: "", Sender: C, Content: `{"join_rule":"` + rule + `"}`}
	}
	pl := func(id, content string) authgen.SE {
		return authgen.SE{ID: "$pl" + id + strings.Repeat("p", 38), Type: "m.room.power_levels", StateKey: "", Sender: C, Content: content}
	}
	plA := pl("A", `{"users":{"`+S+`":50,"`+X+`":50},"invite":50}`)
	plB := pl("B", `{"users":{"`+X+`":50},"invite":50}`) // S demoted by removing the entry
	plC := pl("C", `{"events_default":50,"users":{"`+X+`":0},"invite":50}`)
	plBad := pl("X", `{"users":{"`+S+`":"not a number"},"ban":"x"}`)
	join := func(u, extra string) authgen.Ev {
		return authgen.Ev{Type: "m.room.member", StateKey: evgen.S(u), Sender: u, Content: `{"membership":"join"` + extra + `}`, Prev: []string{"$p" + strings.Repeat("x", 42)}}
	}
	via := `,"join_authorised_via_users_server":"` + X + `"`
	kick := authgen.Ev{Type: "m.room.member", StateKey: evgen.S(T), Sender: S, Content: `{"membership":"leave"}`, Prev: []string{"$p" + strings.Repeat("x", 42)}}
	msg := authgen.Ev{Type: "m.room.message", Sender: S, Content: `{"body":"x"}`, Prev: []string{"$p" + strings.Repeat("x", 42)}}
	mk := func(name string, ev authgen.Ev, st ...authgen.SE) pair {
		return pair{name, authgen.Scenario{Version: version, State: st, Event: ev}}
	}
	ps := []pair{
		mk("restricted-join-authorised", join(S, via), create(C), plA, jr("restricted"), mem(X, "join")),
		mk("restricted-join-unauthorised", join(T, ""), create(C), plA, jr("restricted")),
		mk("restricted-join-invited", join(T, ""), create(C), plA, jr("restricted"), mem(T, "invite")),
		mk("restricted-join-authoriser-too-low", join(S, via), create(C), plC, jr("restricted"), mem(X, "join")),
		mk("knock-restricted-knock", authgen.Ev{Type: "m.room.member", StateKey: evgen.S(T), Sender: T, Content: `{"membership":"knock"}`, Prev: []string{"$p" + strings.Repeat("x", 42)}}, create(C), plA, jr("knock_restricted")),
		mk("public-join", join(T, ""), create(C), plA, jr("public")),
		mk("invite-rule-join", join(T, ""), create(C), plA, jr("invite")),
		mk("no-join-rules-join", join(T, ""), create(C), plA),
		mk("kick-by-moderator", kick, create(C), plA, mem(S, "join"), mem(T, "join")),
		mk("kick-after-demotion", kick, create(C), plB, mem(S, "join"), mem(T, "join")),
		mk("message-default-level", msg, create(C), plA, mem(S, "join")),
		mk("message-events-default-50", msg, create(C), plC, mem(S, "join")),
		mk("message-no-power-levels", msg, create(C), mem(S, "join")),
		mk("kick-by-creator-no-pl", authgen.Ev{Type: "m.room.member", StateKey: evgen.S(T), Sender: C, Content: `{"membership":"leave"}`, Prev: []string{"$p" + strings.Repeat("x", 42)}}, create(C), mem(C, "join"), mem(T, "join")),
		mk("kick-by-moderator-unparsable-pl", kick, create(C), plBad, mem(S, "join"), mem(T, "join")),
		mk("message-no-create", msg, plA, mem(S, "join")),
		mk("power-levels-by-moderator", authgen.Ev{Type: "m.room.power_levels", StateKey: evgen.S(""), Sender: S, Content: `{"users":{"` + S + `":50,"` + X + `":50},"invite":49}`, Prev: []string{"$p" + strings.Repeat("x", 42)}}, create(C), plA, mem(S, "join")),
		// a current power-levels event WITH an events map; a candidate that names a type the current levels lack (compared
		// key by key with the current map), then a state event of that type by a user between events_default and state_default
		mk("power-levels-naming-topic", authgen.Ev{Type: "m.room.power_levels", StateKey: evgen.S(""), Sender: S, Content: `{"users":{"` + S + `":50,"` + X + `":50,"` + T + `":25},"events":{"m.room.name":50,"m.room.topic":10},"invite":50}`, Prev: []string{"$p" + strings.Repeat("x", 42)}}, create(C), pl("E", `{"users":{"`+S+`":50,"`+X+`":50,"`+T+`":25},"events":{"m.room.name":50},"invite":50}`), mem(S, "join")),
		mk("topic-by-level-25-user", authgen.Ev{Type: "m.room.topic", StateKey: evgen.S(""), Sender: T, Content: `{"topic":"t"}`, Prev: []string{"$p" + strings.Repeat("x", 42)}}, create(C), pl("E", `{"users":{"`+S+`":50,"`+X+`":50,"`+T+`":25},"events":{"m.room.name":50},"invite":50}`), mem(T, "join")),
		mk("invite-by-moderator", authgen.Ev{Type: "m.room.member", StateKey: evgen.S(T), Sender: S, Content: `{"membership":"invite"}`, Prev: []string{"$p" + strings.Repeat("x", 42)}}, create(C), plA, mem(S, "join")),
	}
	if !refversions.Get(version).DomainlessRoomIDs {
		// the same kick under a second room whose creator is S (no power levels): S holds the room
		c2 := create(S)
		ps = append(ps, mk("kick-by-other-creator", kick, c2, mem(S, "join"), mem(T, "join")))
		// the first power-levels event of each room, sent by its creator while no power-levels event exists yet: the
		// defaults it is judged against name the creator of THAT room
		firstPL := func(by string) authgen.Ev {
			return authgen.Ev{Type: "m.room.power_levels", StateKey: evgen.S(""), Sender: by, Content: `{"users":{"` + by + `":100},"notifications":{"room":50}}`, Prev: []string{"$p" + strings.Repeat("x", 42)}}
		}
		ps = append(ps, mk("first-power-levels-by-other-creator", firstPL(S), c2, mem(S, "join")))
		ps = append(ps, mk("first-power-levels-by-creator", firstPL(C), create(C), mem(C, "join")))
	}
	return ps
}

type built struct {
	name  string
	ev    gmsl.PDU
	state []gmsl.PDU
	fresh string
}

type reuseCase struct {
	Version      string
	Seq          []string
	SameProvider bool
}

func buildPairs(version string) (map[string]*built, []string, error) {
	out := map[string]*built{}
	var names []string
	// one PDU object per distinct state event, shared by every pair that uses it (state resolution, too, meets the same event
	// object again and again): whatever a checker remembers by object identity then really comes back
	sharedPDU := map[string]gmsl.PDU{}
	for _, p := range reusePairs(version) {
		st, err := p.Sc.StatePDUs()
		if err != nil {
			return nil, nil, fmt.Errorf("%s: %v", p.Name, err)
		}
		for i, e := range st {
			k := e.EventID() + "|" + string(e.JSON())
			if prev, ok := sharedPDU[k]; ok {
				st[i] = prev
			} else {
				sharedPDU[k] = e
			}
		}
		ev, err := p.Sc.EventPDU()
		if err != nil {
			return nil, nil, fmt.Errorf("%s: %v", p.Name, err)
		}
		prov, _ := gmsl.NewAuthEvents(st)
		v, perr := safeAllowed(ev, prov)
		if perr != nil {
			v = "panic"
		}
		out[p.Name] = &built{p.Name, ev, st, v}
		names = append(names, p.Name)
	}
	return out, names, nil
}

func runReuse(r *harness.Run, c reuseCase, pairs map[string]*built) error {
	r.Eval()
	shared, _ := gmsl.NewAuthEvents(nil)
	var al *gmsl.VerifAllower
	for i, name := range c.Seq {
		b := pairs[name]
		if b == nil {
			return fmt.Errorf("unknown pair %s", name)
		}
		var prov *gmsl.AuthEvents
		if c.SameProvider {
			shared.Clear()
			for _, e := range b.state {
				_ = shared.AddEvent(e)
			}
			prov = shared
		} else {
			prov, _ = gmsl.NewAuthEvents(b.state)
		}
		var err error
		if pn, msg := harness.Try(func() {
			if al == nil {
				rid, _ := spec.NewRoomID(authgen.RoomOf(c.Version))
				al = gmsl.VerifNewAllower(prov, authgen.UID, *rid)
			} else {
				al.Update(prov)
			}
			err = al.Allowed(b.ev)
		}); pn {
			if b.fresh == "panic" {
				continue
			}
			return fmt.Errorf("step %d (%s): reused checker panics: %s", i, name, msg)
		}
		r.Transition(1)
		if got := verdictStr(err); got != b.fresh {
			return fmt.Errorf("after %v through one checker (same provider object: %v), %q is %s; checked on its own it is %s", c.Seq[:i], c.SameProvider, name, got, b.fresh)
		}
	}
	return nil
}

func main() { harness.Main("C09", "model_checking", run) }

func run(r *harness.Run) {
	r.Rule("(1)+(3) every decisive-class cell of the auth rule space (member-self/-other, third-party invite, other events, power levels; a stride-sampled enumeration in the quick tier is NOT used: all cells of 4 representative room versions, all 16 in the thorough tier) x every insertion order of its auth events (all k! for k<=4, else rotations+swaps), every un-needed event removed, only-needed state, unrelated state added singly and together, repetition, and the auth events chosen by AddAuthEvents from the full state; (2) explicit-state search: all sequences of length <= D over 18-21 (event, auth state) pairs fed to ONE allower context with update() between events as state resolution does - with one reused provider object and with fresh provider objects - the verdict of every step vs a fresh Allowed on the same pair. Non-trivial = distinct reuse sequence / distinct cell with >= 3 auth events.")
	r.Assume("in-package access to newAllowerContext/update/allowed through a build-tagged bridge file added by overlay")
	pairsByVer := map[string]map[string]*built{}
	namesByVer := map[string][]string{}
	for _, v := range []string{"8", "10", "12", "org.matrix.msc3787"} {
		p, n, err := buildPairs(v)
		if err != nil {
			panic(err)
		}
		pairsByVer[v], namesByVer[v] = p, n
	}
	r.OnReplay("reuse", func(raw json.RawMessage) error {
		var c reuseCase
		if err := json.Unmarshal(raw, &c); err != nil {
			return err
		}
		return runReuse(r, c, pairsByVer[c.Version])
	})
	r.OnReplay("presentation", func(raw json.RawMessage) error {
		var c presCase
		if err := json.Unmarshal(raw, &c); err != nil {
			return err
		}
		return checkPresentation(r, c.Sc)
	})
	if r.Replaying() {
		return
	}
	// (2) reuse
	D := r.Pick(3, 4)
	for v, names := range namesByVer {
		var seqs [][]string
		var gen func(cur []string)
		gen = func(cur []string) {
			if len(cur) > 0 {
				seqs = append(seqs, append([]string(nil), cur...))
			}
			if len(cur) == D {
				return
			}
			for _, n := range names {
				gen(append(cur, n))
			}
		}
		gen(nil)
		v := v
		r.Parallel(len(seqs), func(i int) {
			for _, same := range []bool{true, false} {
				c := reuseCase{v, seqs[i], same}
				if err := runReuse(r, c, pairsByVer[v]); err != nil {
					// class = the last two steps (the shortest explanation)
					victim := "?"
					if j := strings.Index(err.Error(), `"`); j >= 0 {
						if k := strings.Index(err.Error()[j+1:], `"`); k >= 0 {
							victim = err.Error()[j+1 : j+1+k]
						}
					}
					r.Violation(fmt.Sprintf("reuse/%s:%s:%v:%v", victim, v, same, seqs[i]), err.Error(), "reuse", c)
				} else if len(seqs[i]) > 1 {
					r.Nontrivial(fmt.Sprintf("%s|%v|%v", v, seqs[i], same))
				}
			}
		})
		r.Count("reuse_sequences", int64(len(seqs)*2))
	}
	// (4) events redacted in place between two calls of the public Allowed (a caller that learns of a redaction applies it to
	// the event object it holds): the second verdict must be the verdict for freshly parsed copies of the redacted events -
	// whatever Allowed keeps between calls (pools, memoised content) must not outlive a change of the objects it was given
	for _, v := range []string{"8", "10", "12", "org.matrix.msc3787"} {
		ver := gmsl.MustGetRoomVersion(gmsl.RoomVersion(v))
		for _, p := range reusePairs(v) {
			st, err := p.Sc.StatePDUs()
			if err != nil {
				continue
			}
			ev, err := p.Sc.EventPDU()
			if err != nil {
				continue
			}
			prov, _ := gmsl.NewAuthEvents(st)
			if _, perr := safeAllowed(ev, prov); perr != nil {
				continue
			}
			var freshSt []gmsl.PDU
			ok := true
			for _, e := range st {
				if pn, _ := harness.Try(func() { e.Redact() }); pn {
					ok = false
					break
				}
				f, ferr := ver.NewEventFromTrustedJSONWithEventID(e.EventID(), e.JSON(), true)
				if ferr != nil {
					ok = false
					break
				}
				freshSt = append(freshSt, f)
			}
			if !ok {
				continue
			}
			r.Eval()
			prov2, _ := gmsl.NewAuthEvents(st)
			got, perr := safeAllowed(ev, prov2)
			provF, _ := gmsl.NewAuthEvents(freshSt)
			want, ferr := safeAllowed(ev, provF)
			if perr != nil || ferr != nil {
				continue
			}
			if got != want {
				r.Violation(fmt.Sprintf("redacted-in-place:%s:%s", v, p.Name), fmt.Sprintf("room version %s, %q: after its auth events were redacted in place the event is %s; with freshly parsed copies of the same redacted events it is %s", v, p.Name, got, want), "none", nil)
			}
			r.Nontrivial("rip|" + v + "|" + p.Name + "|" + got)
		}
	}
	fresh := map[string]string{}
	for n, b := range pairsByVer["10"] {
		fresh[n] = b.fresh
	}
	r.Extra("reuse_alphabet_fresh_verdicts_v10", fresh)
	r.Sample("reuse", reuseCase{"10", []string{"restricted-join-unauthorised", "restricted-join-authorised"}, true})
	// (1)+(3) presentation / sufficiency
	vers := []string{"1", "9", "10", "12"}
	if r.Thorough() {
		vers = refversions.All()
	}
	type job struct {
		v   string
		gen func(string) []authcells.Cell
	}
	var jobs []job
	for _, v := range vers {
		jobs = append(jobs, job{v, authcells.GenMember}, job{v, authcells.GenThirdParty}, job{v, authcells.GenOther}, job{v, authcells.GenPowerLevels}, job{v, authcells.GenCreate}, job{v, authcells.GenCaseVariants})
	}
	r.Parallel(len(jobs), func(i int) {
		cells := jobs[i].gen(jobs[i].v)
		for _, c := range cells {
			if r.Expired() {
				r.Cap("presentation: wall-clock budget")
				return
			}
			if err := checkPresentation(r, c.Sc); err != nil {
				what := "verdict-changes"
				if strings.Contains(err.Error(), "AddAuthEvents") {
					what = "addauthevents-insufficient"
				} else if strings.Contains(err.Error(), "panics") {
					what = "panic"
				} else if strings.Contains(err.Error(), "only the state named") || strings.Contains(err.Error(), "un-needed") {
					what = "depends-on-unneeded-state"
				}
				r.Violation(fmt.Sprintf("presentation:%s/%s:%s:%s", c.Class, what, jobs[i].v, c.Key()), err.Error(), "presentation", presCase{c.Sc})
			} else if len(c.Sc.State) >= 3 {
				r.Nontrivial(jobs[i].v + c.Key())
			}
		}
		r.Count("presentation_cells", int64(len(cells)))
	})
	r.Sample("presentation", authcells.GenMember("10")[4321].Labels)
	r.Extra("bounds", map[string]int{"reuse_depth": D})
}
