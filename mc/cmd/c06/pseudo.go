package main

// The pseudo-ID room version (org.matrix.msc4014): the sender is a per-room ed25519 key that signs the event itself; an
// invite must also be signed by the invited user's room key; a join carries content.mxid_mapping {user_room_key, user_id,
// signatures}, which ties the room key to a user and has to be signed by THAT USER'S SERVER (the "sender's server" of the
// property) with a key valid at the event's origin_server_ts. Signatures of other servers on the mapping never matter.

import (
	"context"
	"encoding/json"
	"fmt"
	"sort"
	"strings"
	"time"

	gmsl "github.com/matrix-org/gomatrixserverlib"
	"github.com/matrix-org/gomatrixserverlib/spec"

	"verif/mc/evgen"
	"verif/mc/harness"
	"verif/mc/ref/refjson"
)

const pseudoVersion = "org.matrix.msc4014"

type pseudoCase struct {
	Shape   string // message | join | invite | leave
	Sender  string // state of the sender key's signature on the event: valid | absent | corrupted | other-key
	Target  string // invite: state of the invited room key's signature
	Mapping string // join: see mappingStates
	Extra   string // an unrelated server's signature on the event: none | valid | corrupted
}

var mappingStates = []string{"valid", "no-mapping", "unsigned", "other-server-only", "corrupted", "other-key", "key-absent", "expired-at-ts", "valid-until-before-ts",
	"valid+other-server-corrupted", "valid+other-server-unknown"}

func pseudoKey(seed byte) (evgen.Key, string) {
	k := evgen.NewKey("x", "ed25519:1", seed)
	id := string(spec.SenderIDFromPseudoIDKey(k.Priv))
	k.Server = id
	return k, id
}

func signObject(text string, signer evgen.Key, corrupt bool) []byte {
	obj := evgen.MustParse([]byte(text))
	sig := evgen.ObjectSignature(obj, signer)
	if corrupt {
		sig = append([]byte(nil), sig...)
		sig[9] ^= 8
	}
	return sig
}

func runPseudo(r *harness.Run, c pseudoCase) error {
	r.Eval()
	ver := gmsl.MustGetRoomVersion(pseudoVersion)
	senderKey, senderID := pseudoKey(201)
	targetKey, targetID := pseudoKey(202)
	otherKey, _ := pseudoKey(203)
	const user = "@u:s1.org"
	e := evgen.Ev{Type: "m.room.member", Sender: senderID, RoomID: "!r:s1.org", Prev: []string{}, Auth: []string{}, Depth: 5, TS: T}
	d := &db{keys: map[gmsl.PublicKeyLookupRequest]gmsl.PublicKeyLookupResult{}}
	put := func(s string, k evgen.Key, vu, exp int64) {
		d.keys[gmsl.PublicKeyLookupRequest{ServerName: spec.ServerName(s), KeyID: gmsl.KeyID(k.KeyID)}] = gmsl.PublicKeyLookupResult{VerifyKey: gmsl.VerifyKey{Key: spec.Base64Bytes(k.Pub)}, ValidUntilTS: spec.Timestamp(vu), ExpiredTS: spec.Timestamp(exp)}
	}
	put("s2.org", good["s2.org"], T+30*day, 0)
	wantMapping := true
	switch c.Shape {
	case "message":
		e.Type, e.Content = "m.room.message", `{"body":"x"}`
	case "leave":
		e.StateKey, e.Content = evgen.S(senderID), `{"membership":"leave"}`
	case "invite":
		e.StateKey, e.Content = evgen.S(targetID), `{"membership":"invite"}`
	case "join":
		e.StateKey = evgen.S(senderID)
		mapping := fmt.Sprintf(`{"user_room_key":%q,"user_id":%q}`, senderID, user)
		sigs := map[string]map[string][]byte{}
		k := good["s1.org"]
		vu, exp := T+30*day, int64(0)
		switch c.Mapping {
		case "valid":
			sigs["s1.org"] = map[string][]byte{k.KeyID: signObject(mapping, k, false)}
		case "no-mapping", "unsigned":
			wantMapping = false
		case "other-server-only":
			sigs["s2.org"] = map[string][]byte{"ed25519:1": signObject(mapping, good["s2.org"], false)}
			wantMapping = false
		case "corrupted":
			sigs["s1.org"] = map[string][]byte{k.KeyID: signObject(mapping, k, true)}
			wantMapping = false
		case "other-key":
			sigs["s1.org"] = map[string][]byte{k.KeyID: signObject(mapping, evil["s1.org"], false)}
			wantMapping = false
		case "key-absent":
			sigs["s1.org"] = map[string][]byte{k.KeyID: signObject(mapping, k, false)}
			vu = -1
			wantMapping = false
		case "expired-at-ts":
			sigs["s1.org"] = map[string][]byte{k.KeyID: signObject(mapping, k, false)}
			vu, exp = 0, T
			wantMapping = false
		case "valid-until-before-ts":
			sigs["s1.org"] = map[string][]byte{k.KeyID: signObject(mapping, k, false)}
			vu = T - 1
			wantMapping = false
		case "valid+other-server-corrupted": // signatures of servers other than the user's never matter
			sigs["s1.org"] = map[string][]byte{k.KeyID: signObject(mapping, k, false)}
			sigs["s2.org"] = map[string][]byte{"ed25519:1": signObject(mapping, good["s2.org"], true)}
		case "valid+other-server-unknown":
			sigs["s1.org"] = map[string][]byte{k.KeyID: signObject(mapping, k, false)}
			sigs["s5.org"] = map[string][]byte{"ed25519:1": signObject(mapping, good["s2.org"], false)}
		}
		if vu >= 0 {
			put("s1.org", k, vu, exp)
		}
		switch c.Mapping {
		case "no-mapping":
			e.Content = `{"membership":"join"}`
		case "unsigned":
			e.Content = `{"membership":"join","mxid_mapping":` + mapping + `}`
		default:
			signed := evgen.WithSignatures([]byte(mapping), sigs)
			e.Content = `{"membership":"join","mxid_mapping":` + string(signed) + `}`
		}
	}
	text := e.JSON(pseudoVersion)
	v := evgen.MustParse(text)
	sigs := map[string]map[string][]byte{}
	add := func(id string, k evgen.Key, state string, wrong evgen.Key) bool {
		switch state {
		case "valid":
			sigs[id] = map[string][]byte{"ed25519:1": evgen.EventSignature(pseudoVersion, v, k)}
			return true
		case "corrupted":
			s := append([]byte(nil), evgen.EventSignature(pseudoVersion, v, k)...)
			s[11] ^= 2
			sigs[id] = map[string][]byte{"ed25519:1": s}
		case "other-key":
			sigs[id] = map[string][]byte{"ed25519:1": evgen.EventSignature(pseudoVersion, v, wrong)}
		}
		return false
	}
	want := add(senderID, senderKey, c.Sender, otherKey)
	if c.Shape == "invite" {
		want = add(targetID, targetKey, c.Target, otherKey) && want
	}
	if c.Shape == "join" {
		want = want && wantMapping
	}
	switch c.Extra {
	case "valid":
		sigs["s2.org"] = map[string][]byte{"ed25519:1": evgen.EventSignature(pseudoVersion, v, good["s2.org"])}
	case "corrupted":
		s := append([]byte(nil), evgen.EventSignature(pseudoVersion, v, good["s2.org"])...)
		s[3] ^= 1
		sigs["s2.org"] = map[string][]byte{"ed25519:1": s}
	}
	signed := evgen.WithSignatures(text, sigs)
	pdu, err := ver.NewEventFromTrustedJSON(signed, false)
	if err != nil {
		return fmt.Errorf("harness: trusted parse: %v", err)
	}
	vnow = time.UnixMilli(T + 3_600_000)
	ring := &gmsl.KeyRing{KeyDatabase: d}
	var got error
	if p, msg := harness.Try(func() { got = gmsl.VerifyEventSignatures(context.Background(), pdu, ring, uid) }); p {
		return fmt.Errorf("VerifyEventSignatures panics: %s", msg)
	}
	if want {
		r.Outcome("pseudo-accept")
	} else {
		r.Outcome("pseudo-refuse")
	}
	if (got == nil) != want {
		return fmt.Errorf("pseudo-ID room, %+v: VerifyEventSignatures = %v, expected accept=%v", c, got, want)
	}
	r.Nontrivial("pseudo|" + harness.J(c))
	_ = refjson.Canonical
	return nil
}

func runPseudoAll(r *harness.Run) {
	r.OnReplay("pseudo", func(raw json.RawMessage) error {
		var c pseudoCase
		if err := json.Unmarshal(raw, &c); err != nil {
			return err
		}
		return runPseudo(r, c)
	})
}

func pseudoCases() []pseudoCase {
	var out []pseudoCase
	sigStates := []string{"valid", "absent", "corrupted", "other-key"}
	for _, sh := range []string{"message", "join", "invite", "leave"} {
		for _, s := range sigStates {
			for _, x := range []string{"none", "valid", "corrupted"} {
				switch sh {
				case "invite":
					for _, t := range sigStates {
						out = append(out, pseudoCase{sh, s, t, "", x})
					}
				case "join":
					for _, m := range mappingStates {
						out = append(out, pseudoCase{sh, s, "", m, x})
					}
				default:
					out = append(out, pseudoCase{sh, s, "", "", x})
				}
			}
		}
	}
	return out
}

func explorePseudo(r *harness.Run) {
	cases := pseudoCases()
	vnow = time.UnixMilli(T + 3_600_000)
	var accepted int
	for _, c := range cases {
		if err := runPseudo(r, c); err != nil {
			parts := []string{c.Shape, c.Sender, c.Target, c.Mapping, c.Extra}
			sort.Strings(parts[:0])
			r.Violation("pseudo:"+c.Shape+"/"+c.Mapping+":"+strings.Join(parts, ","), err.Error(), "pseudo", c)
		}
		if c.Sender == "valid" {
			accepted++
		}
	}
	r.Count("pseudo_id_cases", int64(len(cases)))
}
