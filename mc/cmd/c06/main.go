// C06 — an event verifies only if every protocol-required server validly signed it.
// Product of event shapes x room versions x per-server signature/key states
// (singles and pairs) x clock positions, through the real VerifyEventSignatures
// and the real KeyRing over a scripted key database, under a virtual clock.
package main

import (
	"context"
	"encoding/json"
	"fmt"
	"sort"
	"strings"
	"time"

	gmsl "github.com/matrix-org/gomatrixserverlib"
	"github.com/matrix-org/gomatrixserverlib/spec"
	"github.com/matrix-org/gomatrixserverlib/verifhook"

	"verif/mc/evgen"
	"verif/mc/harness"
	"verif/mc/ref/refjson"
	"verif/mc/ref/refversions"
)

const T = int64(1_700_000_000_000) // origin_server_ts of every event (ms)
const day = int64(86_400_000)

var servers = []string{"s1.org", "s2.org", "s3.org", "s4.org", "s5.org"}
var good = map[string]evgen.Key{}
var evil = map[string]evgen.Key{}

func init() {
	for i, s := range servers {
		good[s] = evgen.NewKey(s, "ed25519:1", byte(10+i))
		evil[s] = evgen.NewKey(s, "ed25519:1", byte(100+i))
	}
}

// signature / key states of one server
var states = []string{"valid", "absent", "corrupted", "other-key", "key-absent", "expired-at-ts", "expired-after-ts", "valid-until-before-ts", "valid-until-at-ts", "beyond-7d-cap", "within-7d-cap",
	// states with a second acquisition route (a key fetcher behind the database): the key is only at the fetcher; the database
	// holds it past its validity and the fetcher, asked to refresh it, reports it retired before ts / still current
	"key-from-fetcher", "refreshed-retired", "refreshed-current"}

type c06Case struct {
	Version string
	Shape   string
	States  map[string]string // server -> state (default valid); s5 = unrelated server
	vnow    int64
}

type db struct {
	keys  map[gmsl.PublicKeyLookupRequest]gmsl.PublicKeyLookupResult
	calls int
}

func (d *db) FetcherName() string { return "scripted-db" }
func (d *db) FetchKeys(ctx context.Context, reqs map[gmsl.PublicKeyLookupRequest]spec.Timestamp) (map[gmsl.PublicKeyLookupRequest]gmsl.PublicKeyLookupResult, error) {
	d.calls++
	out := map[gmsl.PublicKeyLookupRequest]gmsl.PublicKeyLookupResult{}
	for rq := range reqs {
		if k, ok := d.keys[rq]; ok {
			out[rq] = k
		}
	}
	return out, nil
}
func (d *db) StoreKeys(ctx context.Context, res map[gmsl.PublicKeyLookupRequest]gmsl.PublicKeyLookupResult) error {
	return nil
}

type fetcher struct {
	keys  map[gmsl.PublicKeyLookupRequest]gmsl.PublicKeyLookupResult
	calls int
}

func (f *fetcher) FetcherName() string { return "scripted-fetcher" }
func (f *fetcher) FetchKeys(ctx context.Context, reqs map[gmsl.PublicKeyLookupRequest]spec.Timestamp) (map[gmsl.PublicKeyLookupRequest]gmsl.PublicKeyLookupResult, error) {
	f.calls++
	out := map[gmsl.PublicKeyLookupRequest]gmsl.PublicKeyLookupResult{}
	for rq := range reqs {
		if k, ok := f.keys[rq]; ok {
			out[rq] = k
		}
	}
	return out, nil
}

func uid(_ spec.RoomID, s spec.SenderID) (*spec.UserID, error) {
	return spec.NewUserID(string(s), true)
}

var vnow time.Time

// shapes: name -> (event, required servers given the version row)
func mkEvent(version, shape string) (evgen.Ev, []string) {
	row := refversions.Get(version)
	room := "!r:s1.org"
	if row.DomainlessRoomIDs {
		room = "!" + strings.Repeat("R", 43)
	}
	e := evgen.Ev{Type: "m.room.member", Sender: "@u:s1.org", RoomID: room, Prev: []string{}, Auth: []string{}, Depth: 5, TS: T}
	req := map[string]bool{"s1.org": true}
	member := func(m, target, extra string) {
		e.StateKey = evgen.S(target)
		e.Content = `{"membership":"` + m + `"` + extra + `}`
	}
	switch shape {
	case "message":
		e.Type = "m.room.message"
		e.Content = `{"body":"x"}`
	case "join":
		member("join", "@u:s1.org", "")
	case "knock":
		member("knock", "@u:s1.org", "")
	case "leave":
		member("leave", "@u:s1.org", "")
	case "kick":
		member("leave", "@t:s2.org", "")
	case "ban":
		member("ban", "@t:s2.org", "")
	case "invite":
		member("invite", "@t:s2.org", "")
		req["s2.org"] = true
	case "invite-3pid": // an invite that came out of a third-party invite is signed like any other invite
		member("invite", "@t:s2.org", `,"third_party_invite":{"display_name":"d","signed":{"mxid":"@t:s2.org","token":"tok","signatures":{"id.org":{"ed25519:0":"c2ln"}}}}`)
		req["s2.org"] = true
	case "invite-same-server":
		member("invite", "@t:s1.org", "")
	case "join-authorised":
		member("join", "@u:s1.org", `,"join_authorised_via_users_server":"@x:s3.org"`)
		if row.RestrictedJoins {
			req["s3.org"] = true
		}
	case "invite-authorised-key-ignored": // the key only matters on joins
		member("invite", "@t:s2.org", `,"join_authorised_via_users_server":"@x:s3.org"`)
		req["s2.org"] = true
	case "state-other":
		e.Type = "m.room.topic"
		e.StateKey = evgen.S("")
		e.Content = `{"topic":"t"}`
	case "foreign-id": // v1/v2: the event ID names another server
		e.Type = "m.room.message"
		e.Content = `{"body":"x"}`
		e.EventID = "$ev:s4.org"
		if row.EventIDFormat == 1 {
			req["s4.org"] = true
		}
	}
	if e.EventID == "" {
		e.EventID = "$ev:s1.org"
	}
	var out []string
	for s := range req {
		out = append(out, s)
	}
	sort.Strings(out)
	return e, out
}

var shapes = []string{"message", "join", "knock", "leave", "kick", "ban", "invite", "invite-3pid", "invite-same-server", "join-authorised", "invite-authorised-key-ignored", "state-other", "foreign-id"}

// validAt is the reference key-validity rule: an expired key is valid strictly before expired_ts;
// otherwise the lenient rule always accepts and the strict rule accepts up to min(valid_until, now + 7 days).
func validAt(ts, validUntil, expired, now int64, strict bool) bool {
	if expired != 0 {
		return ts < expired
	}
	if !strict {
		return true
	}
	if validUntil == 0 {
		return false
	}
	limit := validUntil
	if c := now + 7*day; c < limit {
		limit = c
	}
	return ts <= limit
}

// clockFor: where the virtual "now" has to stand for the state to mean what it says
func clockFor(states map[string]string) int64 {
	now := T + 3_600_000 // an hour after the event
	for _, s := range states {
		switch s {
		case "beyond-7d-cap":
			now = T - 7*day - 1 // cap = now+7d = T-1 < ts
		case "within-7d-cap":
			now = T - 7*day // cap = T: ts is not after it
		}
	}
	return now
}

func runCase(r *harness.Run, c c06Case) error {
	r.Eval()
	row := refversions.Get(c.Version)
	ver := gmsl.MustGetRoomVersion(gmsl.RoomVersion(c.Version))
	e, required := mkEvent(c.Version, c.Shape)
	text := e.JSON(c.Version)
	v := evgen.MustParse(text)
	sigs := map[string]map[string][]byte{}
	d := &db{keys: map[gmsl.PublicKeyLookupRequest]gmsl.PublicKeyLookupResult{}}
	f := &fetcher{keys: map[gmsl.PublicKeyLookupRequest]gmsl.PublicKeyLookupResult{}}
	now := clockFor(c.States)
	for _, s := range servers {
		st := c.States[s]
		if st == "" {
			st = "valid"
		}
		k := good[s]
		sig := evgen.EventSignature(c.Version, v, k)
		res := gmsl.PublicKeyLookupResult{VerifyKey: gmsl.VerifyKey{Key: spec.Base64Bytes(k.Pub)}, ValidUntilTS: spec.Timestamp(T + 30*day), ExpiredTS: gmsl.PublicKeyNotExpired}
		switch st {
		case "absent":
			sig = nil
		case "corrupted":
			sig = append([]byte(nil), sig...)
			sig[17] ^= 4
		case "other-key":
			sig = evgen.EventSignature(c.Version, v, evil[s])
		case "key-absent":
			res.Key = nil
		case "expired-at-ts":
			res.ExpiredTS, res.ValidUntilTS = spec.Timestamp(T), gmsl.PublicKeyNotValid
		case "expired-after-ts":
			res.ExpiredTS, res.ValidUntilTS = spec.Timestamp(T+1), gmsl.PublicKeyNotValid
		case "valid-until-before-ts":
			res.ValidUntilTS = spec.Timestamp(T - 1)
		case "valid-until-at-ts":
			res.ValidUntilTS = spec.Timestamp(T)
		case "beyond-7d-cap", "within-7d-cap":
			res.ValidUntilTS = spec.Timestamp(T + 100*day)
		case "key-from-fetcher":
			f.keys[gmsl.PublicKeyLookupRequest{ServerName: spec.ServerName(s), KeyID: gmsl.KeyID(k.KeyID)}] = res
			res.Key = nil
		case "refreshed-retired":
			// the database's record: not expired, valid until half an hour after ts, which is half an hour ago
			res.ValidUntilTS = spec.Timestamp(T + 1_800_000)
			f.keys[gmsl.PublicKeyLookupRequest{ServerName: spec.ServerName(s), KeyID: gmsl.KeyID(k.KeyID)}] = gmsl.PublicKeyLookupResult{VerifyKey: res.VerifyKey, ValidUntilTS: gmsl.PublicKeyNotValid, ExpiredTS: spec.Timestamp(T - 1000)}
		case "refreshed-current":
			f.keys[gmsl.PublicKeyLookupRequest{ServerName: spec.ServerName(s), KeyID: gmsl.KeyID(k.KeyID)}] = res
			res.ValidUntilTS = spec.Timestamp(T - 1)
		}
		if sig != nil {
			sigs[s] = map[string][]byte{k.KeyID: sig}
		}
		if res.Key != nil {
			d.keys[gmsl.PublicKeyLookupRequest{ServerName: spec.ServerName(s), KeyID: gmsl.KeyID(k.KeyID)}] = res
		}
	}
	// the event does not carry a signature of servers that are not in `servers`; s5 is the unrelated one
	signed := evgen.WithSignatures(text, sigs)
	pdu, err := ver.NewEventFromTrustedJSON(signed, false)
	if err != nil {
		return fmt.Errorf("harness: trusted parse: %v", err)
	}
	if vnow != time.UnixMilli(now) {
		vnow = time.UnixMilli(now) // replay path; during exploration the group's clock is already set
	}
	ring := &gmsl.KeyRing{KeyDatabase: d}
	if len(f.keys) > 0 {
		ring.KeyFetchers = []gmsl.KeyFetcher{f}
	}
	// the ring asks its fetchers when the database cannot settle the batch on its own: a required key is missing there, or
	// a check made with the database's records fails. A record that is merely past its validity *now* is otherwise used as
	// it stands (and judged at ts).
	consulted := false
	for _, s := range required {
		switch c.States[s] {
		case "key-from-fetcher", "key-absent":
			consulted = true
		}
	}
	var got error
	if p, msg := harness.Try(func() { got = gmsl.VerifyEventSignatures(context.Background(), pdu, ring, uid) }); p {
		return fmt.Errorf("VerifyEventSignatures panics: %s", msg)
	}
	want := true
	bad := 0
	for _, s := range required {
		st := c.States[s]
		ok := true
		switch st {
		case "absent", "corrupted", "other-key", "key-absent":
			ok = false
		case "key-from-fetcher", "refreshed-current":
			fr := f.keys[gmsl.PublicKeyLookupRequest{ServerName: spec.ServerName(s), KeyID: "ed25519:1"}]
			ok = validAt(T, int64(fr.ValidUntilTS), int64(fr.ExpiredTS), now, row.StrictKeyValidity)
		case "refreshed-retired":
			// once asked, the fetcher's answer (retired before ts) replaces the database's record
			ok = !consulted
		default:
			res := d.keys[gmsl.PublicKeyLookupRequest{ServerName: spec.ServerName(s), KeyID: "ed25519:1"}]
			ok = validAt(T, int64(res.ValidUntilTS), int64(res.ExpiredTS), now, row.StrictKeyValidity)
		}
		if !ok {
			want = false
			bad++
		}
	}
	if want {
		r.Outcome("accept")
	} else {
		r.Outcome("refuse")
	}
	if (got == nil) != want {
		return fmt.Errorf("version %s, %s, required signers %v, states %v (now = ts%+dms): VerifyEventSignatures = %v, expected accept=%v", c.Version, c.Shape, required, c.States, now-T, got, want)
	}
	// all-errors variant agrees
	errs := gmsl.VerifyAllEventSignatures(context.Background(), []gmsl.PDU{pdu}, ring, uid)
	if len(errs) != 1 || (errs[0] == nil) != want {
		return fmt.Errorf("VerifyAllEventSignatures disagrees: %v", errs)
	}
	// the batch entry point with two events that share an event ID but not their signatures (the ID does not cover the
	// signatures): this event and a twin on which every signature is genuine, in both orders. Each gets its own verdict.
	sigFault, anyFetcher := false, false
	twinWant := true
	for _, s := range servers {
		switch st := c.States[s]; {
		case st == "absent" || st == "corrupted" || st == "other-key":
			sigFault = true
		case fetcherState(st):
			anyFetcher = true
		}
	}
	for _, s := range required {
		switch c.States[s] {
		case "key-absent":
			twinWant = false
		default: // the twin's signature is genuine: what remains is the key's validity at ts (the clock may stand anywhere)
			res := d.keys[gmsl.PublicKeyLookupRequest{ServerName: spec.ServerName(s), KeyID: "ed25519:1"}]
			if !validAt(T, int64(res.ValidUntilTS), int64(res.ExpiredTS), now, row.StrictKeyValidity) {
				twinWant = false
			}
		}
	}
	if sigFault && !anyFetcher {
		allSigs := map[string]map[string][]byte{}
		for _, s := range servers {
			allSigs[s] = map[string][]byte{good[s].KeyID: evgen.EventSignature(c.Version, v, good[s])}
		}
		twin, terr := ver.NewEventFromTrustedJSON(evgen.WithSignatures(text, allSigs), false)
		if terr != nil {
			return fmt.Errorf("harness: trusted parse of the twin: %v", terr)
		}
		if twin.EventID() != pdu.EventID() {
			return fmt.Errorf("harness: twin has another event ID")
		}
		for _, order := range [][]gmsl.PDU{{twin, pdu}, {pdu, twin}} {
			wants := []bool{twinWant, want}
			if order[0] == pdu {
				wants = []bool{want, twinWant}
			}
			var be []error
			if p, msg := harness.Try(func() { be = gmsl.VerifyAllEventSignatures(context.Background(), order, ring, uid) }); p {
				return fmt.Errorf("VerifyAllEventSignatures panics: %s", msg)
			}
			if len(be) != 2 {
				return fmt.Errorf("VerifyAllEventSignatures: %d results for 2 events", len(be))
			}
			for i := range be {
				if (be[i] == nil) != wants[i] {
					return fmt.Errorf("version %s, %s, states %v: batch of the event and a genuinely signed twin with the same event ID (this event at index %d): result %d is %v, expected accept=%v", c.Version, c.Shape, c.States, map[bool]int{true: 0, false: 1}[order[0] == pdu], i, be[i], wants[i])
				}
			}
			// the same batch under a context that is already cancelled: whatever the call does then, an event whose signatures
			// do not check out must not come back as verified (a nil entry), and there is one entry per event
			cctx, cancel := context.WithCancel(context.Background())
			cancel()
			var ce []error
			if p, msg := harness.Try(func() { ce = gmsl.VerifyAllEventSignatures(cctx, order, ring, uid) }); p {
				return fmt.Errorf("VerifyAllEventSignatures panics under a cancelled context: %s", msg)
			}
			if len(ce) != 2 {
				return fmt.Errorf("VerifyAllEventSignatures under a cancelled context: %d results for 2 events", len(ce))
			}
			for i := range ce {
				if ce[i] == nil && !wants[i] {
					return fmt.Errorf("version %s, %s, states %v: under a cancelled context the batch reports event %d as verified although its signatures do not check out", c.Version, c.Shape, c.States, i)
				}
			}
		}
		r.Count("twin_batches", 2)
	}
	if bad <= 1 {
		r.Nontrivial(fmt.Sprintf("%s|%s|%v|%v", c.Version, c.Shape, c.States, want))
	}
	return nil
}

func capState(st string) bool { return st == "beyond-7d-cap" || st == "within-7d-cap" }
func fetcherState(st string) bool {
	return st == "key-from-fetcher" || st == "refreshed-retired" || st == "refreshed-current"
}

func main() { harness.Main("C06", "fault_enumeration", run) }

func run(r *harness.Run) {
	verifhook.Clock = func() time.Time { return vnow }
	r.Rule("13 event shapes (message; member join/knock/leave/kick/ban/invite to another and to the same server; invite carrying third_party_invite; join and invite carrying join_authorised_via_users_server; other state; v1/v2 event ID naming another server) x 15 room versions x per-server state in {valid, absent, corrupted, made by another key under the same key ID, key unknown, expired at / after ts, valid_until before / at ts, valid_until beyond / within the 7-day cap; with a key fetcher behind the database: key only at the fetcher, database record past its validity refreshed as retired-before-ts / as current}: every single server (5, incl. an unrelated one) in every state, and every pair of servers in every pair of states; real KeyRing over a scripted database, virtual clock placed so that the cap boundary is exact. Oracle: accept <=> every server in the reference required set has a valid-at-ts signature under the version's rule; the batch entry point additionally with the event and a genuinely signed twin of the same event ID, in both orders (each its own verdict). Pseudo-ID version (own sub-harness): message / leave / invite / join x sender-key signature state x invited-key signature state x 11 mxid_mapping states (valid, missing, unsigned, signed only by another server, corrupted, wrong key, key unknown / expired / past validity, valid plus a bad or unknown other-server signature) x an unrelated server signature on the event; accept <=> the sender key (and for invites the invited key) signed the event and, for joins, the mapping carries a valid-at-ts signature of the mapped user's server. Non-trivial = distinct case with at most one failing required signer.")
	r.Assume("ed25519 trusted; reference signatures are made over the reference redaction (agreement with the library's redaction is C05)", "for org.matrix.msc4014 (pseudo IDs) the \"sender's server\" of a join is the server of the user the mxid_mapping names")
	r.OnReplay("case", func(raw json.RawMessage) error {
		var c c06Case
		if err := json.Unmarshal(raw, &c); err != nil {
			return err
		}
		return runCase(r, c)
	})
	runPseudoAll(r)
	if r.Replaying() {
		return
	}
	one := func(c c06Case) {
		if err := runCase(r, c); err != nil {
			var ks []string
			for s, st := range c.States {
				ks = append(ks, s+"="+st)
			}
			sort.Strings(ks)
			r.Violation(fmt.Sprintf("case:%s:%s:%s", c.Version, c.Shape, strings.Join(ks, ",")), err.Error(), "case", c)
		}
	}
	var cases []c06Case
	for _, v := range refversions.All() {
		if v == "org.matrix.msc4014" {
			continue
		}
		for _, sh := range shapes {
			cases = append(cases, c06Case{Version: v, Shape: sh, States: map[string]string{}})
			for i, s := range servers {
				for _, st := range states[1:] {
					cases = append(cases, c06Case{Version: v, Shape: sh, States: map[string]string{s: st}})
					for _, s2 := range servers[i+1:] {
						for _, st2 := range states[1:] {
							if (st == "beyond-7d-cap" && st2 == "within-7d-cap") || (st == "within-7d-cap" && st2 == "beyond-7d-cap") {
								continue // contradictory clock positions
							}
							if capState(st) && fetcherState(st2) || capState(st2) && fetcherState(st) {
								continue // the fetcher-route states are defined for a clock one hour after the event
							}
							cases = append(cases, c06Case{Version: v, Shape: sh, States: map[string]string{s: st, s2: st2}})
						}
					}
				}
			}
		}
	}
	// the virtual clock is process-global: cases are grouped by clock position and each group runs in parallel
	groups := map[int64][]c06Case{}
	for _, c := range cases {
		groups[clockFor(c.States)] = append(groups[clockFor(c.States)], c)
	}
	for now, g := range groups {
		vnow = time.UnixMilli(now)
		g := g
		r.Parallel(len(g), func(i int) { one(g[i]) })
	}
	r.Count("clock_positions", int64(len(groups)))
	explorePseudo(r)
	for _, c := range cases[:0] {
		if err := runCase(r, c); err != nil {
			var ks []string
			for s, st := range c.States {
				ks = append(ks, s+"="+st)
			}
			sort.Strings(ks)
			r.Violation(fmt.Sprintf("case:%s:%s:%s", c.Version, c.Shape, strings.Join(ks, ",")), err.Error(), "case", c)
		}
	}
	r.Count("cases", int64(len(cases)))
	r.Sample("case", c06Case{Version: "2", Shape: "foreign-id", States: map[string]string{"s1.org": "absent"}})
	r.Sample("case", c06Case{Version: "9", Shape: "join-authorised", States: map[string]string{"s3.org": "valid-until-before-ts"}})
	_ = refjson.Null
}
