// C05 — redaction follows the room version's algorithm, is idempotent, keeps signatures.
package main

import (
	"encoding/json"
	"fmt"
	"sort"
	"strings"

	gmsl "github.com/matrix-org/gomatrixserverlib"

	"verif/mc/evgen"
	"verif/mc/harness"
	"verif/mc/poison"
	"verif/mc/ref/refevent"
	"verif/mc/ref/refjson"
	"verif/mc/ref/refredact"
	"verif/mc/ref/refversions"
)

type redCase struct {
	Version string
	Type    string
	Content map[string]string // key -> raw JSON value
	Extra   map[string]string // extra top-level keys -> raw JSON
	NoSK    bool
	Zero    bool // depth 0 and origin_server_ts 0: kept top-level keys whose value is a "zero value"
	// Prev is the case the same worker checked immediately before: replays run it first, so that a violation that needs
	// state left behind by the previous redaction (a reused scratch buffer) reproduces
	Prev *redCase `json:",omitempty"`
	// Subst replaces the value of top-level keys (raw JSON text) after the event was laid out: null and other kinds of
	// value under keys the redaction algorithm keeps
	Subst map[string]string `json:",omitempty"`
}

func (c redCase) key() string {
	return fmt.Sprintf("%s|%s|%s|%s|%v|%v", c.Version, c.Type, harness.J(c.Content), harness.J(c.Extra)+harness.J(c.Subst), c.NoSK, c.Zero)
}

var k3 = evgen.NewKey("c.org", "ed25519:3", 3)
var k1 = evgen.NewKey("a.org", "ed25519:1", 1)
var k2 = evgen.NewKey("b.org", "ed25519:x_y", 2)

func (c redCase) event() []byte {
	keys := make([]string, 0, len(c.Content))
	for k := range c.Content {
		keys = append(keys, k)
	}
	sort.Strings(keys)
	var parts []string
	for _, k := range keys {
		parts = append(parts, string(refjson.AppendString(nil, k))+":"+c.Content[k])
	}
	row := refversions.Get(c.Version)
	room := "!r:a.org"
	if row.DomainlessRoomIDs {
		room = "!" + strings.Repeat("A", 43)
	}
	e := evgen.Ev{Type: c.Type, Sender: "@u:a.org", RoomID: room, StateKey: evgen.S("@t:b.org"), Content: "{" + strings.Join(parts, ",") + "}",
		Prev: []string{"$p:a.org"}, Auth: []string{"$q:a.org"}, Depth: 9007199254740991, TS: 1234567890123, Extra: c.Extra}
	if c.NoSK {
		e.StateKey = nil
	}
	if c.Zero {
		e.Depth, e.TS = 0, 0
	}
	if row.EventFormat != 1 {
		e.Prev = []string{"$" + strings.Repeat("p", 43)}
		e.Auth = []string{"$" + strings.Repeat("q", 43)}
	}
	js := e.JSON(c.Version)
	if len(c.Subst) > 0 {
		v := evgen.MustParse(js)
		for k, raw := range c.Subst {
			nv := &refjson.Value{Kind: refjson.Object}
			done := false
			for _, m := range v.Members {
				if m.Key == k {
					m.Val = evgen.MustParse([]byte(raw))
					done = true
				}
				nv.Members = append(nv.Members, m)
			}
			if !done {
				nv.Members = append(nv.Members, refjson.Member{Key: k, Val: evgen.MustParse([]byte(raw))})
			}
			v = nv
		}
		js = refjson.Emit(nil, v, true)
	}
	return evgen.SignEvent(c.Version, js, k1, k2)
}

func sameKeys(v *refjson.Value, want []string) string {
	have := map[string]bool{}
	for _, m := range v.Members {
		have[m.Key] = true
	}
	for _, m := range v.Members {
		found := false
		for _, w := range want {
			if w == m.Key {
				found = true
			}
		}
		if !found {
			return "unexpected key " + m.Key
		}
	}
	return ""
}

// parseUntrustedIf keeps the co-sign chain to the cases where it adds something (it does not depend on the content subset).
func parseUntrustedIf(cond bool, ver gmsl.IRoomVersion, in []byte) (gmsl.PDU, error) {
	if !cond {
		return nil, nil
	}
	return ver.NewEventFromUntrustedJSON(in)
}

func check(r *harness.Run, c redCase) error {
	poison.Redaction(c.Version) // refused redactions first: nothing they leave behind may show up in the result below
	r.Eval()
	ver := gmsl.MustGetRoomVersion(gmsl.RoomVersion(c.Version))
	row := refversions.Get(c.Version)
	in := c.event()
	inV := evgen.MustParse(in)
	want := refredact.Redact(c.Version, inV)
	var out []byte
	var err error
	if p, msg := harness.Try(func() { out, err = ver.RedactEventJSON(in) }); p {
		return fmt.Errorf("RedactEventJSON panics: %s", msg)
	}
	if err != nil {
		return fmt.Errorf("RedactEventJSON error: %v", err)
	}
	outV, _, perr := refjson.Parse(out)
	if perr != nil {
		return fmt.Errorf("RedactEventJSON output is not valid JSON: %v", perr)
	}
	if !refjson.Equal(outV, want) {
		return fmt.Errorf("redaction (algorithm generation %d) of %s gives %s, specification gives %s", row.Redaction, in, refjson.Canonical(outV), refjson.Canonical(want))
	}
	// directly: only keep-listed keys, kept values unchanged (independent of Equal above)
	if s := sameKeys(outV, refredact.TopKeys(row.Redaction)); s != "" {
		return fmt.Errorf("redacted event has %s", s)
	}
	for _, k := range []string{"type", "sender", "room_id", "state_key", "event_id"} {
		a, b := evgen.Get(inV, k), evgen.Get(outV, k)
		if (a == nil) != (b == nil) || (a != nil && !refjson.Equal(a, b)) {
			return fmt.Errorf("redaction changed %s", k)
		}
	}
	// idempotent
	out2, err := ver.RedactEventJSON(out)
	if err != nil {
		return fmt.Errorf("second redaction fails: %v", err)
	}
	out2V, _, _ := refjson.Parse(out2)
	if out2V == nil || !refjson.Equal(out2V, outV) {
		return fmt.Errorf("redaction not idempotent: %s then %s", out, out2)
	}
	// signatures that verify on the original (as event signatures: over the redacted form) verify on the redacted JSON
	for _, k := range []evgen.Key{k1, k2} {
		if e := gmsl.VerifyJSON(k.Server, gmsl.KeyID(k.KeyID), k.Pub, out); e != nil {
			return fmt.Errorf("signature of %s no longer verifies on the redacted event: %v", k.Server, e)
		}
	}
	// PDU.Redact agrees, keeps ID (hashed-ID versions) and identity fields
	var pdu gmsl.PDU
	if p, msg := harness.Try(func() { pdu, err = ver.NewEventFromTrustedJSON(in, false) }); p || err != nil {
		if !p && len(c.Subst) > 0 {
			// a value of the wrong kind under a typed key: the parser may refuse it; redaction of the JSON was judged above
			r.Count("subst_refused_by_trusted_parser", 1)
			return nil
		}
		return fmt.Errorf("trusted parse fails: %v %s", err, msg)
	}
	idBefore := pdu.EventID()
	if row.EventIDFormat != 1 {
		if refID := refevent.EventID(c.Version, inV); refID != idBefore {
			return fmt.Errorf("event ID %s differs from the reference hash ID %s", idBefore, refID)
		}
	}
	typ, sender, sk := pdu.Type(), pdu.SenderID(), pdu.StateKey()
	if p, msg := harness.Try(func() { pdu.Redact() }); p {
		return fmt.Errorf("PDU.Redact panics: %s", msg)
	}
	rv, _, perr := refjson.Parse(pdu.JSON())
	if perr != nil || !refjson.Equal(rv, want) {
		return fmt.Errorf("PDU.Redact gives %s, specification gives %s", pdu.JSON(), refjson.Canonical(want))
	}
	if !pdu.Redacted() {
		return fmt.Errorf("PDU.Redact did not mark the event redacted")
	}
	if pdu.EventID() != idBefore {
		return fmt.Errorf("PDU.Redact changed the event ID %s -> %s", idBefore, pdu.EventID())
	}
	if pdu.Type() != typ || pdu.SenderID() != sender || (sk == nil) != (pdu.StateKey() == nil) || (sk != nil && *sk != *pdu.StateKey()) {
		return fmt.Errorf("PDU.Redact changed type/sender/state_key")
	}
	cv, _, cerr := refjson.Parse(pdu.Content())
	if cerr != nil || !refjson.Equal(cv, evgen.Get(want, "content")) {
		return fmt.Errorf("PDU.Redact: Content() = %s, specification gives %s", pdu.Content(), refjson.Canonical(evgen.Get(want, "content")))
	}
	pdu.Redact() // idempotent on the PDU as well
	rv2, _, _ := refjson.Parse(pdu.JSON())
	if rv2 == nil || !refjson.Equal(rv2, want) {
		return fmt.Errorf("second PDU.Redact changed the event")
	}
	// the same through an event that arrived over federation and was co-signed before being redacted (invite / restricted
	// join flows): Redact() must act on the event as it is now, co-signature included
	if pu, uerr := parseUntrustedIf(len(c.Content) <= 1 || len(c.Extra) > 0, ver, in); uerr == nil && pu != nil && !pu.Redacted() {
		var co gmsl.PDU
		if p, msg := harness.Try(func() { co = pu.Sign(k3.Server, gmsl.KeyID(k3.KeyID), k3.Priv) }); p {
			return fmt.Errorf("Sign panics on an event parsed from untrusted JSON: %s", msg)
		}
		wantRed, rerr := ver.RedactEventJSON(co.JSON())
		if rerr != nil {
			return fmt.Errorf("RedactEventJSON fails on the co-signed event: %v", rerr)
		}
		co.Redact()
		gv, _, _ := refjson.Parse(co.JSON())
		wv, _, _ := refjson.Parse(wantRed)
		if gv == nil || wv == nil || !refjson.Equal(gv, wv) {
			return fmt.Errorf("untrusted parse, Sign, Redact gives %s but RedactEventJSON of the co-signed event gives %s", co.JSON(), wantRed)
		}
		for _, k := range []evgen.Key{k1, k2, k3} {
			if e := gmsl.VerifyJSON(k.Server, gmsl.KeyID(k.KeyID), k.Pub, co.JSON()); e != nil {
				return fmt.Errorf("after untrusted parse, Sign, Redact the signature of %s no longer verifies: %v", k.Server, e)
			}
		}
	}
	// non-trivial: something was removed and something kept
	if len(evgen.Get(want, "content").Members) > 0 && len(evgen.Get(inV, "content").Members) > len(evgen.Get(want, "content").Members) {
		r.Nontrivial(c.key())
	}
	return nil
}

func main() { harness.Main("C05", "model_checking", run) }

func run(r *harness.Run) {
	r.Rule("every protected event type + 2 unprotected types x every subset of <= K content keys from the union of all versions' keep-lists plus junk/nested keys (each with a value from a typed menu incl. 2^53-1, null, nested objects/arrays, strings needing escapes) x all 16 room versions; and every subset of 8 extra top-level keys per type; depth 0 / origin_server_ts 0 variants; every type also on events without a state key; null / false / 0 / empty string / [] / {} under each of 12 top-level keys; junk top-level keys that differ from a kept key only in letter case. Oracle: value equality with refredact (spec tables), keep-list membership, idempotence, identity fields and hashed event ID (vs refevent) unchanged, PDU.Redact agreement (on a trusted parse, and on an untrusted parse that was co-signed first), all signatures still verify (real VerifyJSON). Non-trivial = distinct case where redaction both kept and removed content.")
	r.Assume("ed25519 / sha256 trusted", "float-valued and >2^53 numbers in content are outside the property's alphabet")
	r.OnReplay("red", func(raw json.RawMessage) error {
		var c redCase
		if err := json.Unmarshal(raw, &c); err != nil {
			return err
		}
		// violations that need state left behind by an earlier redaction (a pooled or shared scratch buffer): redact the
		// predecessor and an event carrying every optional top-level key first
		if c.Prev != nil {
			_ = check(r, *c.Prev)
		}
		dirty := redCase{Version: c.Version, Type: "m.room.member", Content: map[string]string{"membership": `"join"`, "junk": `1`, "users": `{}`},
			Extra: map[string]string{"junk": `{"a":1}`, "origin": `"a.org"`, "membership": `"join"`, "prev_state": `[]`, "unsigned": `{"age":1}`, "age_ts": `5`, "redacts": `"$x:a.org"`, "outlier": `true`}}
		_ = check(r, dirty)
		return check(r, c)
	})
	if r.Replaying() {
		return
	}
	types := []string{"m.room.member", "m.room.create", "m.room.join_rules", "m.room.power_levels", "m.room.aliases", "m.room.history_visibility", "m.room.redaction", "m.room.message", "m.room.topic"}
	// key -> typical value
	contentKeys := [][2]string{
		{"membership", `"join"`}, {"join_authorised_via_users_server", `"@x:c.org"`},
		{"third_party_invite", `{"display_name":"d","signed":{"mxid":"@t:b.org","token":"tok","signatures":{"c.org":{"ed25519:0":"sig"}}}}`},
		{"creator", `"@u:a.org"`}, {"room_version", `"11"`}, {"join_rule", `"restricted"`},
		{"allow", `[{"type":"m.room_membership","room_id":"!o:a.org"}]`},
		{"ban", `50`}, {"events", `{"m.room.name":9007199254740991,"a\"<&>":-1}`}, {"events_default", `0`}, {"kick", `-1`}, {"redact", `9007199254740991`},
		{"state_default", `50`}, {"users", `{"@u:a.org":100,"@é<b>:b.org":0}`}, {"users_default", `null`}, {"invite", `50`}, {"notifications", `{"room":50}`},
		{"aliases", `["#a:a.org","#<&> :b"]`}, {"history_visibility", `"shared"`}, {"redacts", `"$x:a.org"`},
		{"junk", `"j"`}, {"body", `{"a":{"b":[1,"x",null,true]}}`}, {"displayname", `"<script>é\u0001"`}, {"signed", `{"x":1}`},
		// a flat key spelt like the keep-list's notation for a nested one: not the nested key, an unknown key
		{"third_party_invite.signed", `"flat"`},
	}
	alt := map[string][]string{"membership": {`null`}, "users": {`null`}, "allow": {`null`}, "third_party_invite": {`{"signed":null}`, `{"display_name":"d"}`, `{}`, `[]`, `{"signed":{}}`}, "events": {`{}`}, "ban": {`"50"`}, "creator": {`{"a":1}`}}
	K := r.Pick(3, 4)
	var subsets [][]int
	var sub func(start int, cur []int)
	sub = func(start int, cur []int) {
		subsets = append(subsets, append([]int(nil), cur...))
		if len(cur) == K {
			return
		}
		for i := start; i < len(contentKeys); i++ {
			sub(i+1, append(cur, i))
		}
	}
	sub(0, nil)
	vers := refversions.All()
	type job struct {
		ver string
		typ string
	}
	var jobs []job
	for _, v := range vers {
		for _, t := range types {
			jobs = append(jobs, job{v, t})
		}
	}
	// the content tables depend only on (redaction generation, event format): the quick tier explores the
	// content-subset product on one representative version per distinct pair, the extras product on all 16
	rep := map[string]bool{}
	seenPair := map[[2]int]bool{}
	for _, v := range vers {
		row := refversions.Get(v)
		p := [2]int{row.Redaction, row.EventIDFormat}
		if !seenPair[p] || r.Thorough() || row.DomainlessRoomIDs {
			rep[v] = true
		}
		seenPair[p] = true
	}
	r.Parallel(len(jobs), func(i int) {
		j := jobs[i]
		var prev *redCase
		report := func(c redCase, err error) {
			p := prev
			cc := c
			prev = &cc
			if err != nil {
				c.Prev = p
				var ks []string
				for k := range c.Content {
					ks = append(ks, k)
				}
				sort.Strings(ks)
				r.Violation(fmt.Sprintf("red:%s:%s:%v:%v", c.Version, c.Type, ks, len(c.Extra)), err.Error(), "red", c)
			}
		}
		for _, ss := range subsets {
			if !rep[j.ver] {
				break
			}
			c := redCase{Version: j.ver, Type: j.typ, Content: map[string]string{}}
			for _, ki := range ss {
				c.Content[contentKeys[ki][0]] = contentKeys[ki][1]
			}
			report(c, check(r, c))
			if len(ss) <= 1 {
				cz := c
				cz.Zero = true
				report(cz, check(r, cz))
			}
			// alternative values: one key at a time
			for _, ki := range ss {
				if as, ok := alt[contentKeys[ki][0]]; ok && len(ss) <= 2 {
					for _, a := range as {
						c2 := redCase{Version: j.ver, Type: j.typ, Content: map[string]string{}}
						for k, v := range c.Content {
							c2.Content[k] = v
						}
						c2.Content[contentKeys[ki][0]] = a
						report(c2, check(r, c2))
					}
				}
			}
		}
		// the same types on events WITHOUT a state key (a message-like event may carry any type; the algorithm goes by type alone)
		for _, ss := range subsets {
			if len(ss) > 1 {
				continue
			}
			c := redCase{Version: j.ver, Type: j.typ, Content: map[string]string{"junk": `1`}, NoSK: true}
			for _, ki := range ss {
				c.Content[contentKeys[ki][0]] = contentKeys[ki][1]
			}
			report(c, check(r, c))
		}
		// extra top-level keys: every subset
		extras := [][2]string{{"junk", `{"a":1}`}, {"origin", `"a.org"`}, {"membership", `"join"`}, {"prev_state", `[]`}, {"unsigned", `{"age":1}`}, {"age_ts", `5`}, {"redacts", `"$x:a.org"`}, {"outlier", `true`}}
		for mask := 0; mask < 1<<len(extras); mask++ {
			c := redCase{Version: j.ver, Type: j.typ, Content: map[string]string{"membership": `"join"`, "junk": `1`, "users": `{}`}, Extra: map[string]string{}, NoSK: mask&1 == 1 && j.typ == "m.room.message"}
			for b, e := range extras {
				if mask&(1<<b) != 0 {
					c.Extra[e[0]] = e[1]
				}
			}
			report(c, check(r, c))
		}
	})
	// values of another kind (null first) under every top-level key that some version's algorithm keeps: "kept with its value
	// unchanged" includes null, false, 0, "", [] and {}
	var sjobs []redCase
	for _, v := range vers {
		for _, t := range []string{"m.room.member", "m.room.message"} {
			for _, k := range []string{"state_key", "origin", "membership", "prev_state", "redacts", "depth", "origin_server_ts", "prev_events", "auth_events", "hashes", "unsigned", "age_ts"} {
				for _, raw := range []string{`null`, `false`, `0`, `""`, `[]`, `{}`} {
					sjobs = append(sjobs, redCase{Version: v, Type: t, Content: map[string]string{"membership": `"join"`, "junk": `1`}, Subst: map[string]string{k: raw}})
				}
			}
			// junk top-level keys that differ from a kept key only in letter case (or by a Unicode case fold): unknown keys
			// like any other, to be removed - not to be taken for the kept key, nor to replace it
			for _, junk := range [][2]string{{"Type", `"m.room.create"`}, {"Event_ID", `"$forged:a.org"`}, {"Sender", `"@other:a.org"`}, {"State_Key", `"x"`}, {"CONTENT", `{"forged":1}`}, {"Room_ID", `"!other:a.org"`}, {"Hashes", `{"sha256":"x"}`}, {"un\u017figned", `{"x":1}`}, {"Depth", `1`}, {"zz_Type", `1`}} {
				sjobs = append(sjobs, redCase{Version: v, Type: t, Content: map[string]string{"membership": `"join"`, "junk": `1`}, Extra: map[string]string{junk[0]: junk[1]}})
			}
			sjobs = append(sjobs, redCase{Version: v, Type: t, Content: map[string]string{"membership": `"join"`}, Subst: map[string]string{"state_key": `null`, "origin": `null`, "membership": `null`, "prev_state": `null`, "redacts": `null`}})
		}
	}
	r.Parallel(len(sjobs), func(i int) {
		c := sjobs[i]
		if err := check(r, c); err != nil {
			r.Violation(fmt.Sprintf("red-subst:%s:%s:%s", c.Version, c.Type, harness.J(c.Subst)), err.Error(), "red", c)
		}
	})
	r.Count("substituted_top_level_values", int64(len(sjobs)))
	r.Count("content_subsets", int64(len(subsets)))
	r.Sample("red", redCase{Version: "11", Type: "m.room.member", Content: map[string]string{"membership": `"invite"`, "third_party_invite": contentKeys[2][1], "displayname": `"d"`}})
	r.Sample("red", redCase{Version: "6", Type: "m.room.aliases", Content: map[string]string{"aliases": `["#a:a.org"]`}})
	r.Extra("bounds", map[string]int{"K": K, "content_keys": len(contentKeys), "types": len(types), "versions": len(vers)})
}
