package main

import (
	"fmt"
	"os"
	"strings"

	gmsl "github.com/matrix-org/gomatrixserverlib"

	"verif/mc/srgen"
)

func main() {
	ver := os.Args[1]
	acts := map[string]srgen.Action{}
	for _, a := range srgen.Actions(ver) {
		acts[a.Name] = a
	}
	h, base := srgen.New(ver, 0, 2)
	tip := []string{h.Order[len(h.Order)-1].ID}
	var states []srgen.State
	for _, br := range [][]string{strings.Split(os.Args[2], ","), strings.Split(os.Args[3], ",")} {
		var as []srgen.Action
		for _, n := range br {
			as = append(as, acts[n])
		}
		st, _, _ := h.Branch(base, tip, as)
		states = append(states, st)
	}
	pd := map[string]gmsl.PDU{}
	var auth []gmsl.PDU
	for _, e := range h.Order {
		p, _ := h.PDU(e)
		pd[e.ID] = p
		auth = append(auth, p)
		fmt.Println(e.ID[:14], e.TS, e.Sender, e.Auth)
	}
	var evs []gmsl.PDU
	for _, id := range os.Args[4:] {
		for _, e := range h.Order {
			if strings.HasPrefix(e.ID, id) {
				evs = append(evs, pd[e.ID])
			}
		}
	}
	var sets [][]gmsl.PDU
	for _, st := range states {
		var l []gmsl.PDU
		for _, e := range st {
			l = append(l, pd[e.ID])
		}
		sets = append(sets, l)
	}
	for i := 0; i < 5; i++ {
		c, o := gmsl.VerifControlList(gmsl.StateResV2, sets, auth)
		var cs, os2 []string
		for _, p := range c {
			cs = append(cs, p.EventID()[:5])
		}
		for _, p := range o {
			os2 = append(os2, p.EventID()[:5])
		}
		var ord []string
		for _, p := range gmsl.VerifPowerOrder(c, auth) {
			ord = append(ord, p.EventID()[:5])
		}
		fmt.Println("control:", cs, "others:", os2, "ordered:", ord)
	}
	for _, p := range gmsl.VerifPowerOrder(evs, auth) {
		fmt.Println("order:", p.EventID()[:14])
	}
}
