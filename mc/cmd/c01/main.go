// C01 — canonical JSON is a value-preserving, unique, idempotent normal form.
// Bounded-exhaustive enumeration of JSON values x presentations, executed on
// the real CanonicalJSON / EnforcedCanonicalJSON, against refjson.
package main

import (
	"bytes"
	"encoding/json"
	"fmt"
	"strings"
	"unicode/utf8"

	gmsl "github.com/matrix-org/gomatrixserverlib"

	"verif/mc/explore"
	"verif/mc/harness"
	"verif/mc/ref/refjson"
	"verif/mc/ref/refversions"
)

// ---- alphabet -------------------------------------------------------------

type cpSpell struct {
	r      rune
	spells []string // index 0 = canonical spelling inside a JSON string
}

func u4(r rune, upper bool) string {
	s := fmt.Sprintf("\\u%04x", r)
	if upper {
		s = "\\u" + strings.ToUpper(s[2:])
	}
	return s
}

func mkSpells(r rune) cpSpell {
	var sp []string
	lit := string(r)
	add := func(s string) {
		for _, x := range sp {
			if x == s {
				return
			}
		}
		sp = append(sp, s)
	}
	switch {
	case r == '"':
		add(`\"`)
	case r == '\\':
		add(`\\`)
	case r == 8:
		add(`\b`)
	case r == 9:
		add(`\t`)
	case r == 10:
		add(`\n`)
	case r == 12:
		add(`\f`)
	case r == 13:
		add(`\r`)
	case r < 0x20:
		add(u4(r, false))
	default:
		add(lit)
	}
	if r == '/' {
		add(`\/`)
	}
	if r >= 0x10000 {
		a, b := utf16pair(r)
		add(u4(a, false) + u4(b, false))
		add(u4(a, true) + u4(b, true))
		add(u4(a, true) + u4(b, false))
	} else {
		add(u4(r, false))
		add(u4(r, true))
	}
	return cpSpell{r, sp}
}

func utf16pair(r rune) (rune, rune) {
	r -= 0x10000
	return 0xD800 + (r>>10)&0x3ff, 0xDC00 + r&0x3ff
}

var cpRunes = []rune{'a', 'b', 0xE9, 0x20AC, 0xFF5E, 0x1F600, '"', '\\', '/', 0, 1, 8, 9, 10, 12, 13, 0x1F, 0x7F, ' ',
	// boundaries of every UTF-8 / UTF-16 encoding range
	0x80, 0x7FF, 0x800, 0xD7FF, 0xE000, 0xFFFF, 0x10000, 0x10FFFF}

var numbersAll = []string{"0", "-0", "1", "-1", "10", "9007199254740991", "9007199254740992", "-9007199254740991", "-9007199254740992",
	"9007199254740993", "1.5", "-0.5", "-0.25e1", "0.0", "-0.0", "1.0", "1e2", "1E2", "0e1", "0E1", "-0e1", "1e-2", "-1.5e+3", "1e-05", "1E-0", "-1e-01", "1E+2", "1e400", "0.1e1",
	"100000000000000000000", "-100000000000000000000", "9223372036854775807", "9223372036854775808", "-9223372036854775808", "-9223372036854775809",
	"18446744073709551615", "18446744073709551616", "18446744073709551617", "-18446744073709551616", "36893488147419103232", "340282366920938463463374607431768211456", "12345678901234567890.5"}

// ---- the oracle for one text ---------------------------------------------

type verdict struct {
	key, what string
}

// checkText runs every C01 oracle that applies to one text. want (optional)
// is the value the text was generated from, wantCanon its canonical bytes.
func checkText(r *harness.Run, text []byte, want *refjson.Value) *verdict {
	r.Eval()
	refV, info, refErr := refjson.Parse(text)
	stdValid := json.Valid(text)
	if !utf8.Valid(text) {
		// outside the property's domain (not well-formed Unicode): no-panic only
		r.Count("out_of_domain_non_utf8", 1)
		if p, msg := harness.Try(func() { _, _ = gmsl.CanonicalJSON(text) }); p {
			return &verdict{"canon-panic:" + string(text), "panic: " + msg}
		}
		return nil
	}
	if (refErr == nil) != stdValid {
		// the two independent validators disagree: do not judge
		r.Count("oracle_disagreement_skipped", 1)
		return nil
	}
	var out []byte
	var err error
	if p, msg := harness.Try(func() { out, err = gmsl.CanonicalJSON(text) }); p {
		return &verdict{"canon-panic:" + string(text), "panic: " + msg}
	}
	if refErr != nil {
		r.Outcome("invalid")
		if err == nil {
			return &verdict{"accepts-invalid:" + string(text), fmt.Sprintf("invalid JSON (%v) accepted, output %q", refErr, out)}
		}
		r.Nontrivial("inv:" + string(text))
		return nil
	}
	if info.DuplicateKeys || info.LoneSurrogate {
		r.Count("out_of_domain_dupkeys_or_lone_surrogate", 1)
		return nil
	}
	if want != nil && !refjson.Equal(want, refV) {
		panic(fmt.Sprintf("reference parser disagrees with generator on %q", text))
	}
	if err != nil {
		return &verdict{"rejects-valid:" + string(text), "valid JSON rejected: " + err.Error()}
	}
	r.Outcome("valid")
	snap := string(out) // the result as it was handed out
	e1 := refjson.Emit(nil, refV, false)
	e2 := refjson.Emit(nil, refV, true)
	if string(out) != string(e1) && string(out) != string(e2) {
		return &verdict{"canon-mismatch:" + string(text), fmt.Sprintf("CanonicalJSON(%q) = %q, reference %q", text, out, e1)}
	}
	// (2) independent shape + value checks on the output itself
	if !json.Valid(out) {
		return &verdict{"canon-output-invalid:" + string(text), fmt.Sprintf("output %q is not valid JSON", out)}
	}
	if s := refjson.CheckCanonicalShape(out); s != "" {
		return &verdict{"canon-shape:" + string(text), fmt.Sprintf("output %q not canonical: %s", out, s)}
	}
	ov, _, oerr := refjson.Parse(out)
	if oerr != nil || !refjson.Equal(ov, refV) {
		return &verdict{"canon-value:" + string(text), fmt.Sprintf("output %q does not denote the value of %q", out, text)}
	}
	// (3) idempotent
	var out2 []byte
	var err2 error
	if p, msg := harness.Try(func() { out2, err2 = gmsl.CanonicalJSON(out) }); p {
		return &verdict{"canon-panic:" + string(text), "panic on the second pass: " + msg}
	}
	if err2 != nil || string(out2) != string(out) {
		return &verdict{"canon-idempotent:" + string(text), fmt.Sprintf("second pass gives %q (err %v), first %q", out2, err2, out)}
	}
	// (6) AssumeValid agrees
	var av []byte
	if p, msg := harness.Try(func() { av = gmsl.CanonicalJSONAssumeValid(text) }); p {
		return &verdict{"assumevalid-panic:" + string(text), "panic: " + msg}
	}
	if string(av) != string(out) {
		return &verdict{"assumevalid-differs:" + string(text), fmt.Sprintf("AssumeValid %q vs %q", av, out)}
	}
	// (8) a result stays what it was when it was handed out: later, unrelated canonicalisations (of documents of both kinds a
	// fast path might tell apart: with and without objects / whitespace) must not reach into it
	for _, later := range laterDocs {
		if p, msg := harness.Try(func() { _, _ = gmsl.CanonicalJSON(later) }); p {
			return &verdict{"canon-panic:later", "panic: " + msg}
		}
	}
	if string(out) != snap {
		return &verdict{"canon-result-changed-later:" + string(text), fmt.Sprintf("CanonicalJSON(%q) returned %q; after two later calls on other documents the same slice reads %q", text, snap, out)}
	}
	if string(out) != string(text) {
		r.Nontrivial("c:" + string(text))
	}
	return nil
}

var laterDocs = [][]byte{[]byte(`["later","call",1234567890123,true,null,"xxxxxxxxxxxxxxxxxxxxxxxxxxxxxxxx"]`), []byte(`{ "z" : [ 1 , 2 ] , "a" : "later call with an object and whitespace" }`)}

// checkEnforced: the per-room-version enforced variant on one text.
func checkEnforced(r *harness.Run, text []byte, ver gmsl.RoomVersion) *verdict {
	r.Eval()
	_, info, refErr := refjson.Parse(text)
	var out []byte
	var err error
	if p, msg := harness.Try(func() { out, err = gmsl.EnforcedCanonicalJSON(text, ver) }); p {
		return &verdict{fmt.Sprintf("enforced-panic:%s:%s", ver, text), "panic: " + msg}
	}
	if refErr != nil {
		if err == nil {
			return &verdict{fmt.Sprintf("enforced-accepts-invalid:%s:%s", ver, text), "invalid JSON accepted"}
		}
		return nil
	}
	bad, negZero := false, false
	for _, n := range info.Numbers {
		if !refjson.IsIntegerLiteral(n) || !refjson.InSafeRange(n) {
			bad = true
		}
		if n == "-0" {
			negZero = true
		}
	}
	enforce := refversions.Get(string(ver)).EnforceCanonicalJSON
	k := fmt.Sprintf("enforced:%s:%s", ver, text)
	if enforce && bad {
		r.Outcome("enforced-reject")
		if err == nil {
			return &verdict{"enforced-accepts:" + k, fmt.Sprintf("room version %s must reject %q (non-integer or out-of-range number) but returned %q", ver, text, out)}
		}
		r.Nontrivial(k)
		return nil
	}
	if enforce && negZero {
		r.Outcome("enforced-negzero-either")
		return nil // "-0" is an integer literal in range; the library refuses it; either is consistent with the property
	}
	r.Outcome("enforced-accept")
	if err != nil {
		return &verdict{"enforced-rejects:" + k, fmt.Sprintf("room version %s must accept %q: %v", ver, text, err)}
	}
	plain, perr := gmsl.CanonicalJSON(text)
	if perr != nil || string(plain) != string(out) {
		return &verdict{"enforced-differs:" + k, fmt.Sprintf("enforced output %q differs from CanonicalJSON %q", out, plain)}
	}
	// the interface method must agree with the free function
	if ce := gmsl.MustGetRoomVersion(ver).CheckCanonicalJSON(text); ce != nil {
		return &verdict{"checkcanonical-rejects:" + k, "CheckCanonicalJSON rejects: " + ce.Error()}
	}
	if bad {
		r.Nontrivial(k)
	}
	return nil
}

// ---- generation -----------------------------------------------------------

// pres is a presentable JSON document: a token sequence; whitespace may be
// inserted at every gap.
type pres struct {
	toks []string
	val  *refjson.Value
}

var wsMenu = []string{"", " ", "\n\t\r "}

func (p pres) render(x *explore.Ctx) []byte {
	var sb strings.Builder
	for i, t := range p.toks {
		sb.WriteString(wsMenu[x.Choose(len(wsMenu), "ws")])
		sb.WriteString(t)
		if i == len(p.toks)-1 {
			sb.WriteString(wsMenu[x.Choose(len(wsMenu), "ws")])
		}
	}
	return []byte(sb.String())
}

func strTok(runes []int, spell []int) string {
	var sb strings.Builder
	sb.WriteByte('"')
	for i, ri := range runes {
		sb.WriteString(cps[ri].spells[spell[i]])
	}
	sb.WriteByte('"')
	return sb.String()
}

var cps []cpSpell

func strVal(runes []int) string {
	var sb strings.Builder
	for _, ri := range runes {
		sb.WriteRune(cps[ri].r)
	}
	return sb.String()
}

type work func()

func main() {
	harness.Main("C01", "model_checking", run)
}

func run(r *harness.Run) {
	for _, c := range cpRunes {
		cps = append(cps, mkSpells(c))
	}
	r.Rule("bounded-exhaustive: (A) every string of <=L code points over a 27-symbol alphabet in every escape spelling, as value and as object key; (B) every object of <=K keys from a 14-key menu in every key order with <=1 respelled key; (C) every JSON tree of <=N nodes over small leaf/key menus x whitespace at every gap with <=W non-default gaps (deviation-bounded DFS); (D) every single-byte insertion/deletion/substitution/truncation of the canonical texts of C; (E) 29 number literals x 61 contexts (11 structural, 50 under member names of the event vocabulary such as unsigned / signatures / content at several depths) x all 16 room versions through EnforcedCanonicalJSON; (F) wide objects and long arrays: widths around every power of two from 8 to 1024 (thorough: to 65536) x 4 key shapes x 5 input orders, alone and nested. Non-trivial = distinct text whose canonical form differs from the text (A-C), distinct invalid text rejected (D), distinct (version,text) with a decisive number (E). Oracle: independent reference parser/emitter refjson + encoding/json.Valid.")
	r.Assume("encoding/json.Valid and refjson agree on validity (texts where they disagree are skipped and counted)", "texts that are not UTF-8, have duplicate keys or lone surrogates are outside the property and only checked for no-panic")
	report := func(v *verdict, kind string, input interface{}) {
		if v != nil {
			r.Violation(v.key, v.what, kind, input)
		}
	}
	r.OnReplay("text", func(raw json.RawMessage) error {
		var in struct{ Text string }
		_ = json.Unmarshal(raw, &in)
		if v := checkText(r, []byte(in.Text), nil); v != nil {
			return fmt.Errorf("%s", v.what)
		}
		return nil
	})
	r.OnReplay("enforced", func(raw json.RawMessage) error {
		var in struct{ Text, Version string }
		_ = json.Unmarshal(raw, &in)
		if v := checkEnforced(r, []byte(in.Text), gmsl.RoomVersion(in.Version)); v != nil {
			return fmt.Errorf("%s", v.what)
		}
		return nil
	})
	if r.Replaying() {
		return
	}
	doText := func(text []byte, want *refjson.Value) {
		report(checkText(r, text, want), "text", map[string]string{"Text": string(text)})
	}

	// (A) strings in every spelling, as value and as key
	L := r.Pick(2, 3)
	var seqs [][]int
	var gen func(cur []int)
	gen = func(cur []int) {
		seqs = append(seqs, append([]int(nil), cur...))
		if len(cur) == L {
			return
		}
		for i := range cps {
			gen(append(cur, i))
		}
	}
	gen(nil)
	r.Parallel(len(seqs), func(i int) {
		runes := seqs[i]
		sv := strVal(runes)
		spell := make([]int, len(runes))
		for {
			tok := strTok(runes, spell)
			doText([]byte(tok), &refjson.Value{Kind: refjson.String, Str: sv})
			doText([]byte("{"+tok+":0}"), &refjson.Value{Kind: refjson.Object, Members: []refjson.Member{{Key: sv, Val: &refjson.Value{Kind: refjson.Number, Num: "0"}}}})
			if r.WantSample("A-string-spelling") && len(runes) == 2 && spell[0] == 1 {
				r.Sample("A-string-spelling", tok)
			}
			// next spelling vector
			k := 0
			for k < len(runes) {
				spell[k]++
				if spell[k] < len(cps[runes[k]].spells) {
					break
				}
				spell[k] = 0
				k++
			}
			if k == len(runes) {
				break
			}
		}
	})
	r.Count("A_strings", int64(len(seqs)))

	// (B) objects: all key subsets x all key orders x <=1 respelled key
	keyMenu := [][]int{{0}, {1}, {0, 0}, {}, {2}, {3}, {4}, {5}, {6}, {7}, {9}, {10}, {8}, {13}} // a b aa "" é € ～ 😀 " \ NUL \u0001 / \n  (indices into cpRunes)
	K := r.Pick(3, 4)
	var subsets [][]int
	var sub func(start int, cur []int)
	sub = func(start int, cur []int) {
		if len(cur) >= 2 {
			subsets = append(subsets, append([]int(nil), cur...))
		}
		if len(cur) == K {
			return
		}
		for i := start; i < len(keyMenu); i++ {
			sub(i+1, append(cur, i))
		}
	}
	sub(0, nil)
	r.Parallel(len(subsets), func(si int) {
		ss := subsets[si]
		val := &refjson.Value{Kind: refjson.Object}
		for j, ki := range ss {
			val.Members = append(val.Members, refjson.Member{Key: strVal(keyMenu[ki]), Val: &refjson.Value{Kind: refjson.Number, Num: fmt.Sprint(j)}})
		}
		for _, perm := range explore.Perms(len(ss)) {
			// respell: none, or exactly one key with each alternative spelling of each of its code points
			emit := func(respell int, cpIdx int, alt int) {
				var sb strings.Builder
				sb.WriteByte('{')
				for n, pj := range perm {
					if n > 0 {
						sb.WriteByte(',')
					}
					runes := keyMenu[ss[pj]]
					spell := make([]int, len(runes))
					if pj == respell {
						spell[cpIdx] = alt
					}
					sb.WriteString(strTok(runes, spell))
					sb.WriteString(":" + fmt.Sprint(pj))
				}
				sb.WriteByte('}')
				doText([]byte(sb.String()), val)
				if r.WantSample("B-key-order") && respell >= 0 {
					r.Sample("B-key-order", sb.String())
				}
			}
			emit(-1, 0, 0)
			for j, ki := range ss {
				for c, ri := range keyMenu[ki] {
					for alt := 1; alt < len(cps[ri].spells); alt++ {
						emit(j, c, alt)
					}
				}
			}
		}
	})
	r.Count("B_key_subsets", int64(len(subsets)))

	// (B2) ordering of key pairs that share a prefix: for three prefixes, every pair (p+c, p+d) and (p, p+c) with c, d ranging over
	// EVERY printable ASCII character, the control characters and the UTF-8 / UTF-16 length boundaries, in both input orders.
	// (A comparison done on anything but the decoded keys - raw tokens, quoted tokens, UTF-16 units - differs from the code-point
	// order only for particular continuation characters: below '"', between '"' and '\\', above U+FFFF ...)
	{
		var tails []string
		tails = append(tails, "")
		for c := rune(0); c < 0x80; c++ {
			tails = append(tails, string(c))
		}
		for _, c := range []rune{0x80, 0xFF, 0x7FF, 0x800, 0xD7FF, 0xE000, 0xFFFD, 0xFFFF, 0x10000, 0x10FFFF} {
			tails = append(tails, string(c))
		}
		quote := func(k string) string {
			var sb bytes.Buffer
			enc := json.NewEncoder(&sb)
			enc.SetEscapeHTML(false)
			_ = enc.Encode(k)
			return strings.TrimSuffix(sb.String(), "\n")
		}
		prefixes := []string{"", "a", "\u00e9"}
		var n int64
		for _, p := range prefixes {
			p := p
			r.Parallel(len(tails), func(i int) {
				for j := i + 1; j < len(tails); j++ {
					k1, k2 := p+tails[i], p+tails[j]
					val := &refjson.Value{Kind: refjson.Object, Members: []refjson.Member{
						{Key: k1, Val: &refjson.Value{Kind: refjson.Number, Num: "0"}},
						{Key: k2, Val: &refjson.Value{Kind: refjson.Number, Num: "1"}}}}
					doText([]byte("{"+quote(k1)+":0,"+quote(k2)+":1}"), val)
					doText([]byte("{"+quote(k2)+":1,"+quote(k1)+":0}"), val)
				}
			})
			n += int64(len(tails) * (len(tails) - 1))
		}
		r.Count("B2_prefix_key_pairs", n)
	}

	// (C) trees with <= N nodes x whitespace deviations
	N := r.Pick(4, 5)
	W := r.Pick(2, 2)
	leaves := []struct {
		tok string
		v   refjson.Value
	}{
		{"0", refjson.Value{Kind: refjson.Number, Num: "0"}},
		{"-0", refjson.Value{Kind: refjson.Number, Num: "0"}},
		{`"a"`, refjson.Value{Kind: refjson.String, Str: "a"}},
		{"null", refjson.Value{Kind: refjson.Null}},
		{"-0.5", refjson.Value{Kind: refjson.Number, Num: "-0.5"}},
		{"1e-05", refjson.Value{Kind: refjson.Number, Num: "1e-05"}},
		{"true", refjson.Value{Kind: refjson.True}},
		{`"é\/"`, refjson.Value{Kind: refjson.String, Str: "é/"}},
	}
	treeKeys := []string{"b", "a", `\"`}
	treeKeyVals := []string{"b", "a", `"`}
	var trees []pres
	// gen returns all (tokens,value) documents with exactly n nodes
	memo := map[int][]pres{}
	var genTree func(n int) []pres
	// forests: sequences of trees with total n nodes, length m
	var forest func(n, m int) [][]pres
	forest = func(n, m int) [][]pres {
		if m == 0 {
			if n == 0 {
				return [][]pres{{}}
			}
			return nil
		}
		var out [][]pres
		for first := 1; first <= n-(m-1); first++ {
			for _, t := range genTree(first) {
				for _, rest := range forest(n-first, m-1) {
					out = append(out, append([]pres{t}, rest...))
				}
			}
		}
		return out
	}
	genTree = func(n int) []pres {
		if v, ok := memo[n]; ok {
			return v
		}
		var out []pres
		if n == 1 {
			for i := range leaves {
				l := leaves[i]
				out = append(out, pres{[]string{l.tok}, &l.v})
			}
			out = append(out, pres{[]string{"[", "]"}, &refjson.Value{Kind: refjson.Array}})
			out = append(out, pres{[]string{"{", "}"}, &refjson.Value{Kind: refjson.Object}})
		} else {
			for m := 1; m <= n-1 && m <= 3; m++ {
				for _, f := range forest(n-1, m) {
					// array
					toks := []string{"["}
					av := &refjson.Value{Kind: refjson.Array}
					for i, t := range f {
						if i > 0 {
							toks = append(toks, ",")
						}
						toks = append(toks, t.toks...)
						av.Elems = append(av.Elems, t.val)
					}
					toks = append(toks, "]")
					out = append(out, pres{toks, av})
					// object: keys = every ordered selection of m distinct keys
					for _, kp := range explore.Perms(len(treeKeys)) {
						// use the first m of the permutation; skip duplicates of the same prefix
						dup := false
						for j := m; j+1 < len(kp); j++ {
							if kp[j] > kp[j+1] {
								dup = true
							}
						}
						if dup {
							continue
						}
						toks := []string{"{"}
						ov := &refjson.Value{Kind: refjson.Object}
						for i, t := range f {
							if i > 0 {
								toks = append(toks, ",")
							}
							toks = append(toks, `"`+treeKeys[kp[i]]+`"`, ":")
							toks = append(toks, t.toks...)
							ov.Members = append(ov.Members, refjson.Member{Key: treeKeyVals[kp[i]], Val: t.val})
						}
						toks = append(toks, "}")
						out = append(out, pres{toks, ov})
					}
				}
			}
		}
		memo[n] = out
		return out
	}
	for n := 1; n <= N; n++ {
		trees = append(trees, genTree(n)...)
	}
	r.Count("C_trees", int64(len(trees)))
	var wsExecs, wsPoints int64
	r.Parallel(len(trees), func(i int) {
		t := trees[i]
		if r.Expired() {
			r.Cap("C: wall-clock budget hit before all trees were explored")
			return
		}
		st := explore.Explore(explore.Options{Bound: W, Workers: 1}, func(x *explore.Ctx) {
			text := t.render(x)
			doText(text, t.val)
			if x.Deviations() == 2 && r.WantSample("C-tree-whitespace") {
				r.Sample("C-tree-whitespace", string(text))
			}
		})
		r.Count("C_executions", st.Executions)
		r.Transition(st.ChoicePts)
		_ = wsExecs
		_ = wsPoints
	})

	// (D) single-byte corruptions of canonical texts of trees with <= ND nodes
	ND := r.Pick(3, 4)
	junk := []byte{',', ':', '"', '\\', '{', '}', '[', ']', '0', '1', '-', '+', '.', 'e', 'E', 'a', ' ', 0x01, 0x7f, 0xff, '\'', 'N', 'n', 't', 'u', '/'}
	var dtrees []pres
	for n := 1; n <= ND; n++ {
		dtrees = append(dtrees, genTree(n)...)
	}
	extra := []string{`"é"`, `"😀"`, `1.5e+3`, `-1`, `{"a":1.0E-2}`, `[10,"\n"]`, `"\u001f"`}
	for _, e := range extra {
		dtrees = append(dtrees, pres{toks: []string{e}})
	}
	r.Parallel(len(dtrees), func(i int) {
		base := []byte(strings.Join(dtrees[i].toks, ""))
		try := func(b []byte) {
			doText(b, nil)
		}
		for p := 0; p <= len(base); p++ {
			try(append([]byte(nil), base[:p]...)) // truncation
			for _, j := range junk {
				b := append(append(append([]byte(nil), base[:p]...), j), base[p:]...)
				try(b) // insertion
				if p < len(base) && base[p] != j {
					c := append([]byte(nil), base...)
					c[p] = j
					try(c) // substitution
				}
			}
			if p < len(base) {
				try(append(append([]byte(nil), base[:p]...), base[p+1:]...)) // deletion
			}
		}
	})
	r.Count("D_base_texts", int64(len(dtrees)))
	for _, s := range []string{`{"a":1,}`, `{"a" 1}`, `"\x"`, "\"\x01\"", `01`, `+1`, `.5`, `1.`, `NaN`, `'a'`, `1 2`, `"\ud800"`, `{"a":1}}`, `[1,,2]`, ``, ` `, `-`, `1e`, `1e+`, `-a`, `nul`, `"\u12"`, `{"a":}`, `{:1}`, `{1:1}`, `[`, `{"a":1`, "\"\t\"", `Infinity`, `0x10`, `1_0`, `"a" "b"`, `tru`, `[1 2]`, `{"a":1 "b":2}`} {
		doText([]byte(s), nil)
		r.Sample("D-invalid", s)
	}

	// (E) enforced variant: numbers x contexts x versions
	ctxs := []string{"%s", "[%s]", `{"a":%s}`, `{"a":[%s]}`, `{"a":{"b":%s}}`, `[1,%s]`, `{"a":1,"b":%s}`, `["1.5",%s]`, `{"1.5":%s}`, `{"a":[{"b":[%s,0]}]}`, `[%s,"1e5","-0"]`}
	// the check is about numbers anywhere in the text: member names that mean something elsewhere in the library (the
	// event vocabulary) are no exception, at any depth and in any spelling
	for _, k := range []string{"unsigned", `\u0075nsigned`, "signatures", "hashes", "content", "age_ts", "prev_content", "redacted_because", "event_id", "_x"} {
		ctxs = append(ctxs, `{"`+k+`":%s}`, `{"`+k+`":{"x":%s}}`, `{"content":{"`+k+`":%s}}`, `[{"a":[{"`+k+`":%s}]}]`, `{"`+k+`":[0,%s]}`)
	}
	vers := refversions.All()
	r.Parallel(len(vers), func(vi int) {
		ver := gmsl.RoomVersion(vers[vi])
		for _, c := range ctxs {
			for _, n := range numbersAll {
				text := fmt.Sprintf(c, n)
				report(checkEnforced(r, []byte(text), ver), "enforced", map[string]string{"Text": text, "Version": string(ver)})
			}
			for _, s := range []string{`"1.5"`, `"1e5"`, `"-0"`, `"9007199254740993"`, `null`, `true`, `{}`, `[]`} {
				text := fmt.Sprintf(c, s)
				report(checkEnforced(r, []byte(text), ver), "enforced", map[string]string{"Text": text, "Version": string(ver)})
			}
		}
	})
	r.Sample("E-enforced", map[string]string{"Text": `{"a":[1E2]}`, "Version": "10"})
	// registered versions must all be in the reference table (and vice versa)
	for v := range gmsl.RoomVersions() {
		if !refversions.Known(string(v)) {
			r.Violation("unknown-version:"+string(v), "registered room version missing from the reference table", "none", nil)
		}
	}
	// (F) wide objects and long arrays: every width of a boundary menu (around the powers of two at which an implementation's
	// small buffers or index types change: 8, 16, 32, 64, 128, 256, 512, 1024, thorough also 4096 and 65536) x key shapes x
	// input orders, alone and nested; each member carries a distinct value so a dropped, repeated or misplaced member is seen.
	var widths []int
	for _, p2 := range []int{8, 16, 32, 64, 128, 256, 512, 1024} {
		widths = append(widths, p2-1, p2, p2+1, p2+2)
	}
	widths = append(widths, 3, 5, 100, 200, 300, 700)
	if r.Tier == "thorough" {
		widths = append(widths, 4095, 4096, 4097, 65535, 65536, 65537)
	}
	keyShapes := []func(i int) string{
		func(i int) string { return fmt.Sprintf("k%06d", i) },                  // fixed width: code-point order = numeric order
		func(i int) string { return fmt.Sprint(i) },                            // variable width: "10" < "9"
		func(i int) string { return strings.Repeat("a", i%7) + fmt.Sprint(i) }, // shared prefixes of differing length
		func(i int) string { return "@u" + fmt.Sprint(i) + ":a.org" },          // user IDs (a power-levels users map)
	}
	orders := []func(n, i int) int{
		func(n, i int) int { return i },             // as generated
		func(n, i int) int { return n - 1 - i },     // reversed
		func(n, i int) int { return (i + 1) % n },   // rotated by one
		func(n, i int) int { return (i + n/2) % n }, // rotated by half
		func(n, i int) int { // evens then odds
			if h := (n + 1) / 2; i < h {
				return 2 * i
			} else {
				return 2*(i-h) + 1
			}
		},
	}
	type wcase struct{ n, ks, ord int }
	var wcases []wcase
	for _, n := range widths {
		for ks := range keyShapes {
			for o := range orders {
				if n > 60000 && (ks > 1 || o > 1) {
					continue // the 16-bit boundary: two key shapes x two orders (each case is megabytes of text)
				}
				wcases = append(wcases, wcase{n, ks, o})
			}
		}
	}
	r.Parallel(len(wcases), func(i int) {
		c := wcases[i]
		obj := &refjson.Value{Kind: refjson.Object}
		arr := &refjson.Value{Kind: refjson.Array}
		seen := map[int]bool{}
		var sb, ab strings.Builder
		sb.WriteByte('{')
		ab.WriteByte('[')
		cnt := 0
		for j := 0; j < c.n; j++ {
			idx := orders[c.ord](c.n, j)
			if idx < 0 || idx >= c.n || seen[idx] {
				continue // the order function is not a bijection for this n: keep the text duplicate-free
			}
			seen[idx] = true
			if cnt > 0 {
				sb.WriteByte(',')
				ab.WriteByte(',')
			}
			cnt++
			k := keyShapes[c.ks](idx)
			obj.Members = append(obj.Members, refjson.Member{Key: k, Val: &refjson.Value{Kind: refjson.Number, Num: fmt.Sprint(idx)}})
			arr.Elems = append(arr.Elems, &refjson.Value{Kind: refjson.String, Str: k})
			sb.WriteString(`"` + k + `":` + fmt.Sprint(idx))
			ab.WriteString(`"` + k + `"`)
		}
		sb.WriteByte('}')
		ab.WriteByte(']')
		doText([]byte(sb.String()), obj)
		doText([]byte(ab.String()), arr)
		if c.n < 5000 && c.ks <= 1 {
			// the same members with small objects as values, their own keys out of order: sorting is recursive whatever the
			// order in which the wide object itself arrived
			nobj := &refjson.Value{Kind: refjson.Object}
			var nb strings.Builder
			nb.WriteByte('{')
			for j, m := range obj.Members {
				if j > 0 {
					nb.WriteByte(',')
				}
				inner := &refjson.Value{Kind: refjson.Object, Members: []refjson.Member{{Key: "y", Val: m.Val}, {Key: "x", Val: &refjson.Value{Kind: refjson.Number, Num: "1"}}}}
				nobj.Members = append(nobj.Members, refjson.Member{Key: m.Key, Val: inner})
				nb.WriteString(`"` + m.Key + `":{"y":` + m.Val.Num + `,"x":1}`)
			}
			nb.WriteByte('}')
			doText([]byte(nb.String()), nobj)
		}
		if (c.ks == 3 || c.ord == 1) && c.n < 60000 {
			// nested: as a member value (an event's content.users), inside an array, and next to a second wide object
			doText([]byte(`{"z":1,"content":{"users":`+sb.String()+`,"a":[`+ab.String()+`]},"a":0}`), nil)
			doText([]byte(`[`+sb.String()+`,`+sb.String()+`]`), nil)
		}
	})
	r.Count("F_wide_cases", int64(len(wcases)))
	r.Extra("F_widths", widths)
	r.Extra("bounds", map[string]int{"L_codepoints": L, "K_keys": K, "N_tree_nodes": N, "W_whitespace_deviations": W, "ND_corruption_nodes": ND})
}
