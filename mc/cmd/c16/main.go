// C16 — outbound federation goes only where resolution rules and network policy allow.
package main

import (
	"bufio"
	"bytes"
	"context"
	"encoding/json"
	"errors"
	"fmt"
	"io"
	"net"
	"net/http"
	"net/netip"
	"sort"
	"strconv"
	"strings"
	"sync"
	"time"

	"github.com/matrix-org/gomatrixserverlib/fclient"
	"github.com/matrix-org/gomatrixserverlib/spec"
	"github.com/matrix-org/gomatrixserverlib/verifhook"
	"github.com/miekg/dns"

	"verif/mc/harness"
	"verif/mc/ref/refids"
)

// ---------------------------------------------------------------- policy

type polCase struct {
	Allow, Deny      []string
	Network, Address string
}

func refAllowed(c polCase) bool {
	if c.Network != "tcp4" && c.Network != "tcp6" {
		return false
	}
	ap, err := netip.ParseAddrPort(c.Address)
	if err != nil {
		return false
	}
	a := ap.Addr()
	if a.Zone() != "" {
		return false
	}
	a = a.Unmap()
	in := func(list []string) bool {
		for _, s := range list {
			p, err := netip.ParsePrefix(s)
			if err != nil {
				continue // an unparsable entry neither allows nor denies anything
			}
			pa := p.Addr()
			if pa.Is4In6() {
				continue
			}
			if p.Masked().Contains(a) {
				return true
			}
		}
		return false
	}
	return !in(c.Deny) && in(c.Allow)
}

func checkPolicy(r *harness.Run, c polCase) error {
	r.Eval()
	var err error
	if p, msg := harness.Try(func() { err = fclient.VerifControl(c.Allow, c.Deny, c.Network, c.Address) }); p {
		return fmt.Errorf("control function panics: %s", msg)
	}
	want := refAllowed(c)
	if (err == nil) != want {
		return fmt.Errorf("allow=%q deny=%q %s %s: connection allowed=%v, policy says %v (%v)", c.Allow, c.Deny, c.Network, c.Address, err == nil, want, err)
	}
	if want {
		r.Outcome("policy-allow")
	} else {
		r.Outcome("policy-deny")
	}
	return nil
}

// ---------------------------------------------------------------- resolution stubs

type srvRec struct {
	Target   string
	Port     uint16
	Priority uint16
}

type scenario struct {
	Name      string
	WellKnown string            // absent | 404 | 500 | json:<body> | big-header | big-body | big-padded | exact-50k | neterr
	Headers   map[string]string // extra response headers
	SRV       map[string]string // query name (e.g. "_matrix-fed._tcp.example.org.") -> none | servfail | r1 | r2 | dot...
}

var srvSets = map[string][]srvRec{
	"fed1":  {{"fed.target.org.", 8001, 10}},
	"fed2":  {{"fed-a.target.org.", 8001, 10}, {"fed-b.target.org.", 8002, 20}},
	"old1":  {{"old.target.org.", 4242, 10}},
	"nodot": {{"nodot.target.org", 7000, 10}},
}

var cur struct {
	mu sync.Mutex
	// world, when set, holds one scenario per server name that serves a well-known document of its own (request
	// sequences through one client); sc then only carries the union of the SRV records
	world  map[string]*scenario
	sc     *scenario
	wkHits []string
	dnsQ   []string
}

type wkTransport struct{}

func (wkTransport) RoundTrip(req *http.Request) (*http.Response, error) {
	cur.mu.Lock()
	sc := cur.sc
	cur.wkHits = append(cur.wkHits, req.URL.String())
	cur.mu.Unlock()
	mk := func(code int, body []byte, hdr map[string]string, declared int64) *http.Response {
		h := http.Header{}
		for k, v := range hdr {
			h.Set(k, v)
		}
		if declared >= 0 {
			h.Set("Content-Length", strconv.FormatInt(declared, 10))
		}
		return &http.Response{StatusCode: code, Status: strconv.Itoa(code), Header: h, Body: io.NopCloser(bytes.NewReader(body)), ContentLength: declared, Request: req, Proto: "HTTP/1.1", ProtoMajor: 1, ProtoMinor: 1}
	}
	if req.URL.Path != "/.well-known/matrix/server" || req.URL.Scheme != "https" {
		return mk(404, nil, nil, 0), nil
	}
	cur.mu.Lock()
	world := cur.world
	cur.mu.Unlock()
	if world != nil {
		w, ok := world[req.URL.Host]
		if !ok {
			return mk(404, []byte("{}"), nil, 2), nil
		}
		sc = w
	} else if req.URL.Host != sc.Name {
		// only the scenario's own name serves a well-known document; delegated names never do
		return mk(404, []byte("{}"), nil, 2), nil
	}
	wk := sc.WellKnown
	switch {
	case wk == "absent" || wk == "404":
		return mk(404, []byte(`{"m.server":"wrong.org"}`), nil, -1), nil
	case wk == "500":
		return mk(500, []byte(`{"m.server":"wrong.org"}`), nil, -1), nil
	case wk == "neterr":
		return nil, errors.New("scripted connection failure")
	case strings.HasPrefix(wk, "json:"):
		b := []byte(wk[5:])
		return mk(200, b, sc.Headers, int64(len(b))), nil
	case strings.HasPrefix(wk, "doc:"):
		b, declared := wkDoc(wk)
		n := int64(-1)
		if declared {
			n = int64(len(b))
		}
		return mk(200, b, sc.Headers, n), nil
	case wk == "big-header": // small body, but the server declares more than 50 KiB
		b := []byte(`{"m.server":"delegated.org"}`)
		return mk(200, b, sc.Headers, 51201), nil
	case wk == "big-body": // > 50 KiB of JSON, no Content-Length
		b := []byte(`{"m.server":"delegated.org","pad":"` + strings.Repeat("a", 60000) + `"}`)
		return mk(200, b, sc.Headers, -1), nil
	case wk == "big-padded": // a complete document followed by > 50 KiB of whitespace, no Content-Length
		b := []byte(`{"m.server":"delegated.org"}` + strings.Repeat(" ", 60000))
		return mk(200, b, sc.Headers, -1), nil
	case wk == "exact-50k":
		pad := 51200 - len(`{"m.server":"delegated.org","pad":""}`)
		b := []byte(`{"m.server":"delegated.org","pad":"` + strings.Repeat("a", pad) + `"}`)
		return mk(200, b, sc.Headers, int64(len(b))), nil
	}
	panic("unknown well-known mode " + wk)
}

type dnsHandler struct{}

func (dnsHandler) ServeDNS(w dns.ResponseWriter, rq *dns.Msg) {
	msg := dns.Msg{}
	msg.SetReply(rq)
	q := rq.Question[0]
	cur.mu.Lock()
	sc := cur.sc
	cur.dnsQ = append(cur.dnsQ, fmt.Sprintf("%s/%d", q.Name, q.Qtype))
	cur.mu.Unlock()
	if q.Qtype == dns.TypeSRV {
		mode := sc.SRV[q.Name]
		switch mode {
		case "", "none":
			msg.Rcode = dns.RcodeNameError
		case "empty":
			// NODATA: authoritative NOERROR without answers (e.g. the name exists through a wildcard)
			msg.Authoritative = true
		case "servfail":
			msg.Rcode = dns.RcodeServerFailure
		default:
			msg.Authoritative = true
			for _, rec := range srvSets[mode] {
				msg.Answer = append(msg.Answer, &dns.SRV{Hdr: dns.RR_Header{Name: q.Name, Rrtype: dns.TypeSRV, Class: dns.ClassINET, Ttl: 60}, Priority: rec.Priority, Weight: 0, Port: rec.Port, Target: dns.Fqdn(rec.Target)})
			}
		}
	} else {
		msg.Rcode = dns.RcodeNameError
	}
	_ = w.WriteMsg(&msg)
}

func startDNS() func() {
	udpAddr, err := net.ResolveUDPAddr("udp", "127.0.0.1:0")
	if err != nil {
		panic(err)
	}
	conn, err := net.ListenUDP("udp", udpAddr)
	if err != nil {
		panic(err)
	}
	addr := conn.LocalAddr().String()
	srv := &dns.Server{PacketConn: conn, Handler: dnsHandler{}}
	go func() { _ = srv.ActivateAndServe() }()
	old := net.DefaultResolver
	net.DefaultResolver = &net.Resolver{PreferGo: true, Dial: func(ctx context.Context, network, address string) (net.Conn, error) {
		return net.Dial("udp", addr)
	}}
	return func() { _ = srv.Shutdown(); net.DefaultResolver = old }
}

// ---------------------------------------------------------------- reference resolution

type rr struct{ Dest, Host, SNI string }

// refResolve returns the expected results; either=true where the specification leaves the outcome open
// (a DNS failure other than "not found", or a delegated name that is itself invalid).
func refResolve(sc *scenario) (out []rr, wantErr bool, either bool) {
	return refStep(sc, sc.Name, true)
}

func ipLiteral(host string) (string, bool) {
	h := host
	if strings.HasPrefix(h, "[") && strings.HasSuffix(h, "]") {
		h = h[1 : len(h)-1]
	}
	if a, err := netip.ParseAddr(h); err == nil && a.Zone() == "" {
		return h, true
	}
	return "", false
}

func refStep(sc *scenario, name string, wellKnown bool) (out []rr, wantErr bool, either bool) {
	host, port, ok := refids.ServerName(name)
	if !ok {
		return nil, true, false
	}
	if ip, isIP := ipLiteral(host); isIP {
		d := name
		if port == -1 {
			d = net.JoinHostPort(ip, "8448")
		}
		return []rr{{d, name, ip}}, false, false
	}
	if port != -1 {
		return []rr{{name, name, host}}, false, false
	}
	if wellKnown {
		if d, honoured, open := refWellKnown(sc); honoured {
			res, e, ei := refStep(sc, d, false)
			if e {
				return nil, true, true // delegated name invalid: error or falling back are both defensible
			}
			return res, false, ei || open
		} else if open {
			either = true
		}
	}
	for _, svc := range []string{"_matrix-fed", "_matrix"} {
		mode := sc.SRV[svc+"._tcp."+name+"."]
		switch mode {
		case "", "none", "empty":
			continue
		case "servfail":
			// unspecified: the library stops looking and uses port 8448
			return []rr{{name + ":8448", name, name}}, false, true
		}
		recs := append([]srvRec(nil), srvSets[mode]...)
		sort.Slice(recs, func(i, j int) bool { return recs[i].Priority < recs[j].Priority })
		for _, r := range recs {
			out = append(out, rr{fmt.Sprintf("%s:%d", strings.TrimSuffix(r.Target, "."), r.Port), name, name})
		}
		return out, false, either
	}
	return []rr{{name + ":8448", name, name}}, false, either
}

// refWellKnown: (delegated name, honoured, open) — honoured iff status 200, at most 50 KiB, JSON with a non-empty m.server
// wkDoc decodes the mode "doc:<cl|nocl>:<pad>:<trailer>": the document {"m.server":"delegated.org"} followed by <pad> spaces
// and the trailer, sent with or without a Content-Length.
func wkDoc(wk string) (body []byte, declared bool) {
	parts := strings.SplitN(wk, ":", 4)
	n, _ := strconv.Atoi(parts[2])
	return []byte(`{"m.server":"delegated.org"}` + strings.Repeat(" ", n) + parts[3]), parts[1] == "cl"
}

func refWellKnown(sc *scenario) (string, bool, bool) {
	wk := sc.WellKnown
	switch {
	case strings.HasPrefix(wk, "doc:"):
		b, _ := wkDoc(wk)
		if len(b) > 51200 || !json.Valid(b) {
			return "", false, false
		}
		return "delegated.org", true, false
	case strings.HasPrefix(wk, "json:"):
		var v struct {
			M interface{} `json:"m.server"`
		}
		if err := json.Unmarshal([]byte(wk[5:]), &v); err != nil {
			return "", false, false
		}
		s, ok := v.M.(string)
		if !ok || s == "" {
			return "", false, false
		}
		return s, true, false
	case wk == "exact-50k":
		return "delegated.org", true, false
	}
	return "", false, false
}

func checkResolve(r *harness.Run, sc *scenario) error {
	r.Eval()
	cur.mu.Lock()
	cur.sc, cur.wkHits, cur.dnsQ = sc, nil, nil
	cur.mu.Unlock()
	var got []fclient.ResolutionResult
	var err error
	if p, msg := harness.Try(func() { got, err = fclient.ResolveServer(context.Background(), spec.ServerName(sc.Name)) }); p {
		return fmt.Errorf("ResolveServer panics: %s", msg)
	}
	want, wantErr, either := refResolve(sc)
	if wantErr && !either {
		if err == nil {
			return fmt.Errorf("invalid server name %q resolved to %+v", sc.Name, got)
		}
		r.Outcome("refused")
		return nil
	}
	if either {
		r.Outcome("unspecified-either")
		// still: whatever comes back must be one of the defensible answers
		if err != nil {
			return nil
		}
		alt := *sc
		alt.SRV = map[string]string{}
		for k, v := range sc.SRV {
			if v != "servfail" {
				alt.SRV[k] = v
			}
		}
		w2, _, _ := refResolve(&alt)
		if !sameRR(got, want) && !sameRR(got, w2) {
			return fmt.Errorf("%+v: got %+v, expected %+v or %+v", sc, got, want, w2)
		}
		return nil
	}
	if err != nil {
		return fmt.Errorf("%+v: ResolveServer error %v, expected %+v", sc, err, want)
	}
	if !sameRR(got, want) {
		return fmt.Errorf("%+v: got %+v, specification gives %+v", sc, got, want)
	}
	// delegated resolution must not look up a second well-known document
	cur.mu.Lock()
	hits := append([]string(nil), cur.wkHits...)
	cur.mu.Unlock()
	if len(hits) > 1 {
		return fmt.Errorf("%+v: %d well-known lookups %v", sc, len(hits), hits)
	}
	r.Outcome(fmt.Sprintf("resolved-%d", len(want)))
	r.Nontrivial(harness.J(sc))
	return nil
}

func sameRR(got []fclient.ResolutionResult, want []rr) bool {
	if len(got) != len(want) {
		return false
	}
	for i := range got {
		if got[i].Destination != want[i].Dest || string(got[i].Host) != want[i].Host || got[i].TLSServerName != want[i].SNI {
			return false
		}
	}
	return true
}

// ---------------------------------------------------------------- well-known acceptance and cache lifetime

var vnow = time.Unix(1_700_000_000, 0)

type wkCase struct {
	Mode    string
	Headers map[string]string
}

func checkWellKnown(r *harness.Run, c wkCase) error {
	r.Eval()
	sc := &scenario{Name: "example.org", WellKnown: c.Mode, Headers: c.Headers}
	cur.mu.Lock()
	cur.sc = sc
	cur.mu.Unlock()
	var res *fclient.WellKnownResult
	var err error
	if p, msg := harness.Try(func() { res, err = fclient.LookupWellKnown(context.Background(), "example.org") }); p {
		return fmt.Errorf("LookupWellKnown panics: %s", msg)
	}
	want, honoured, _ := refWellKnown(sc)
	if honoured != (err == nil) {
		return fmt.Errorf("well-known %q: honoured=%v, expected %v (%v)", c.Mode, err == nil, honoured, err)
	}
	if !honoured {
		r.Outcome("wk-ignored")
		return nil
	}
	r.Outcome("wk-honoured")
	if string(res.NewAddress) != want {
		return fmt.Errorf("well-known: delegated to %q, expected %q", res.NewAddress, want)
	}
	// lifetime: max-age (first valid one) in preference to Expires, else 0
	exp := int64(0)
	if e := c.Headers["Expires"]; e != "" {
		if t, err := http.ParseTime(e); err == nil {
			exp = t.Unix()
		}
	}
	if cc := c.Headers["Cache-Control"]; cc != "" {
		for _, d := range strings.Split(cc, ",") {
			d = strings.TrimSpace(d)
			if i := strings.IndexByte(d, '='); i > 0 && strings.EqualFold(strings.TrimSpace(d[:i]), "max-age") {
				if n, err := strconv.ParseInt(strings.TrimSpace(d[i+1:]), 10, 64); err == nil && n >= 0 {
					exp = vnow.Unix() + n
				}
			}
		}
	}
	if res.CacheExpiresAt != exp {
		return fmt.Errorf("well-known with headers %v: cache expiry %d, expected %d (now %d)", c.Headers, res.CacheExpiresAt, exp, vnow.Unix())
	}
	r.Nontrivial("wk:" + harness.J(c))
	return nil
}

// ---------------------------------------------------------------- dispatch: what actually goes on the wire

type attempt struct{ SNI, Addr, Host string }

type dispCase struct {
	Scenario scenario
	Pass1    []bool // per target: connection succeeds?
	Pass2    []bool
}

func checkDispatch(r *harness.Run, c dispCase) error {
	r.Eval()
	sc := c.Scenario
	cur.mu.Lock()
	cur.sc, cur.wkHits, cur.dnsQ, cur.world = &sc, nil, nil, nil
	cur.mu.Unlock()
	targets, wantErr, either := refResolve(&sc)
	if wantErr || either {
		return nil
	}
	var mu sync.Mutex
	var seen []attempt
	pass := 0
	idxInPass := 0
	tr := fclient.VerifNewTripper(true)
	mk := func(sni string) *http.Transport {
		return &http.Transport{DisableKeepAlives: true, DialTLSContext: func(ctx context.Context, network, addr string) (net.Conn, error) {
			mu.Lock()
			defer mu.Unlock()
			ok := false
			plan := c.Pass1
			if pass == 1 {
				plan = c.Pass2
			}
			if idxInPass < len(plan) {
				ok = plan[idxInPass]
			}
			at := attempt{SNI: sni, Addr: addr}
			idxInPass++
			if idxInPass >= len(targets) && !ok {
				pass, idxInPass = pass+1, 0
			}
			if !ok {
				seen = append(seen, at)
				return nil, errors.New("scripted connection failure")
			}
			cl, sv := net.Pipe()
			pos := len(seen)
			seen = append(seen, at)
			go func() {
				defer sv.Close()
				req, err := http.ReadRequest(bufioReader(sv))
				if err != nil {
					return
				}
				mu.Lock()
				seen[pos].Host = req.Host
				mu.Unlock()
				_, _ = sv.Write([]byte("HTTP/1.1 200 OK\r\nContent-Length: 2\r\nConnection: close\r\n\r\n{}"))
			}()
			return cl, nil
		}}
	}
	names := map[string]bool{}
	for _, t := range targets {
		names[t.SNI] = true
	}
	// also every name a wrong implementation might ask for: destinations and hosts
	for _, t := range targets {
		names[t.Dest], names[t.Host] = true, true
		if h, _, err := net.SplitHostPort(t.Dest); err == nil {
			names[h] = true
		}
	}
	names[""] = true
	for n := range names {
		tr.SetTransport(n, mk(n))
	}
	req, _ := http.NewRequest("GET", "matrix://"+sc.Name+"/_matrix/federation/v1/version", nil)
	var resp *http.Response
	var err error
	if p, msg := harness.Try(func() { resp, err = tr.RoundTrip(req) }); p {
		return fmt.Errorf("RoundTrip panics: %s", msg)
	}
	if resp != nil {
		_, _ = io.ReadAll(resp.Body)
		_ = resp.Body.Close()
	}
	// expected attempts
	var want []attempt
	succeeded := false
	for p, plan := range [][]bool{c.Pass1, c.Pass2} {
		_ = p
		for i, t := range targets {
			ok := i < len(plan) && plan[i]
			a := attempt{SNI: t.SNI, Addr: t.Dest}
			if ok {
				a.Host = t.Host
			}
			want = append(want, a)
			if ok {
				succeeded = true
				break
			}
		}
		if succeeded {
			break
		}
	}
	mu.Lock()
	got := append([]attempt(nil), seen...)
	mu.Unlock()
	if succeeded != (err == nil) {
		return fmt.Errorf("%s with plan %v/%v: request success=%v, expected %v (%v)", sc.Name, c.Pass1, c.Pass2, err == nil, succeeded, err)
	}
	if len(got) != len(want) {
		return fmt.Errorf("%s with plan %v/%v: connection attempts %+v, expected %+v", sc.Name, c.Pass1, c.Pass2, got, want)
	}
	for i := range got {
		if got[i] != want[i] {
			return fmt.Errorf("%s with plan %v/%v: attempt %d was %+v, the specification assigns %+v (all: %+v)", sc.Name, c.Pass1, c.Pass2, i, got[i], want[i], got)
		}
	}
	r.Outcome(fmt.Sprintf("dispatch-%d-attempts", len(got)))
	r.Nontrivial("disp:" + harness.J(c))
	return nil
}

// seqCase: several requests through ONE client (one transport cache, one resolution cache). Every name resolves as it
// would on its own: what was learnt while talking to one server says nothing about another, even when the first delegated
// to the second.
type seqCase struct {
	World    map[string]string // server name -> well-known mode of that name (absent = serves none)
	SRV      map[string]string
	Requests []string
}

func checkDispatchSeq(r *harness.Run, c seqCase) error {
	r.Eval()
	world := map[string]*scenario{}
	for n, wk := range c.World {
		world[n] = &scenario{Name: n, WellKnown: wk, SRV: c.SRV}
	}
	union := scenario{Name: "", WellKnown: "absent", SRV: c.SRV}
	cur.mu.Lock()
	cur.sc, cur.wkHits, cur.dnsQ, cur.world = &union, nil, nil, world
	cur.mu.Unlock()
	defer func() {
		cur.mu.Lock()
		cur.world = nil
		cur.mu.Unlock()
	}()
	var mu sync.Mutex
	var seen []attempt
	tr := fclient.VerifNewTripper(true)
	mk := func(sni string) *http.Transport {
		return &http.Transport{DisableKeepAlives: true, DialTLSContext: func(ctx context.Context, network, addr string) (net.Conn, error) {
			cl, sv := net.Pipe()
			mu.Lock()
			pos := len(seen)
			seen = append(seen, attempt{SNI: sni, Addr: addr})
			mu.Unlock()
			go func() {
				defer sv.Close()
				req, err := http.ReadRequest(bufioReader(sv))
				if err != nil {
					return
				}
				mu.Lock()
				seen[pos].Host = req.Host
				mu.Unlock()
				_, _ = sv.Write([]byte("HTTP/1.1 200 OK\r\nContent-Length: 2\r\nConnection: close\r\n\r\n{}"))
			}()
			return cl, nil
		}}
	}
	// expected first target per request, each name resolved on its own
	var want []attempt
	names := map[string]bool{"": true}
	for _, name := range c.Requests {
		sc := world[name]
		if sc == nil {
			sc = &scenario{Name: name, WellKnown: "absent", SRV: c.SRV}
		}
		targets, wantErr, either := refResolve(sc)
		if wantErr || either || len(targets) == 0 {
			return nil
		}
		want = append(want, attempt{SNI: targets[0].SNI, Addr: targets[0].Dest, Host: targets[0].Host})
	}
	for n := range c.World {
		names[n] = true
	}
	for _, w := range want {
		names[w.SNI], names[w.Host], names[w.Addr] = true, true, true
		if h, _, err := net.SplitHostPort(w.Addr); err == nil {
			names[h] = true
		}
	}
	for n := range names {
		tr.SetTransport(n, mk(n))
	}
	for i, name := range c.Requests {
		req, _ := http.NewRequest("GET", "matrix://"+name+"/_matrix/federation/v1/version", nil)
		var resp *http.Response
		var err error
		if p, msg := harness.Try(func() { resp, err = tr.RoundTrip(req) }); p {
			return fmt.Errorf("RoundTrip panics: %s", msg)
		}
		if resp != nil {
			_, _ = io.ReadAll(resp.Body)
			_ = resp.Body.Close()
		}
		if err != nil {
			return fmt.Errorf("requests %v: request %d (to %s) failed: %v", c.Requests, i, name, err)
		}
		mu.Lock()
		got := append([]attempt(nil), seen...)
		mu.Unlock()
		if len(got) != i+1 {
			return fmt.Errorf("requests %v: after request %d (to %s) the connection attempts are %+v, expected %+v", c.Requests, i, name, got, want[:i+1])
		}
		if got[i] != want[i] {
			return fmt.Errorf("requests %v through one client: request %d (to %s) went to %+v, the specification assigns %+v (well-known documents %v)", c.Requests, i, name, got[i], want[i], c.World)
		}
	}
	r.Outcome(fmt.Sprintf("dispatch-seq-%d", len(c.Requests)))
	r.Nontrivial("dispseq:" + harness.J(c))
	return nil
}

func bufioReader(c net.Conn) *bufio.Reader { return bufio.NewReader(c) }

func main() { harness.Main("C16", "model_checking", run) }

func run(r *harness.Run) {
	verifhook.Clock = func() time.Time { return vnow }
	http.DefaultTransport = wkTransport{}
	stop := startDNS()
	defer stop()
	r.Rule("(policy) every allow list x deny list of <= K entries over 10 CIDR entries (v4/v6 ranges, nested ranges, host-bits-set, unparsable entries in every position) x 22 addresses on and around every range edge (incl. IPv4-mapped IPv6, zones, malformed host:port) x 6 network types, through the real dialer control function, vs a net/netip reference; (resolution) 14 server names x 13 well-known outcomes x every assignment of {none, empty, servfail, one record, several records, trailing-dot/no-dot targets} to the _matrix-fed and _matrix SRV names of the server and of the delegated name, through the real ResolveServer with http.DefaultTransport / net.DefaultResolver replaced by in-process stubs, vs the specification's steps (destination, Host, TLS name per step; no second well-known lookup); (well-known) every outcome x 12 cache-header combinations through LookupWellKnown under a virtual clock; (dispatch) 9 resolution shapes x every success/failure plan of the first and the retry pass through the real transport cache's RoundTrip with scripted in-memory connections: the address dialled, the TLS server name and the Host header of every attempt vs the specification; sequences of 2-3 requests over 4 names through ONE client in worlds where two names serve well-known documents of their own (4 x 3 documents x 3 SRV sets): every request must go where its name resolves on its own. Non-trivial = distinct resolved scenario.")
	r.Assume("net/netip decides CIDR membership", "a DNS failure other than not-found on _matrix-fed and a delegated name that is itself invalid are unspecified: either outcome is accepted", "SRV records of equal priority are shuffled by Go's resolver: test records have distinct priorities")
	r.OnReplay("policy", func(raw json.RawMessage) error {
		var c polCase
		_ = json.Unmarshal(raw, &c)
		return checkPolicy(r, c)
	})
	r.OnReplay("resolve", func(raw json.RawMessage) error {
		var sc scenario
		_ = json.Unmarshal(raw, &sc)
		return checkResolve(r, &sc)
	})
	r.OnReplay("wellknown", func(raw json.RawMessage) error {
		var c wkCase
		_ = json.Unmarshal(raw, &c)
		return checkWellKnown(r, c)
	})
	r.OnReplay("dispatch-seq", func(raw json.RawMessage) error {
		var c seqCase
		if err := json.Unmarshal(raw, &c); err != nil {
			return err
		}
		return checkDispatchSeq(r, c)
	})
	r.OnReplay("dispatch", func(raw json.RawMessage) error {
		var c dispCase
		_ = json.Unmarshal(raw, &c)
		return checkDispatch(r, c)
	})
	if r.Replaying() {
		return
	}
	// policy
	entries := []string{"0.0.0.0/0", "10.0.0.0/8", "10.1.0.0/16", "10.1.2.3/16", "::/0", "fc00::/7", "bad", "10.0.0.0/33", "10.0.0.1", ""}
	K := r.Pick(2, 3)
	var lists [][]string
	var gl func(cur []string)
	gl = func(cur []string) {
		lists = append(lists, append([]string(nil), cur...))
		if len(cur) == K {
			return
		}
		for _, e := range entries {
			gl(append(cur, e))
		}
	}
	gl(nil)
	addrs := []string{"9.255.255.255:1", "10.0.0.0:1", "10.0.255.255:1", "10.1.0.0:1", "10.1.255.255:1", "10.2.0.0:1", "10.255.255.255:1", "11.0.0.0:1", "127.0.0.1:8448", "0.0.0.0:1", "255.255.255.255:1",
		"[::1]:1", "[fbff:ffff:ffff:ffff:ffff:ffff:ffff:ffff]:1", "[fc00::]:1", "[fdff:ffff:ffff:ffff:ffff:ffff:ffff:ffff]:1", "[fe00::]:1", "[::ffff:10.0.0.1]:1", "[::ffff:11.0.0.1]:1", "[fe80::1%eth0]:1",
		"10.0.0.1", "example.org:80", ""}
	nets := []string{"tcp4", "tcp6", "tcp", "udp4", "unix", ""}
	r.Parallel(len(lists), func(i int) {
		for _, deny := range lists {
			for _, a := range addrs {
				for ni, n := range nets {
					if ni >= 2 && (len(lists[i]) > 1 || len(deny) > 1) {
						continue // other network types are refused before the lists are read: probe them on the short lists only
					}
					c := polCase{lists[i], deny, n, a}
					if err := checkPolicy(r, c); err != nil {
						r.Violation(fmt.Sprintf("policy:%q:%q:%s:%s", c.Allow, c.Deny, n, a), err.Error(), "policy", c)
					}
				}
			}
		}
	})
	r.Count("policy_lists", int64(len(lists)))
	r.Sample("policy", polCase{[]string{"0.0.0.0/0"}, []string{"bad", "10.0.0.0/8"}, "tcp4", "10.0.0.1:8448"})
	// a client configured with any list installs the control function
	for _, l := range [][2][]string{{{"0.0.0.0/0"}, nil}, {nil, {"10.0.0.0/8"}}, {{"bad"}, nil}} {
		r.Eval()
		if !fclient.VerifDialerHasControl(l[0], l[1]) {
			r.Violation(fmt.Sprintf("policy-not-installed:%q:%q", l[0], l[1]), "client configured with allow/deny lists has no dial control", "none", nil)
		}
	}
	// resolution
	names := []string{"example.org", "sub.example.org", "example.org:8449", "example.org:0", "1.2.3.4", "1.2.3.4:8449", "[::1]", "[::1]:8449", "[2001:db8::1]", "exa mple.org", "", "example.org:99999", "[::1", "::1"}
	wks := []string{"absent", "404", "500", "neterr", `json:{"m.server":"delegated.org"}`, `json:{"m.server":"delegated.org:8443"}`, `json:{"m.server":"5.6.7.8"}`, `json:{"m.server":"[::2]:99"}`, `json:{"m.server":"[::2]"}`, `json:{}`, `json:{"m.server":""}`, `json:{`, `json:{"m.server":5}`, "big-header", "big-body", "big-padded", "exact-50k", `json:{"m.server":"not valid!"}`}
	srvModes := []string{"none", "empty", "servfail", "fed1", "fed2", "old1", "nodot"}
	var scs []*scenario
	for _, n := range names {
		for _, wk := range wks {
			host, port, ok := refids.ServerName(n)
			_, isIP := ipLiteral(host)
			if !ok || isIP || port != -1 {
				// well-known and SRV are never consulted: one scenario with everything "hot" proves it
				scs = append(scs, &scenario{Name: n, WellKnown: wk, SRV: map[string]string{"_matrix-fed._tcp." + n + ".": "fed1", "_matrix._tcp." + n + ".": "old1"}})
				continue
			}
			for _, f := range srvModes {
				for _, o := range srvModes {
					for _, df := range []string{"none", "fed2", "servfail"} {
						for _, do := range []string{"none", "old1"} {
							if (df != "none" || do != "none") && !strings.Contains(wk, "delegated.org\"") && wk != "exact-50k" {
								continue // delegated SRV records only matter when delegation to a bare hostname is honoured
							}
							scs = append(scs, &scenario{Name: n, WellKnown: wk, SRV: map[string]string{
								"_matrix-fed._tcp." + n + ".": f, "_matrix._tcp." + n + ".": o,
								"_matrix-fed._tcp.delegated.org.": df, "_matrix._tcp.delegated.org.": do}})
						}
					}
				}
			}
		}
	}
	if r.Quick() {
		// SERVFAIL makes Go's resolver retry with back-off: keep one representative per (name, well-known) in the quick tier
		var keep []*scenario
		seen := map[string]bool{}
		for _, s := range scs {
			sf := false
			for _, v := range s.SRV {
				if v == "servfail" {
					sf = true
				}
			}
			k := s.Name + "|" + s.WellKnown
			if sf && seen[k] {
				continue
			}
			if sf {
				seen[k] = true
			}
			keep = append(keep, s)
		}
		scs = keep
	}
	for _, sc := range scs { // process-global stubs: sequential
		if err := checkResolve(r, sc); err != nil {
			r.Violation("resolve:"+harness.J(sc), err.Error(), "resolve", sc)
		}
	}
	r.Count("resolution_scenarios", int64(len(scs)))
	r.Sample("resolve", scs[len(scs)/2])
	// dispatch: Host header / TLS name / address of every connection attempt, including the retry pass
	var disp []dispCase
	dnames := []struct {
		name, wk string
		srv      map[string]string
	}{
		{"1.2.3.4", "absent", nil}, {"[::1]:8449", "absent", nil}, {"example.org:8449", "absent", nil}, {"example.org", "absent", nil},
		{"example.org", "absent", map[string]string{"_matrix-fed._tcp.example.org.": "fed2"}},
		{"example.org", "absent", map[string]string{"_matrix._tcp.example.org.": "old1"}},
		{"example.org", `json:{"m.server":"delegated.org:8443"}`, nil},
		{"example.org", `json:{"m.server":"delegated.org"}`, map[string]string{"_matrix-fed._tcp.delegated.org.": "fed2"}},
		{"example.org", `json:{"m.server":"5.6.7.8"}`, nil},
	}
	for _, d := range dnames {
		sc := scenario{Name: d.name, WellKnown: d.wk, SRV: d.srv}
		if sc.SRV == nil {
			sc.SRV = map[string]string{}
		}
		tg, _, _ := refResolve(&sc)
		n := len(tg)
		for m1 := 0; m1 < 1<<n; m1++ {
			for m2 := 0; m2 < 1<<n; m2++ {
				p1, p2 := make([]bool, n), make([]bool, n)
				for i := 0; i < n; i++ {
					p1[i], p2[i] = m1&(1<<i) != 0, m2&(1<<i) != 0
				}
				disp = append(disp, dispCase{sc, p1, p2})
			}
		}
	}
	for _, c := range disp {
		if err := checkDispatch(r, c); err != nil {
			r.Violation("dispatch:"+harness.J(c), err.Error(), "dispatch", c)
		}
	}
	// request sequences through one client: what one name delegated to must not be taken for the resolution of another
	var seqs []seqCase
	wkA := []string{`json:{"m.server":"b.org"}`, `json:{"m.server":"b.org:8443"}`, `json:{"m.server":"c.org"}`, "absent"}
	wkB := []string{`json:{"m.server":"c.org:443"}`, `json:{"m.server":"a.org"}`, "absent"}
	srvB := []map[string]string{{}, {"_matrix-fed._tcp.b.org.": "fed1"}, {"_matrix._tcp.b.org.": "old1", "_matrix-fed._tcp.c.org.": "fed2"}}
	reqNames := []string{"a.org", "b.org", "c.org", "b.org:8443"}
	var seqNames [][]string
	for _, x := range reqNames {
		for _, y := range reqNames {
			seqNames = append(seqNames, []string{x, y})
			for _, z := range reqNames {
				if r.Thorough() || z == x {
					seqNames = append(seqNames, []string{x, y, z})
				}
			}
		}
	}
	for _, a := range wkA {
		for _, b := range wkB {
			for _, srv := range srvB {
				for _, rq := range seqNames {
					seqs = append(seqs, seqCase{World: map[string]string{"a.org": a, "b.org": b}, SRV: srv, Requests: rq})
				}
			}
		}
	}
	for _, c := range seqs {
		if err := checkDispatchSeq(r, c); err != nil {
			r.Violation("dispatch-seq:"+harness.J(c), err.Error(), "dispatch-seq", c)
		}
	}
	r.Count("dispatch_sequences", int64(len(seqs)))
	r.Count("dispatch_cases", int64(len(disp)))
	r.Sample("dispatch", disp[len(disp)/2])
	// well-known acceptance + lifetime
	hdrs := []map[string]string{nil, {"Expires": "Wed, 15 Nov 2023 00:00:00 GMT"}, {"Cache-Control": "max-age=60"}, {"Cache-Control": "max-age=60", "Expires": "Wed, 15 Nov 2023 00:00:00 GMT"},
		{"Cache-Control": "public, max-age=3600"}, {"Cache-Control": "MAX-AGE=5"}, {"Cache-Control": "max-age=abc", "Expires": "Wed, 15 Nov 2023 00:00:00 GMT"}, {"Cache-Control": "no-cache"},
		{"Cache-Control": "max-age=0", "Expires": "Wed, 15 Nov 2023 00:00:00 GMT"}, {"Expires": "not a date"}, {"Cache-Control": "s-maxage=10, max-age=20"}, {"Cache-Control": "max-age=86400,private"}}
	for _, wk := range wks {
		for _, h := range hdrs {
			c := wkCase{wk, h}
			if err := checkWellKnown(r, c); err != nil {
				r.Violation("wellknown:"+harness.J(c), err.Error(), "wellknown", c)
			}
		}
	}
	// documents with something after the closing brace, at every distance that matters to a reader working in blocks (the
	// first block, the 512-byte and 4 KiB buffer sizes, the 50 KiB limit itself), with and without a Content-Length
	docN := 0
	base := len(`{"m.server":"delegated.org"}`)
	for _, framing := range []string{"cl", "nocl"} {
		for _, pad := range []int{0, 1, 512 - base - 1, 512 - base, 512, 4096 - base, 4096, 51200 - base - 1, 51200 - base, 51200 - base + 1, 60000} {
			for _, trailer := range []string{"", "}", "]", " }", "\n]", "x", "{}", ",", "\"", "0", "null", `{"m.server":"other.org"}`, "}}", "\x00"} {
				for _, h := range []map[string]string{nil, {"Cache-Control": "max-age=60"}} {
					c := wkCase{fmt.Sprintf("doc:%s:%d:%s", framing, pad, trailer), h}
					docN++
					if err := checkWellKnown(r, c); err != nil {
						r.Violation("wellknown:"+harness.J(c), err.Error(), "wellknown", c)
					}
				}
			}
		}
	}
	r.Count("wellknown_documents_with_trailers", int64(docN))
	r.Sample("wellknown", wkCase{"big-padded", nil})
}
