// C08 — power-level changes can never escalate privilege.
// (i) one-step: exhaustive (current content, proposed content) pairs around the
// sender's level; (ii) histories: explicit-state BFS over accepted power-level
// events. The oracle is an invariant computed directly from the two contents;
// it does not use the reference auth rules.
package main

import (
	"encoding/json"
	"fmt"
	"sort"
	"strconv"
	"strings"

	gmsl "github.com/matrix-org/gomatrixserverlib"
	"github.com/matrix-org/gomatrixserverlib/spec"

	"verif/mc/authgen"
	"verif/mc/evgen"
	"verif/mc/harness"
	"verif/mc/ref/refjson"
	"verif/mc/ref/refversions"
)

const (
	C = "@c:a.org"
	S = "@s:a.org"
	O = "@o:a.org" // another user
	P = "@p:a.org" // a third user
	L = int64(50)  // the sender's level in the one-step exploration
)

// pl is a power-levels content as key -> level (absent keys are absent).
// keys: scalar names, "events/<type>", "notifications/<k>", "users/<id>"
type pl map[string]int64

var scalarDefaults = map[string]int64{"ban": 50, "kick": 50, "invite": 0, "redact": 50, "events_default": 0, "state_default": 50, "users_default": 0}

func (p pl) json() string {
	var parts []string
	sub := map[string][]string{}
	keys := make([]string, 0, len(p))
	for k := range p {
		keys = append(keys, k)
	}
	sort.Strings(keys)
	for _, k := range keys {
		if i := strings.IndexByte(k, '/'); i >= 0 {
			sub[k[:i]] = append(sub[k[:i]], fmt.Sprintf("%q:%d", k[i+1:], p[k]))
		} else {
			parts = append(parts, fmt.Sprintf("%q:%d", k, p[k]))
		}
	}
	for _, m := range []string{"events", "notifications", "users"} {
		if len(sub[m]) > 0 {
			parts = append(parts, fmt.Sprintf("%q:{%s}", m, strings.Join(sub[m], ",")))
		}
	}
	return "{" + strings.Join(parts, ",") + "}"
}

func (p pl) clone() pl {
	n := pl{}
	for k, v := range p {
		n[k] = v
	}
	return n
}

// effective quantities of a content (nil content = no power-levels event)
type eff struct {
	scalar   map[string]int64
	p        pl
	none     bool
	creators map[string]int64 // fixed levels that do not come from the content
}

func effective(p pl, none bool, creators map[string]int64) eff {
	return eff{scalarDefaults, p, none, creators}
}

func (e eff) sc(k string) int64 {
	if v, ok := e.p[k]; ok && !e.none {
		return v
	}
	return e.scalar[k]
}
func (e eff) user(u string) int64 {
	if v, ok := e.creators[u]; ok {
		return v
	}
	if e.none {
		return 0
	}
	if v, ok := e.p["users/"+u]; ok {
		return v
	}
	return e.sc("users_default")
}
func (e eff) event(t string, state bool) int64 {
	if v, ok := e.p["events/"+t]; ok && !e.none {
		return v
	}
	if state {
		return e.sc("state_default")
	}
	return e.sc("events_default")
}
func (e eff) notif(k string) int64 {
	if v, ok := e.p["notifications/"+k]; ok && !e.none {
		return v
	}
	return 50
}

// invariant returns "" if the accepted change (old -> new by sender) escalates nothing.
func invariant(version string, old, nw eff, sender string, creatorsNamed []string) string {
	row := refversions.Get(version)
	lv := old.user(sender)
	chk := func(what string, o, n int64, otherUser bool) string {
		if o == n {
			return ""
		}
		if n > lv {
			return fmt.Sprintf("%s set to %d, above the sender's level %d", what, n, lv)
		}
		if o > lv {
			return fmt.Sprintf("%s changed from %d, which is above the sender's level %d", what, o, lv)
		}
		if otherUser && o >= lv {
			return fmt.Sprintf("%s changed from %d, which is not below the sender's level %d", what, o, lv)
		}
		return ""
	}
	for k := range scalarDefaults {
		if s := chk(k, old.sc(k), nw.sc(k), false); s != "" {
			return s
		}
	}
	names := func(prefix string) []string {
		set := map[string]bool{}
		for _, e := range []eff{old, nw} {
			for k := range e.p {
				if strings.HasPrefix(k, prefix) {
					set[k[len(prefix):]] = true
				}
			}
		}
		var out []string
		for k := range set {
			out = append(out, k)
		}
		sort.Strings(out)
		return out
	}
	for _, t := range names("events/") {
		// the threshold of an event type is its entry or, without one, events_default (the library deliberately judges
		// a missing entry by the default it falls back to: adding "m.x": 0 under events_default 100 LOWERS a threshold
		// of 100, removing "m.x": 10 under events_default 100 RAISES it to 100)
		if s := chk("events."+t, old.event(t, false), nw.event(t, false), false); s != "" {
			return s
		}
	}
	if row.NotificationsChecked {
		for _, k := range append(names("notifications/"), "room") {
			if s := chk("notifications."+k, old.notif(k), nw.notif(k), false); s != "" {
				return s
			}
		}
	}
	for _, u := range names("users/") {
		// users with an entry (before or after): effective levels, so that removing an entry is judged by the level the user falls to
		if s := chk("level of "+u, old.user(u), nw.user(u), u != sender); s != "" {
			return s
		}
	}
	// users without any entry follow users_default, which is judged as a threshold above (a peer of the sender at the
	// default level may be demoted by lowering users_default: that is the specification's rule)
	if row.PrivilegedCreators {
		for _, c := range creatorsNamed {
			if _, ok := nw.p["users/"+c]; ok {
				return "accepted power-levels event names the creator " + c
			}
		}
	}
	return ""
}

type stepCase struct {
	Version  string
	Sender   string
	OldNone  bool
	Old, New pl
	RawNew   string // overrides New.json() (non-integer levels)
	Pseudo   bool   `json:",omitempty"` // pseudo-ID room version only: sender IDs distinct from user IDs
}

func creatorsFor(version string) (map[string]int64, []string, string) {
	row := refversions.Get(version)
	if row.PrivilegedCreators {
		return map[string]int64{C: 1 << 53, "@d:a.org": 1 << 53}, []string{C, "@d:a.org"}, `,"additional_creators":["@d:a.org"]`
	}
	return nil, nil, ""
}

func runStep(r *harness.Run, c stepCase) (accepted bool, err error) {
	r.Eval()
	creators, named, extra := creatorsFor(c.Version)
	st := []authgen.SE{{ID: authgen.CreateID, Type: "m.room.create", StateKey: "", Sender: C, Content: `{"creator":"` + C + `","room_version":"` + c.Version + `"` + extra + `}`}}
	for _, u := range []string{C, S, O, P} {
		st = append(st, authgen.SE{ID: "$m" + strings.NewReplacer("@", "", ":", "_", ".", "_").Replace(u) + strings.Repeat("m", 30), Type: "m.room.member", StateKey: u, Sender: u, Content: `{"membership":"join"}`})
	}
	if !c.OldNone {
		st = append(st, authgen.SE{ID: "$pl" + strings.Repeat("p", 41), Type: "m.room.power_levels", StateKey: "", Sender: C, Content: c.Old.json()})
	}
	content := c.New.json()
	if c.RawNew != "" {
		content = c.RawNew
	}
	sc := authgen.Scenario{Version: c.Version, State: st, Event: authgen.Ev{Type: "m.room.power_levels", StateKey: evgen.S(""), Sender: c.Sender, Content: content, Prev: []string{"$p" + strings.Repeat("x", 42)}}}
	var verdict, berr error
	if p, msg := harness.Try(func() {
		if c.Pseudo {
			// the same room with sender IDs that are not user IDs (users keys, state keys and senders are sender IDs)
			enc, q := sc.PseudoEncode([]string{C, S, O, P})
			verdict, berr = enc.RunWith(q)
		} else {
			verdict, berr = sc.Run()
		}
	}); p {
		return false, fmt.Errorf("Allowed panics: %s", msg)
	}
	if berr != nil {
		return false, fmt.Errorf("harness: %v", berr)
	}
	if verdict != nil {
		r.Outcome("refused")
		return false, nil
	}
	r.Outcome("accepted")
	cr := map[string]int64{}
	for k, v := range creators {
		cr[k] = v
	}
	if c.OldNone && creators == nil {
		cr[C] = 1<<53 - 1 // without a power-levels event the room creator holds the room
	}
	old := effective(c.Old, c.OldNone, cr)
	nw := effective(c.New, false, creators)
	if c.RawNew != "" {
		// accepted content with a non-integer level in a version that demands integers
		if refversions.Get(c.Version).IntegerPowerLevels {
			if v, _, e := refjson.Parse([]byte(c.RawNew)); e == nil && hasNonInteger(v) {
				return true, fmt.Errorf("room version %s accepted a power-levels event with a non-integer level: %s", c.Version, c.RawNew)
			}
		}
		return true, nil
	}
	if s := invariant(c.Version, old, nw, c.Sender, named); s != "" {
		return true, fmt.Errorf("room version %s: power-levels event by %s (level %d) accepted although %s; current %s, proposed %s", c.Version, c.Sender, old.user(c.Sender), s, oldJSON(c), c.New.json())
	}
	return true, nil
}

// ---- (iii) several power-levels events judged through ONE reused checker, as state resolution does

type batchStep struct {
	Sender string
	New    pl
}

type batchCase struct {
	Version string
	Old     pl
	Steps   []batchStep
	Apply   bool // an accepted event becomes the current power-levels event before the next one is judged
}

func runBatch(r *harness.Run, c batchCase) error {
	r.Eval()
	creators, named, extra := creatorsFor(c.Version)
	st := []authgen.SE{{ID: authgen.CreateID, Type: "m.room.create", StateKey: "", Sender: C, Content: `{"creator":"` + C + `","room_version":"` + c.Version + `"` + extra + `}`}}
	for _, u := range []string{C, S, O, P} {
		st = append(st, authgen.SE{ID: "$m" + strings.NewReplacer("@", "", ":", "_", ".", "_").Replace(u) + strings.Repeat("m", 30), Type: "m.room.member", StateKey: u, Sender: u, Content: `{"membership":"join"}`})
	}
	st = append(st, authgen.SE{ID: "$pl" + strings.Repeat("p", 41), Type: "m.room.power_levels", StateKey: "", Sender: C, Content: c.Old.json()})
	sc := authgen.Scenario{Version: c.Version, State: st}
	pdus, err := sc.StatePDUs()
	if err != nil {
		return fmt.Errorf("harness: %v", err)
	}
	prov, err := gmsl.NewAuthEvents(pdus)
	if err != nil {
		return fmt.Errorf("harness: %v", err)
	}
	room, err := spec.NewRoomID(authgen.RoomOf(c.Version))
	if err != nil {
		return fmt.Errorf("harness: %v", err)
	}
	checker := gmsl.VerifNewAllower(prov, authgen.UID, *room)
	current := c.Old
	var hist []string
	for i, stp := range c.Steps {
		sc.Event = authgen.Ev{Type: "m.room.power_levels", StateKey: evgen.S(""), Sender: stp.Sender, Content: stp.New.json(), Prev: []string{"$p" + strings.Repeat("x", 42)}}
		id := fmt.Sprintf("$step%d%s", i, strings.Repeat("s", 37))
		if refversions.Get(c.Version).EventFormat == 1 {
			id = fmt.Sprintf("$step%d:a.org", i)
		}
		ev, err := sc.EventPDUWithID(id)
		if err != nil {
			return fmt.Errorf("harness: %v", err)
		}
		var verdict error
		if p, msg := harness.Try(func() {
			checker.Update(prov)
			verdict = checker.Allowed(ev)
		}); p {
			return fmt.Errorf("reused checker panics: %s", msg)
		}
		if verdict != nil {
			hist = append(hist, fmt.Sprintf("%s %s refused", stp.Sender, stp.New.json()))
			continue
		}
		r.Outcome("batch-accepted")
		old, nw := effective(current, false, creators), effective(stp.New, false, creators)
		if s := invariant(c.Version, old, nw, stp.Sender, named); s != "" {
			return fmt.Errorf("room version %s, one checker reused over a batch (earlier: %v): power-levels event by %s (level %d) accepted although %s; current %s, proposed %s", c.Version, hist, stp.Sender, old.user(stp.Sender), s, current.json(), stp.New.json())
		}
		hist = append(hist, fmt.Sprintf("%s %s accepted", stp.Sender, stp.New.json()))
		if c.Apply {
			if err := prov.AddEvent(ev); err != nil {
				return fmt.Errorf("harness: %v", err)
			}
			current = stp.New
		}
	}
	return nil
}

func oldJSON(c stepCase) string {
	if c.OldNone {
		return "(no power-levels event)"
	}
	return c.Old.json()
}

func hasNonInteger(v *refjson.Value) bool {
	switch v.Kind {
	case refjson.Object:
		for _, m := range v.Members {
			if hasNonInteger(m.Val) {
				return true
			}
		}
	case refjson.String:
		return true
	case refjson.Number:
		return !refjson.IsIntegerLiteral(v.Num)
	}
	return false
}

var keyMenu = []string{"ban", "kick", "invite", "redact", "events_default", "state_default", "users_default", "events/m.x", "events/m.room.name", "notifications/room", "notifications/x", "users/" + S, "users/" + O, "users/" + P,
	// event types spelt like an action threshold: entries of `events`, unrelated to the threshold of that name
	"events/kick", "events/state_default"}

func main() { harness.Main("C08", "model_checking", run) }

func run(r *harness.Run) {
	r.Rule("(i) one-step: current content in 8 patterns over 14 keys (every scalar threshold incl. users_default, two events entries, two notification entries, the sender's, another user's and a third user's level) x proposed content = current with every set of <= K keys each moved to every other value of {absent, L-1, L, L+1} x sender in {member at level L, room creator without a power-levels event, v12 creator} x all 16 room versions, plus non-integer spellings; (ii) histories: breadth-first search over accepted power-levels events by three users (creator, moderator, plain user) from the room's initial state with a menu of edits, depth D, canonical state = content. Oracle (not the reference rules): on every ACCEPTED event an invariant on effective levels computed from the two contents - nothing set above the sender's level, nothing above the sender's level changed or removed, no other user at or above the sender changed, no creator named (v12), no non-integer level (v10+); along histories nobody ever exceeds the highest level any acting sender held. Non-trivial = distinct accepted change.")
	r.Assume("the threshold of an event type without an entry is events_default (the non-state default, as the library reads it); the state_default fallback for state events is not part of the comparison")
	r.OnReplay("step", func(raw json.RawMessage) error {
		var c stepCase
		if err := json.Unmarshal(raw, &c); err != nil {
			return err
		}
		_, err := runStep(r, c)
		return err
	})
	r.OnReplay("batch", func(raw json.RawMessage) error {
		var c batchCase
		if err := json.Unmarshal(raw, &c); err != nil {
			return err
		}
		return runBatch(r, c)
	})
	if r.Replaying() {
		return
	}
	// (iii) batches through one reused checker: every sequence of <= 3 proposals from a menu of 11 (additions, removals and
	// changes below / at / above the proposer's level, by three users), with and without applying accepted events
	{
		old := pl{"users/" + S: 50, "users/" + O: 40, "users/" + P: 60, "events/m.x": 50}
		with := func(kv ...interface{}) pl {
			n := old.clone()
			for i := 0; i+1 < len(kv); i += 2 {
				if v := kv[i+1].(int); v < 0 {
					delete(n, kv[i].(string))
				} else {
					n[kv[i].(string)] = int64(v)
				}
			}
			return n
		}
		menu := []batchStep{
			{P, with("users/"+O, 60)}, {P, with("users/"+S, -1)}, {S, with("users/"+P, -1)}, {S, with("users/"+O, -1)}, {S, with("events/m.x", -1)},
			{O, with("events/m.x", -1)}, {S, with()}, {P, with("events/m.y", 60)}, {S, with("users/"+O, 50)}, {S, pl{"users/" + S: 50}}, {P, with("events/m.x", -1, "users/"+O, -1)},
		}
		var seqs [][]batchStep
		var gen func(cur []batchStep)
		gen = func(cur []batchStep) {
			if len(cur) > 0 {
				seqs = append(seqs, append([]batchStep(nil), cur...))
			}
			if len(cur) == 3 {
				return
			}
			for _, m := range menu {
				gen(append(cur, m))
			}
		}
		gen(nil)
		bvers := []string{"1", "6", "10", "11", "12"}
		if r.Thorough() {
			bvers = refversions.All()
		}
		type bj struct {
			v     string
			apply bool
		}
		var bjobs []bj
		for _, v := range bvers {
			bjobs = append(bjobs, bj{v, false}, bj{v, true})
		}
		r.Parallel(len(bjobs), func(i int) {
			for _, sq := range seqs {
				c := batchCase{Version: bjobs[i].v, Old: old, Steps: sq, Apply: bjobs[i].apply}
				if err := runBatch(r, c); err != nil {
					r.Violation(fmt.Sprintf("batch:%s:%v:%d", c.Version, c.Apply, len(sq)), err.Error(), "batch", c)
					return
				}
			}
		})
		r.Count("batches_through_one_checker", int64(len(seqs)*len(bjobs)))
	}
	K := r.Pick(2, 3)
	vals := []int64{-1, L - 1, L, L + 1} // -1 = absent
	base := func(v int64) pl {
		p := pl{}
		for _, k := range keyMenu {
			if v >= 0 {
				p[k] = v
			}
		}
		p["users/"+S] = L
		return p
	}
	mixed := base(L - 1)
	mixed["ban"], mixed["users/"+O], mixed["events/m.x"], mixed["notifications/x"], mixed["users_default"] = L+1, L+1, L+1, L+1, L
	mixed2 := base(-1)
	mixed2["users_default"], mixed2["users/"+O], mixed2["events/m.room.name"], mixed2["events/m.room.power_levels"] = L+10, 10, 100, 10
	low := base(-1)
	low["users/"+S], low["events/m.room.power_levels"], low["state_default"] = 10, 10, L
	// the defaults an absent entry falls back to lie above the sender, who may still send power levels
	highDefaults := base(-1)
	highDefaults["events_default"], highDefaults["state_default"], highDefaults["events/m.room.power_levels"], highDefaults["users_default"] = L+1, L+1, L, 0
	olds := []pl{base(-1), base(L - 1), base(L), base(L + 1), mixed, mixed2, low, highDefaults}
	type job struct {
		ver    string
		sender string
		oi     int
	}
	var jobs []job
	for _, v := range refversions.All() {
		for oi := range olds {
			jobs = append(jobs, job{v, S, oi})
		}
		jobs = append(jobs, job{v, C, -1}) // creator, no power-levels event yet
		if refversions.Get(v).PrivilegedCreators {
			jobs = append(jobs, job{v, C, 0}, job{v, "@d:a.org", 4})
		}
	}
	r.Parallel(len(jobs), func(ji int) {
		j := jobs[ji]
		var old pl
		none := j.oi < 0
		if none {
			old = pl{}
		} else {
			old = olds[j.oi].clone()
		}
		if j.sender != S && !none {
			delete(old, "users/"+C)
		}
		sl := L
		if j.oi == 6 {
			sl = 10
		}
		menu := append([]string(nil), keyMenu...)
		if refversions.Get(j.ver).PrivilegedCreators {
			menu = append(menu, "users/"+C, "users/@d:a.org")
		}
		var rec func(start int, cur pl, changed int)
		rec = func(start int, cur pl, changed int) {
			c := stepCase{Version: j.ver, Sender: j.sender, OldNone: none, Old: old, New: cur.clone()}
			acc, err := runStep(r, c)
			if err != nil {
				var ks []string
				for _, k := range menu {
					if ov, o := old[k]; true {
						nv, n := cur[k]
						if o != n || ov != nv {
							ks = append(ks, k)
						}
					}
				}
				r.Violation(fmt.Sprintf("step:%s/%s:%s:old#%d:%v", strings.Join(ks, "+"), senderKind(j.sender, none), j.ver, j.oi, cur.json()), err.Error(), "step", c)
			} else if acc && changed > 0 {
				r.Nontrivial(fmt.Sprintf("%s|%s|%d|%s", j.ver, j.sender, j.oi, cur.json()))
			}
			if j.ver == "org.matrix.msc4014" {
				// the pseudo-ID room version again with sender IDs that are not user IDs: same invariant, and the same verdict
				cp := c
				cp.Pseudo = true
				accP, errP := runStep(r, cp)
				if errP != nil {
					r.Violation(fmt.Sprintf("step-pseudo:%s:%s:old#%d:%v", senderKind(j.sender, none), j.ver, j.oi, cur.json()), errP.Error(), "step", cp)
				} else if err == nil && accP != acc {
					r.Violation(fmt.Sprintf("step-pseudo-differs:%s:%s:old#%d:%v", senderKind(j.sender, none), j.ver, j.oi, cur.json()), fmt.Sprintf("room version %s: power-levels event by %s accepted=%v with user IDs as sender IDs but accepted=%v with pseudo IDs mapped to the same users; current %s, proposed %s", j.ver, j.sender, acc, accP, oldJSON(c), cur.json()), "step", cp)
				}
			}
			kk := K
			if r.Quick() && (j.ver == "10" || j.ver == "12") {
				kk = 3 // the quick tier goes one level deeper on two representative versions
			}
			if changed == kk {
				return
			}
			for i := start; i < len(menu); i++ {
				k := menu[i]
				ov, oin := cur[k]
				for _, v := range vals {
					nv := v
					if nv >= 0 && sl != L {
						nv = v - L + sl // same relative menu around the sender's level
					}
					if (v < 0 && !oin) || (v >= 0 && oin && ov == nv) {
						continue
					}
					n := cur.clone()
					if v < 0 {
						delete(n, k)
					} else {
						n[k] = nv
					}
					rec(i+1, n, changed+1)
				}
			}
		}
		rec(0, old.clone(), 0)
	})
	// non-integer spellings
	for _, v := range refversions.All() {
		for _, raw := range []string{`{"users":{"` + S + `":"50"}}`, `{"users":{"` + S + `":50},"ban":"50"}`, `{"users":{"` + S + `":50},"ban":50.0}`, `{"users":{"` + S + `":50},"events":{"m.x":"1"}}`, `{"users":{"` + S + `":50},"notifications":{"room":"50"}}`, `{"users":{"` + S + `":50},"users_default":"0"}`, `{"users":{"` + S + `":50.5}}`, `{"users":{"` + S + `":5e1}}`} {
			c := stepCase{Version: v, Sender: S, Old: pl{"users/" + S: L}, New: pl{}, RawNew: raw}
			if _, err := runStep(r, c); err != nil {
				r.Violation("step:non-integer:"+v+":"+raw, err.Error(), "step", c)
			}
		}
	}
	r.Sample("step", stepCase{Version: "10", Sender: S, Old: olds[4], New: olds[2]})

	// (ii) histories
	D := r.Pick(3, 4)
	users := []string{C, S, O}
	edits := []func(p pl){
		func(p pl) { p["users/"+S] = 50 }, func(p pl) { p["users/"+S] = 100 }, func(p pl) { p["users/"+O] = 50 }, func(p pl) { p["users/"+O] = 51 }, func(p pl) { delete(p, "users/"+S) }, func(p pl) { delete(p, "users/"+O) },
		func(p pl) { p["users_default"] = 50 }, func(p pl) { p["users_default"] = 100 }, func(p pl) { delete(p, "users_default") },
		func(p pl) { p["events/m.room.power_levels"] = 0 }, func(p pl) { p["state_default"] = 0 }, func(p pl) { p["ban"] = 0 }, func(p pl) { p["events/m.room.power_levels"] = 100 }, func(p pl) { p["users/"+C] = 100 }, func(p pl) { p["users/"+C] = 0 },
	}
	for _, ver := range []string{"1", "6", "10", "11", "12"} {
		creators, _, _ := creatorsFor(ver)
		type node struct {
			none     bool
			p        pl
			maxActor int64
			depth    int
			hist     []string
		}
		initCr := map[string]int64{}
		for k, v := range creators {
			initCr[k] = v
		}
		start := node{none: true, p: pl{}}
		seen := map[string]bool{"none": true}
		q := []node{start}
		for len(q) > 0 {
			n := q[0]
			q = q[1:]
			if n.depth == D {
				continue
			}
			cr := map[string]int64{}
			for k, v := range creators {
				cr[k] = v
			}
			if n.none && creators == nil {
				cr[C] = 1<<53 - 1
			}
			cur := effective(n.p, n.none, cr)
			for _, u := range users {
				for ei, ed := range edits {
					np := n.p.clone()
					ed(np)
					if np.json() == n.p.json() && !n.none {
						continue
					}
					c := stepCase{Version: ver, Sender: u, OldNone: n.none, Old: n.p, New: np}
					acc, err := runStep(r, c)
					r.Transition(1)
					if err != nil {
						r.Violation(fmt.Sprintf("history:%s:%v+%s#%d", ver, n.hist, u, ei), err.Error(), "step", c)
						continue
					}
					if !acc {
						continue
					}
					actor := cur.user(u)
					ma := n.maxActor
					if actor > ma {
						ma = actor
					}
					nx := effective(np, false, creators)
					for _, w := range []string{C, S, O, P, "@fresh:a.org"} {
						init := int64(0)
						if w == C {
							init = 1 << 53
						}
						if lv := nx.user(w); lv > ma && lv > init {
							r.Violation(fmt.Sprintf("history-level:%s:%v+%s#%d", ver, n.hist, u, ei), fmt.Sprintf("after history %v + %s edit %d, %s holds level %d, above every level an acting sender held (%d)", n.hist, u, ei, w, lv, ma), "step", c)
						}
					}
					key := np.json()
					if r.State(ver + key) {
						_ = seen
						q = append(q, node{false, np, ma, n.depth + 1, append(append([]string(nil), n.hist...), u+"#"+strconv.Itoa(ei))})
					}
				}
			}
		}
	}
	r.Extra("bounds", map[string]int{"K": K, "history_depth": D})
}

func senderKind(s string, none bool) string {
	if s == S {
		return "member"
	}
	if none {
		return "creator-no-pl"
	}
	return "v12-creator"
}
