// C07 — event authorisation decides exactly what the Matrix auth rules decide.
// The abstract rule space is enumerated per event class (package authcells),
// each cell is made concrete (real PDUs) and the real Allowed is compared with refauth.
package main

import (
	"encoding/json"
	"fmt"
	"regexp"
	"sort"
	"strings"

	"verif/mc/authcells"
	"verif/mc/harness"
	"verif/mc/ref/refauth"
	"verif/mc/ref/refversions"
)

type cell = authcells.Cell

var genMember, genThirdParty, genCreate, genOther, genPowerLevels = authcells.GenMember, authcells.GenThirdParty, authcells.GenCreate, authcells.GenOther, authcells.GenPowerLevels

func run1(r *harness.Run, c cell) (libOK bool, ref refauth.Result, err error) {
	r.Eval()
	var verdict, berr error
	if p, msg := harness.Try(func() { verdict, berr = c.Sc.Run() }); p {
		return false, ref, fmt.Errorf("Allowed panics: %s", msg)
	}
	if berr != nil {
		return false, ref, fmt.Errorf("harness: cannot build scenario: %v", berr)
	}
	re, rs := c.Sc.Ref()
	if rs.Power != nil {
		if _, ok := refauth.ParseLevels(c.Sc.Version, rs.Power.Content); !ok {
			// a power-levels event in the state that this room version cannot parse: no rule says what applies
			r.Count("unparsable_state_power_levels_not_judged", 1)
			return verdict == nil, refauth.Result{Allowed: verdict == nil, Rule: "unspecified"}, nil
		}
	}
	ref = refauth.Allowed(re, rs)
	if (verdict == nil) != ref.Allowed {
		return verdict == nil, ref, fmt.Errorf("room version %s, %s %v: Allowed = %v; the rules say allowed=%v by rule %q", c.Sc.Version, c.Class, c.Labels, verdict, ref.Allowed, ref.Rule)
	}
	return verdict == nil, ref, nil
}

var histVers = map[string]bool{"1": true, "6": true, "10": true, "11": true, "12": true, "org.matrix.hydra.11": true}

var userRe = regexp.MustCompile(`@[a-z0-9_]+:[a-z0-9.]+`)

func usersOf(c cell) []string {
	set := map[string]bool{}
	add := func(s string) {
		for _, u := range userRe.FindAllString(s, -1) {
			set[u] = true
		}
	}
	for _, se := range c.Sc.State {
		add(se.Sender)
		add(se.StateKey)
		add(se.Content)
	}
	add(c.Sc.Event.Sender)
	add(c.Sc.Event.Content)
	if c.Sc.Event.StateKey != nil {
		add(*c.Sc.Event.StateKey)
	}
	var users []string
	for u := range set {
		users = append(users, u)
	}
	sort.Strings(users)
	return users
}

// historicalAgrees: the same cell with every user renamed to an ID of the historical grammar must get the same verdict.
func historicalAgrees(r *harness.Run, c cell, plain bool) error {
	enc := c.Sc.HistoricalEncode(usersOf(c))
	r.Eval()
	var verdict, berr error
	if p, msg := harness.Try(func() { verdict, berr = enc.Run() }); p {
		return fmt.Errorf("Allowed panics when the users carry historical-grammar IDs: %s", msg)
	}
	if berr != nil {
		return nil
	}
	r.Count("historical_id_encodings_compared", 1)
	if (verdict == nil) != plain {
		return fmt.Errorf("room version %s, %s %v: allowed=%v, but Allowed = %v once every user is renamed consistently to an ID with capitals and '+' in the localpart", c.Sc.Version, c.Class, c.Labels, plain, verdict)
	}
	return nil
}

func pseudoAgrees(r *harness.Run, c cell, plain bool) error {
	users := usersOf(c)
	enc, q := c.Sc.PseudoEncode(users)
	r.Eval()
	var verdict, berr error
	if p, msg := harness.Try(func() { verdict, berr = enc.RunWith(q) }); p {
		return fmt.Errorf("Allowed panics on the pseudo-ID encoding: %s", msg)
	}
	if berr != nil {
		return nil // the encoded scenario cannot be built (an identifier the event format refuses): nothing to compare
	}
	r.Count("pseudo_id_encodings_compared", 1)
	if (verdict == nil) != plain {
		return fmt.Errorf("room version %s, %s %v: allowed=%v when sender IDs are user IDs but Allowed = %v when they are opaque sender IDs mapped to the same users", c.Sc.Version, c.Class, c.Labels, plain, verdict)
	}
	return nil
}

func main() { harness.Main("C07", "model_checking", run) }

func run(r *harness.Run) {
	r.Rule("the abstract rule space, fully enumerated per event class and pruned only by irrelevance: member-self (new membership x federation/server x sender-is-creator x 11 power-level configurations x previous membership x 7 join rules x restricted-join authoriser states x prev_events shapes), member-other (new membership x federation x creator x power levels x sender's and target's previous membership), third-party invites (mxid x token/invite-event x public keys x signature x federation x memberships), create (prev_events x state key x room ID x room_version field x creator field x additional_creators), power_levels (4 current contents x 45 proposed contents x sender/creator x membership), all other events (11 type/state-key shapes x federation x creator x membership x 10 level configurations x create present/absent/other room x redaction targets x create.room_version), in every room version (quick: 12 representative versions on the large classes, all 16 on the small ones); each cell becomes real events and Allowed is compared with refauth; in the pseudo-ID room version every cell (bar third-party invites) is also run with opaque sender IDs mapped back to the same users and must get the same verdict; seven scenarios per version with content member names that differ from the specified ones only in letter case. Non-trivial (decisive) = distinct cell whose verdict flips when exactly one coordinate is changed.")
	r.Assume("refauth transcribes the specification's rules plus the departures D1-D16 of DESIGN.md", "the auth-event selection rule is not evaluated by Allowed (D1)")
	r.OnReplay("cell", func(raw json.RawMessage) error {
		var c cell
		if err := json.Unmarshal(raw, &c); err != nil {
			return err
		}
		_, _, err := run1(r, c)
		return err
	})
	if r.Replaying() {
		return
	}
	all := refversions.All()
	big := all
	if r.Quick() {
		big = []string{"1", "3", "5", "6", "7", "8", "9", "10", "11", "12", "org.matrix.msc3787", "org.matrix.msc3667", "org.matrix.msc4014"}
	}
	type job struct {
		ver string
		gen func(string) []cell
		cls string
	}
	var jobs []job
	for _, v := range big {
		jobs = append(jobs, job{v, genMember, "member"}, job{v, genOther, "other"})
	}
	for _, v := range all {
		jobs = append(jobs, job{v, genThirdParty, "3pid"}, job{v, genCreate, "create"}, job{v, genPowerLevels, "pl"})
	}
	r.Parallel(len(jobs), func(i int) {
		j := jobs[i]
		cells := j.gen(j.ver)
		verdicts := map[string]bool{}
		byClass := map[string][]cell{}
		for _, c := range cells {
			ok, ref, err := run1(r, c)
			if err != nil {
				what := strings.NewReplacer(":", "", " ", "-").Replace(ref.Rule)
				if strings.Contains(err.Error(), "panics") {
					what = "PANIC"
				}
				r.Violation(fmt.Sprintf("cell:%s/%s:%s:%s", c.Class, what, c.Sc.Version, c.Key()), err.Error(), "cell", c)
				continue
			}
			if j.ver == "org.matrix.msc4014" && j.cls != "3pid" {
				// the pseudo-ID room version once more with sender IDs that are not user IDs (every user ID of the cell replaced
				// by an opaque sender ID, the caller's resolution mapping it back): the rules are stated over users, so the
				// verdict must not depend on the encoding. Not compared: third-party invites (the substitution would have to
				// re-sign the signed block) and the rule about state keys that begin with '@' (it is about the literal text).
				if sk := c.Sc.Event.StateKey; !(sk != nil && strings.HasPrefix(*sk, "@") && c.Sc.Event.Type != "m.room.member") {
					if e := pseudoAgrees(r, c, ok); e != nil {
						r.Violation(fmt.Sprintf("cell-pseudo:%s:%s:%s", c.Class, c.Sc.Version, c.Key()), e.Error(), "cell", c)
					}
				}
			}
			if histVers[j.ver] && j.cls != "3pid" {
				// users renamed to historical-grammar IDs (capitals, '+'): same verdict. Not compared: third-party invites (signed
				// block names the user) and events whose '@'-state key is not a member event's (literal text rule).
				if sk := c.Sc.Event.StateKey; !(sk != nil && strings.HasPrefix(*sk, "@") && c.Sc.Event.Type != "m.room.member") {
					if e := historicalAgrees(r, c, ok); e != nil {
						r.Violation(fmt.Sprintf("cell-historical:%s:%s:%s", c.Class, c.Sc.Version, c.Key()), e.Error(), "cell", c)
					}
				}
			}
			verdicts[c.Key()] = ok
			byClass[c.Class] = append(byClass[c.Class], c)
			if ok {
				r.Outcome("allowed")
			} else {
				r.Outcome("refused:" + ref.Rule)
			}
		}
		// decisive cells: some single-coordinate neighbour has the other verdict
		for cls, cs := range byClass {
			dims := len(cs[0].Coord)
			maxv := make([]int, dims)
			for _, c := range cs {
				for d, v := range c.Coord {
					if d < dims && v > maxv[d] {
						maxv[d] = v
					}
				}
			}
			for _, c := range cs {
				if len(c.Coord) != dims {
					continue
				}
				dec := false
				for d := 0; d < dims && !dec; d++ {
					orig := c.Coord[d]
					for v := 0; v <= maxv[d]; v++ {
						if v == orig {
							continue
						}
						c.Coord[d] = v
						if nv, ok := verdicts[c.Key()]; ok && nv != verdicts[cls+fmt.Sprint(append(append([]int{}, c.Coord[:d]...), append([]int{orig}, c.Coord[d+1:]...)...))] {
							dec = true
							break
						}
					}
					c.Coord[d] = orig
				}
				if dec {
					r.Nontrivial(j.ver + c.Key())
				}
			}
		}
		r.Count("cells_"+j.cls, int64(len(cells)))
	})
	// member names inside content that differ from the specified ones only in letter case: one violation key per kind, so
	// that a recorded finding names exactly one of them
	for _, v := range all {
		for _, c := range authcells.GenCaseVariants(v) {
			if _, _, err := run1(r, c); err != nil {
				r.Violation("content-key-case:"+c.Labels[0], err.Error(), "cell", c)
			}
		}
	}
	r.Sample("cell", genMember("10")[1234].Labels)
	r.Sample("cell", genPowerLevels("12")[77].Labels)
}
