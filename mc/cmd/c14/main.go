// C14 — only events that pass signature and auth checks leave federation verification.
package main

import (
	"context"
	"encoding/json"
	"errors"
	"fmt"
	"regexp"
	"sort"
	"strings"

	gmsl "github.com/matrix-org/gomatrixserverlib"
	"github.com/matrix-org/gomatrixserverlib/spec"

	"verif/mc/evgen"
	"verif/mc/ref/refversions"
	"verif/mc/fedgen"
	"verif/mc/harness"
	"verif/mc/srgen"
)

var faults = []string{"none", "bad-signature", "auth-stripped", "auth-missing-from-response", "wrong-room", "no-state-key", "duplicate-key", "malformed-json", "listed-in-both",
	// the event is in both lists, genuine in one and with a forged signature in the other: same event ID (it does not cover
	// the signatures), different bytes
	"twin-forged-in-state", "twin-forged-in-auth"}

var sigRe = regexp.MustCompile(`("ed25519:[^"]*":")([A-Za-z0-9+/_-])`)

// forgeSignature flips the first character of every signature of an event.
func forgeSignature(js []byte) []byte {
	return sigRe.ReplaceAllFunc(js, func(m []byte) []byte {
		out := append([]byte(nil), m...)
		if out[len(out)-1] == 'A' {
			out[len(out)-1] = 'B'
		} else {
			out[len(out)-1] = 'A'
		}
		return out
	})
}

var providerModes = []string{"returns-event", "returns-nothing", "errors"}

type respCase struct {
	Version  string
	Faults   map[string]string // event nick -> fault
	Provider string
}

// nick names of the base room + one extra state event
var nicks = []string{"create", "alice", "pl", "jr", "bob", "carol", "topic"}

func buildRoom(version string) (*srgen.History, map[string]*srgen.E) {
	h, st := srgen.New(version, 0, 0)
	tip := []string{h.Order[len(h.Order)-1].ID}
	var topic srgen.Action
	for _, a := range srgen.Actions(version) {
		if a.Name == "topic-bob" {
			topic = a
		}
	}
	_, _, added := h.Branch(st, tip, []srgen.Action{topic})
	m := map[string]*srgen.E{}
	for i, e := range h.Order[:6] {
		m[nicks[i]] = e
	}
	m["topic"] = added[0]
	return h, m
}

type parsed struct {
	id  string
	pdu gmsl.PDU
}

func run1(r *harness.Run, c respCase) error {
	r.Eval()
	h, byNick := buildRoom(c.Version)
	opts := map[string]fedgen.Opt{}
	for nick, f := range c.Faults {
		e := byNick[nick]
		switch f {
		case "bad-signature":
			opts[e.ID] = fedgen.Opt{BadSignature: true}
		case "auth-stripped":
			// leave out every auth event except the create event: the sender is then "not in the room"
			var drop []string
			for _, a := range e.Auth {
				if a != h.CreateID {
					drop = append(drop, a)
				}
			}
			opts[e.ID] = fedgen.Opt{DropAuth: drop}
		case "wrong-room":
			opts[e.ID] = fedgen.Opt{Room: "!elsewhere:a.org"}
		case "no-state-key":
			opts[e.ID] = fedgen.Opt{NoStateKey: true}
		}
	}
	real, order, err := fedgen.Materialise(h, opts)
	if err != nil {
		return fmt.Errorf("harness: %v", err)
	}
	// response: auth chain = create, alice, pl, jr, bob, carol (auth events of the state); state = all seven
	var authList, stateList gmsl.EventJSONs
	missing := map[string]*fedgen.Real{}
	for i, rr := range order {
		nick := nicks[i]
		f := c.Faults[nick]
		js := spec.RawJSON(rr.JSON)
		if f == "malformed-json" {
			js = spec.RawJSON(rr.JSON[:len(rr.JSON)/2])
		}
		if f == "auth-missing-from-response" {
			missing[rr.ID] = rr
			continue
		}
		ajs, sjs := js, js
		switch f {
		case "twin-forged-in-state":
			sjs = spec.RawJSON(forgeSignature(rr.JSON))
		case "twin-forged-in-auth":
			ajs = spec.RawJSON(forgeSignature(rr.JSON))
		}
		if (nick != "topic" && nick != "carol") || strings.HasPrefix(f, "twin-") {
			authList = append(authList, ajs)
		}
		if nick == "carol" && f == "listed-in-both" {
			authList = append(authList, js)
		}
		stateList = append(stateList, sjs)
		if f == "duplicate-key" {
			// a second, different event for the same (type, state_key)
			alt := *rr.E
			altH := *h
			_ = altH
			o := fedgen.Opt{ContentOverride: strings.Replace(rr.E.Content, "}", `,"dup":true}`, 1)}
			if rr.E.Content == "{}" {
				o.ContentOverride = `{"dup":true}`
			}
			r2, _, err := fedgen.Materialise(&srgen.History{Version: h.Version, CreateID: h.CreateID, RoomID: h.RoomID, Events: h.Events, Order: []*srgen.E{&alt}}, map[string]fedgen.Opt{alt.ID: o})
			if err == nil {
				for _, x := range r2 {
					stateList = append(stateList, spec.RawJSON(x.JSON))
				}
			}
		}
	}
	provCalls := 0
	provider := func(ver gmsl.RoomVersion, ids []string) ([]gmsl.PDU, error) {
		provCalls++
		switch c.Provider {
		case "errors":
			return nil, errors.New("scripted provider error")
		case "returns-nothing":
			return nil, nil
		}
		var out []gmsl.PDU
		for _, id := range ids {
			if rr := missing[id]; rr != nil {
				p, err := gmsl.MustGetRoomVersion(ver).NewEventFromTrustedJSON(rr.JSON, false)
				if err == nil {
					out = append(out, p)
				}
			}
		}
		return out, nil
	}
	resp := &stateResp{authList, stateList}
	var gotAuth, gotState []gmsl.PDU
	var cerr error
	if p, msg := harness.Try(func() {
		gotAuth, gotState, cerr = gmsl.CheckStateResponse(context.Background(), resp, gmsl.RoomVersion(c.Version), fedgen.Verifier{}, provider, fedgen.UID)
	}); p {
		return fmt.Errorf("CheckStateResponse panics: %s", msg)
	}
	// ---- oracle, recomputed from already-checked parts
	ver := gmsl.MustGetRoomVersion(gmsl.RoomVersion(c.Version))
	parse := func(l gmsl.EventJSONs) []gmsl.PDU {
		var out []gmsl.PDU
		for _, js := range l {
			p, err := ver.NewEventFromUntrustedJSON(js)
			if err != nil {
				continue
			}
			out = append(out, p)
		}
		return out
	}
	pa, ps := parse(authList), parse(stateList)
	wholeFail := false
	keys := map[string]bool{}
	for _, p := range pa {
		if p.StateKey() == nil {
			wholeFail = true
		}
	}
	for _, p := range ps {
		if p.StateKey() == nil {
			wholeFail = true
			continue
		}
		k := p.Type() + "\x00" + *p.StateKey()
		if keys[k] {
			wholeFail = true
		}
		keys[k] = true
	}
	if wholeFail {
		r.Outcome("whole-response-refused")
		if cerr == nil {
			return fmt.Errorf("faults %v: response with a non-state event or a duplicate state key was accepted", c.Faults)
		}
		return nil
	}
	if cerr != nil {
		return fmt.Errorf("faults %v: CheckStateResponse fails the whole response: %v", c.Faults, cerr)
	}
	all := append(append([]gmsl.PDU(nil), pa...), ps...)
	sigOK := map[string]bool{}
	twinned := map[string]bool{} // event IDs that arrived with differing bytes
	bytesOf := map[string]string{}
	for _, p := range all {
		ok := gmsl.VerifyEventSignatures(context.Background(), p, fedgen.Verifier{}, fedgen.UID) == nil
		if prev, seen := sigOK[p.EventID()]; seen {
			ok = ok && prev // an ID one of whose copies fails is dropped as a whole
			if bytesOf[p.EventID()] != string(p.JSON()) {
				twinned[p.EventID()] = true
			}
		}
		sigOK[p.EventID()] = ok
		bytesOf[p.EventID()] = string(p.JSON())
	}
	// whatever is returned must itself carry verified signatures (two events may share an ID and differ in their signatures)
	for _, p := range append(append([]gmsl.PDU(nil), gotAuth...), gotState...) {
		if e := gmsl.VerifyEventSignatures(context.Background(), p, fedgen.Verifier{}, fedgen.UID); e != nil {
			return fmt.Errorf("faults %v, provider %s: returned event %s (%s) does not carry verified signatures: %v", c.Faults, c.Provider, p.EventID()[:8], p.Type(), e)
		}
	}
	byID := map[string]gmsl.PDU{}
	for _, p := range all {
		if sigOK[p.EventID()] {
			byID[p.EventID()] = p
		}
	}
	good := map[string]bool{}
	for _, p := range all {
		if !sigOK[p.EventID()] {
			continue
		}
		var as []gmsl.PDU
		for _, id := range p.AuthEventIDs() {
			if a, ok := byID[id]; ok {
				as = append(as, a)
			} else if c.Provider == "returns-event" {
				if rr := missing[id]; rr != nil {
					if a, err := ver.NewEventFromTrustedJSON(rr.JSON, false); err == nil {
						as = append(as, a)
					}
				}
			}
		}
		prov, _ := gmsl.NewAuthEvents(as)
		if gmsl.Allowed(p, prov, fedgen.UID) == nil {
			good[p.EventID()] = true
		}
	}
	cmp := func(what string, got []gmsl.PDU, in []gmsl.PDU) error {
		var want, have []string
		seenWant := map[string]bool{}
		for _, p := range in {
			// an ID that arrived with differing bytes: whether the genuine copy is kept is left open (checked above: nothing
			// unverified is returned)
			if good[p.EventID()] && !twinned[p.EventID()] && !seenWant[p.EventID()] {
				want = append(want, p.EventID())
				seenWant[p.EventID()] = true
			}
		}
		for _, p := range got {
			if !twinned[p.EventID()] {
				have = append(have, p.EventID())
			}
		}
		sort.Strings(want)
		sort.Strings(have)
		if strings.Join(want, ",") != strings.Join(have, ",") {
			return fmt.Errorf("faults %v, provider %s: returned %s events %v, but exactly %v pass the signature and auth checks", c.Faults, c.Provider, what, short(have), short(want))
		}
		return nil
	}
	if err := cmp("auth", gotAuth, pa); err != nil {
		return err
	}
	if err := cmp("state", gotState, ps); err != nil {
		return err
	}
	r.Outcome(fmt.Sprintf("kept-%d-of-%d", len(gotState), len(ps)))
	// ---- send_join on top: the join event of a new user against the (faulted) response
	for _, jcase := range []string{"dave-public", "dave-banned-by-state"} {
		jh, jst := srgen.New(c.Version, 0, 0)
		_ = jst
		join := srgen.Action{Name: "dave-joins", Type: "m.room.member", SK: srgen.Dave, Sender: srgen.Dave, Content: `{"membership":"join"}`}
		state := srgen.State{}
		for i, e := range jh.Order {
			_ = i
			state[e.Key()] = e
		}
		je := jh.Add(join, state, []string{jh.Order[len(jh.Order)-1].ID})
		jreal, _, err := fedgen.Materialise(jh, nil)
		if err != nil {
			return fmt.Errorf("harness: %v", err)
		}
		// the join event must cite the same (real) IDs as the response's events: the base room is deterministic
		jp, err := ver.NewEventFromTrustedJSON(jreal[je.ID].JSON, false)
		if err != nil {
			return fmt.Errorf("harness: %v", err)
		}
		_ = real
		if jcase == "dave-banned-by-state" {
			continue // covered by C15's HandleSendJoin product; here only the response-side conditions vary
		}
		var sj gmsl.StateResponse
		var serr error
		if p, msg := harness.Try(func() {
			sj, serr = gmsl.CheckSendJoinResponse(context.Background(), gmsl.RoomVersion(c.Version), resp, fedgen.Verifier{}, jp, provider, fedgen.UID)
		}); p {
			return fmt.Errorf("CheckSendJoinResponse panics: %s", msg)
		}
		r.Eval()
		// oracle: allowed by its auth events among the returned (good) events, and by the returned state
		var as []gmsl.PDU
		retByID := map[string]gmsl.PDU{}
		for _, p := range append(append([]gmsl.PDU(nil), gotAuth...), gotState...) {
			retByID[p.EventID()] = p
		}
		for _, id := range jp.AuthEventIDs() {
			if a, ok := retByID[id]; ok {
				as = append(as, a)
			} else if c.Provider == "returns-event" {
				if rr := missing[id]; rr != nil {
					if a, err := ver.NewEventFromTrustedJSON(rr.JSON, false); err == nil {
						as = append(as, a)
					}
				}
			}
		}
		p1, _ := gmsl.NewAuthEvents(as)
		p2, _ := gmsl.NewAuthEvents(gotState)
		want := gmsl.Allowed(jp, p1, fedgen.UID) == nil && gmsl.Allowed(jp, p2, fedgen.UID) == nil
		if (serr == nil) != want {
			return fmt.Errorf("faults %v, provider %s: CheckSendJoinResponse accepted=%v (%v) but the join is allowed by its auth events and by the returned state = %v", c.Faults, c.Provider, serr == nil, serr, want)
		}
		if serr == nil {
			r.Outcome("send-join-accepted")
			if len(sj.GetStateEvents()) != len(gotState) || len(sj.GetAuthEvents()) != len(gotAuth) {
				return fmt.Errorf("CheckSendJoinResponse returns %d/%d events, CheckStateResponse %d/%d", len(sj.GetAuthEvents()), len(sj.GetStateEvents()), len(gotAuth), len(gotState))
			}
		} else {
			r.Outcome("send-join-refused")
		}
	}
	if len(c.Faults) > 0 {
		r.Nontrivial(fmt.Sprintf("%s|%v|%s", c.Version, c.Faults, c.Provider))
	}
	return nil
}

func short(ids []string) []string {
	var o []string
	for _, s := range ids {
		if len(s) > 10 {
			s = s[:10]
		}
		o = append(o, s)
	}
	return o
}

// runStateForbidsJoin: a /send_join response whose state forbids the join (the joiner is banned / the room is
// invite-only) although the join event's own auth events - all of them part of that state - allow it: the join has to pass
// BOTH checks, so the response must be refused; the control (nothing forbids) must be accepted.
func runStateForbidsJoin(r *harness.Run, version, mode string) error {
	r.Eval()
	ver := gmsl.MustGetRoomVersion(gmsl.RoomVersion(version))
	h, st := srgen.New(version, 0, 0)
	tip := []string{h.Order[len(h.Order)-1].ID}
	// the join cites the room as it was before the offending change
	join := srgen.Action{Name: "dave-joins", Type: "m.room.member", SK: srgen.Dave, Sender: srgen.Dave, Content: `{"membership":"join"}`}
	je := h.Add(join, st, tip)
	state := st
	switch mode {
	case "banned":
		state, _, _ = h.Branch(st, tip, []srgen.Action{{Name: "alice-bans-dave", Type: "m.room.member", SK: srgen.Dave, Sender: srgen.Alice, Content: `{"membership":"ban"}`}})
	case "invite-only":
		state, _, _ = h.Branch(st, tip, []srgen.Action{{Name: "jr-invite", Type: "m.room.join_rules", SK: "", Sender: srgen.Alice, Content: `{"join_rule":"invite"}`}})
	}
	real, _, err := fedgen.Materialise(h, nil)
	if err != nil {
		return fmt.Errorf("harness: %v", err)
	}
	resp := &stateResp{}
	var ids []string
	for _, e := range state {
		ids = append(ids, real[e.ID].ID)
	}
	sort.Strings(ids)
	byID := map[string]*fedgen.Real{}
	for _, rr := range real {
		byID[rr.ID] = rr
	}
	for _, id := range ids {
		resp.state = append(resp.state, byID[id].JSON)
	}
	// the auth chain: every event of the history except the join itself (superseded events included)
	for _, e := range h.Order {
		if e.ID != je.ID {
			resp.auth = append(resp.auth, real[e.ID].JSON)
		}
	}
	jp, err := ver.NewEventFromTrustedJSON(real[je.ID].JSON, false)
	if err != nil {
		return fmt.Errorf("harness: %v", err)
	}
	provider := func(gmsl.RoomVersion, []string) ([]gmsl.PDU, error) { return nil, nil }
	var serr error
	if p, msg := harness.Try(func() {
		_, serr = gmsl.CheckSendJoinResponse(context.Background(), gmsl.RoomVersion(version), resp, fedgen.Verifier{}, jp, provider, fedgen.UID)
	}); p {
		return fmt.Errorf("CheckSendJoinResponse panics: %s", msg)
	}
	want := mode == "control"
	if (serr == nil) != want {
		return fmt.Errorf("send_join response whose state is %q for the joiner (the auth events the join cites, all part of the state, allow it): accepted=%v (%v), expected accepted=%v", mode, serr == nil, serr, want)
	}
	r.Nontrivial("state-forbids|" + version + "|" + mode)
	return nil
}

type stateResp struct{ auth, state gmsl.EventJSONs }

func (s *stateResp) GetAuthEvents() gmsl.EventJSONs  { return s.auth }
func (s *stateResp) GetStateEvents() gmsl.EventJSONs { return s.state }

// ---------------------------------------------------------------- auth chain / auth rules at state / load

type chainCase struct {
	Version string
	Fault   map[string]string // nick -> missing | stripped
	Target  string
}

func runChain(r *harness.Run, c chainCase) error {
	r.Eval()
	h, byNick := buildRoom(c.Version)
	opts := map[string]fedgen.Opt{}
	for nick, f := range c.Fault {
		if f == "stripped" || f == "bare" {
			e := byNick[nick]
			var drop []string
			for _, a := range e.Auth {
				if a != h.CreateID || f == "bare" {
					drop = append(drop, a)
				}
			}
			opts[e.ID] = fedgen.Opt{DropAuth: drop}
		}
	}
	real, _, err := fedgen.Materialise(h, opts)
	if err != nil {
		return fmt.Errorf("harness: %v", err)
	}
	ver := gmsl.MustGetRoomVersion(gmsl.RoomVersion(c.Version))
	pdus := map[string]gmsl.PDU{}
	for _, rr := range real {
		p, err := ver.NewEventFromTrustedJSON(rr.JSON, false)
		if err != nil {
			return fmt.Errorf("harness: %v", err)
		}
		pdus[rr.ID] = p
	}
	missing := map[string]bool{}
	for nick, f := range c.Fault {
		if f == "missing" {
			missing[real[byNick[nick].ID].ID] = true
		}
	}
	provider := func(_ gmsl.RoomVersion, ids []string) ([]gmsl.PDU, error) {
		var out []gmsl.PDU
		for _, id := range ids {
			if p, ok := pdus[id]; ok && !missing[id] {
				out = append(out, p)
			}
		}
		return out, nil
	}
	// a provider that answers with more than it was asked for: the requested events plus their whole auth chains
	// (what /event_auth returns); the verdict must not depend on it
	eager := func(v gmsl.RoomVersion, ids []string) ([]gmsl.PDU, error) {
		var out []gmsl.PDU
		done := map[string]bool{}
		var add func(id string)
		add = func(id string) {
			if p, ok := pdus[id]; ok && !missing[id] && !done[id] {
				done[id] = true
				out = append(out, p)
				for _, a := range p.AuthEventIDs() {
					add(a)
				}
			}
		}
		for _, id := range ids {
			add(id)
		}
		return out, nil
	}
	target := pdus[real[byNick[c.Target].ID].ID]
	// before the judged calls, a check that fails half-way: an event of the same room that names a message-like event (no state
	// key) among its auth events, after the create, power-levels and member events. Nothing of what that refused check
	// collected may be left for the next one.
	if p, _ := harness.Try(func() {
		room := fedgen.RealRoom(h, real)
		var authIDs []string
		for _, nick := range []string{"create", "alice", "pl", "jr"} {
			if e := byNick[nick]; e != nil && real[e.ID] != nil {
				authIDs = append(authIDs, real[e.ID].ID)
			}
		}
		msgID, poisonID := "$poisonmsg:a.org", "$poisontarget:a.org"
		if refversions.Get(c.Version).EventFormat != 1 {
			msgID, poisonID = "$"+strings.Repeat("M", 43), "$"+strings.Repeat("T", 43)
		}
		msg := evgen.Ev{Type: "m.room.message", Sender: srgen.Alice, RoomID: room, Content: `{"body":"x"}`, Prev: []string{}, Auth: authIDs, Depth: 50, TS: 50, NoHash: true, EventID: msgID}
		mp, err := ver.NewEventFromTrustedJSONWithEventID(msgID, msg.JSON(c.Version), false)
		if err != nil {
			return
		}
		pt := evgen.Ev{Type: "m.room.message", Sender: srgen.Alice, RoomID: room, Content: `{"body":"y"}`, Prev: []string{}, Auth: append(append([]string{}, authIDs...), msgID), Depth: 51, TS: 51, NoHash: true, EventID: poisonID}
		pp, err := ver.NewEventFromTrustedJSONWithEventID(poisonID, pt.JSON(c.Version), false)
		if err != nil {
			return
		}
		withMsg := func(v gmsl.RoomVersion, ids []string) ([]gmsl.PDU, error) {
			out, _ := provider(v, ids)
			for _, id := range ids {
				if id == msgID {
					out = append(out, mp)
				}
			}
			return out, nil
		}
		_ = gmsl.VerifyEventAuthChain(context.Background(), pp, withMsg, fedgen.UID)
	}); p {
		return fmt.Errorf("VerifyEventAuthChain panics on an event that cites a message-like event as an auth event")
	}
	var got, gotEager error
	if p, msg := harness.Try(func() { got = gmsl.VerifyEventAuthChain(context.Background(), target, provider, fedgen.UID) }); p {
		return fmt.Errorf("VerifyEventAuthChain panics: %s", msg)
	}
	if p, msg := harness.Try(func() { gotEager = gmsl.VerifyEventAuthChain(context.Background(), target, eager, fedgen.UID) }); p {
		return fmt.Errorf("VerifyEventAuthChain panics with a provider that returns whole auth chains: %s", msg)
	}
	if (got == nil) != (gotEager == nil) {
		return fmt.Errorf("chain faults %v, target %s: VerifyEventAuthChain accepted=%v with a provider returning exactly what was asked, accepted=%v (%v) when the provider also returns the requested events' auth chains", c.Fault, c.Target, got == nil, gotEager == nil, gotEager)
	}
	// oracle: the target and, recursively, every fetched auth event is allowed by its (available) auth events
	ok := true
	seen := map[string]bool{}
	var visit func(p gmsl.PDU)
	visit = func(p gmsl.PDU) {
		if seen[p.EventID()] {
			return
		}
		seen[p.EventID()] = true
		var as []gmsl.PDU
		for _, id := range p.AuthEventIDs() {
			if a, have := pdus[id]; have && !missing[id] {
				as = append(as, a)
			}
		}
		prov, _ := gmsl.NewAuthEvents(as)
		if gmsl.Allowed(p, prov, fedgen.UID) != nil {
			ok = false
		}
		for _, a := range as {
			visit(a)
		}
	}
	visit(target)
	if (got == nil) != ok {
		return fmt.Errorf("chain faults %v, target %s: VerifyEventAuthChain accepted=%v (%v), every event of the chain allowed=%v", c.Fault, c.Target, got == nil, got, ok)
	}
	if ok {
		r.Outcome("chain-accepted")
	} else {
		r.Outcome("chain-refused")
	}
	// VerifyAuthRulesAtState on the same target
	for _, allowValidation := range []bool{true, false} {
		for _, stateMode := range []string{"full", "without-auth-events", "empty", "without-last-auth-event/padded", "without-first-auth-event/padded", "full/padded", "without-last-auth-event/plain-repeats"} {
			r.Eval()
			sp := &stateProv{pdus: map[string]gmsl.PDU{}}
			// the list of state IDs is a list, not a set: it may be long (IDs of events the provider then does not
			// return) and may name an event twice; neither changes which events the state consists of
			shape := ""
			if i := strings.IndexByte(stateMode, '/'); i >= 0 {
				stateMode, shape = stateMode[:i], stateMode[i+1:]
			}
			auth := target.AuthEventIDs()
			skip := ""
			switch stateMode {
			case "without-last-auth-event":
				if len(auth) > 0 {
					skip = auth[len(auth)-1]
				}
			case "without-first-auth-event":
				if len(auth) > 0 {
					skip = auth[0]
				}
			}
			for id, p := range pdus {
				if id == target.EventID() || missing[id] {
					continue
				}
				inAuth := false
				for _, a := range target.AuthEventIDs() {
					if a == id {
						inAuth = true
					}
				}
				if stateMode == "empty" || (stateMode == "without-auth-events" && inAuth) || id == skip {
					continue
				}
				sp.pdus[id] = p
			}
			if shape != "" {
				for _, a := range auth {
					if _, have := sp.pdus[a]; have {
						sp.repeat = append(sp.repeat, a, a)
					}
				}
				if shape == "padded" {
					sp.pad = 70
				}
			}
			var serr error
			if p, msg := harness.Try(func() {
				serr = gmsl.VerifyAuthRulesAtState(context.Background(), sp, target, allowValidation, fedgen.UID)
			}); p {
				return fmt.Errorf("VerifyAuthRulesAtState panics: %s", msg)
			}
			all := true
			var as []gmsl.PDU
			for _, a := range target.AuthEventIDs() {
				if p, ok := sp.pdus[a]; ok {
					as = append(as, p)
				} else {
					all = false
				}
			}
			prov, _ := gmsl.NewAuthEvents(as)
			want := (allowValidation && all) || gmsl.Allowed(target, prov, fedgen.UID) == nil
			if (serr == nil) != want {
				return fmt.Errorf("chain faults %v, target %s, state %s, allowValidation=%v: VerifyAuthRulesAtState accepted=%v (%v), expected %v", c.Fault, c.Target, stateMode, allowValidation, serr == nil, serr, want)
			}
		}
	}
	r.Nontrivial(fmt.Sprintf("chain|%s|%v|%s", c.Version, c.Fault, c.Target))
	return nil
}

type stateProv struct {
	pdus   map[string]gmsl.PDU
	repeat []string // IDs listed again
	pad    int      // IDs of events the provider does not have
}

func (s *stateProv) StateIDsBeforeEvent(ctx context.Context, event gmsl.PDU) ([]string, error) {
	var ids []string
	for id := range s.pdus {
		ids = append(ids, id)
	}
	sort.Strings(ids)
	ids = append(s.repeat[:len(s.repeat):len(s.repeat)], ids...)
	for i := 0; i < s.pad; i++ {
		ids = append(ids, fmt.Sprintf("$unknown%035d", i))
	}
	return ids, nil
}
func (s *stateProv) StateBeforeEvent(ctx context.Context, roomVer gmsl.RoomVersion, event gmsl.PDU, eventIDs []string) (map[string]gmsl.PDU, error) {
	out := map[string]gmsl.PDU{}
	for _, id := range eventIDs {
		if p, ok := s.pdus[id]; ok {
			out[id] = p
		}
	}
	return out, nil
}

type loadCase struct {
	Version string
	Inputs  []string // per input: nick[:fault] with fault in bad-signature | stripped | malformed | dup
	// Deep: nick:fault (stripped | bare) of events that are NOT inputs but lie in the inputs' auth chains and are served by
	// the event provider: the fault sits one or more levels below the events being loaded
	Deep []string `json:",omitempty"`
	// Again: the same loader is given the same batch a second time (RequestBackfill does that when two servers return
	// the same events); both rounds must classify alike
	Again bool `json:",omitempty"`
}

func runLoad(r *harness.Run, c loadCase) error {
	r.Eval()
	h, byNick := buildRoom(c.Version)
	opts := map[string]fedgen.Opt{}
	for _, in := range c.Inputs {
		parts := strings.SplitN(in, ":", 2)
		if len(parts) == 2 {
			e := byNick[parts[0]]
			switch parts[1] {
			case "bad-signature":
				opts[e.ID] = fedgen.Opt{BadSignature: true}
			case "stripped", "bare":
				var drop []string
				for _, a := range e.Auth {
					if a != h.CreateID || parts[1] == "bare" {
						drop = append(drop, a)
					}
				}
				opts[e.ID] = fedgen.Opt{DropAuth: drop}
			}
		}
	}
	for _, d := range c.Deep {
		parts := strings.SplitN(d, ":", 2)
		e := byNick[parts[0]]
		var drop []string
		for _, a := range e.Auth {
			if a != h.CreateID || parts[1] == "bare" {
				drop = append(drop, a)
			}
		}
		opts[e.ID] = fedgen.Opt{DropAuth: drop}
	}
	real, _, err := fedgen.Materialise(h, opts)
	if err != nil {
		return fmt.Errorf("harness: %v", err)
	}
	ver := gmsl.MustGetRoomVersion(gmsl.RoomVersion(c.Version))
	pdus := map[string]gmsl.PDU{}
	for _, rr := range real {
		if p, err := ver.NewEventFromTrustedJSON(rr.JSON, false); err == nil {
			pdus[rr.ID] = p
		}
	}
	var raw []json.RawMessage
	expect := map[string]string{} // event id -> class
	nMalformed := 0
	for _, in := range c.Inputs {
		parts := strings.SplitN(in, ":", 2)
		rr := real[byNick[parts[0]].ID]
		js := rr.JSON
		f := ""
		if len(parts) == 2 {
			f = parts[1]
		}
		if f == "malformed" {
			js = js[:len(js)/3]
			nMalformed++
		}
		raw = append(raw, json.RawMessage(js))
		switch f {
		case "bad-signature":
			expect[rr.ID] = "SignatureErr"
		case "stripped", "bare":
			expect[rr.ID] = "AuthChainErr"
		case "malformed":
		default:
			if _, set := expect[rr.ID]; !set {
				expect[rr.ID] = "ok"
			}
		}
	}
	provider := func(_ gmsl.RoomVersion, ids []string) ([]gmsl.PDU, error) {
		var out []gmsl.PDU
		for _, id := range ids {
			if p, ok := pdus[id]; ok {
				out = append(out, p)
			}
		}
		return out, nil
	}
	// an event fails the auth-chain check when it or any event of its chain (as the provider serves it) is not allowed
	chainOK := func(root gmsl.PDU) bool {
		ok := true
		seen := map[string]bool{}
		var visit func(p gmsl.PDU)
		visit = func(p gmsl.PDU) {
			if seen[p.EventID()] {
				return
			}
			seen[p.EventID()] = true
			var as []gmsl.PDU
			for _, id := range p.AuthEventIDs() {
				if a, have := pdus[id]; have {
					as = append(as, a)
				}
			}
			prov, _ := gmsl.NewAuthEvents(as)
			if gmsl.Allowed(p, prov, fedgen.UID) != nil {
				ok = false
			}
			for _, a := range as {
				visit(a)
			}
		}
		visit(root)
		return ok
	}
	for id, cls := range expect {
		if cls == "ok" || cls == "AuthChainErr" {
			if p := pdus[id]; p != nil {
				if chainOK(p) {
					expect[id] = "ok"
				} else {
					expect[id] = "AuthChainErr"
				}
			}
		}
	}
	sp := &stateProv{pdus: pdus}
	loader := gmsl.NewEventsLoader(gmsl.RoomVersion(c.Version), fedgen.Verifier{}, sp, provider, false)
	rounds := 1
	if c.Again {
		rounds = 2
	}
	for round := 1; round <= rounds; round++ {
		if err := loadRound(c, round, loader, raw, expect); err != nil {
			return err
		}
	}
	r.Nontrivial(fmt.Sprintf("load|%s|%v|%v|%v", c.Version, c.Inputs, c.Deep, c.Again))
	if len(c.Deep) > 0 {
		return nil
	}
	// the same batch through RequestBackfill: events failing only the signature check are kept (documented), nothing panics
	bf := &backfiller{sp: sp, provider: provider, pdus: raw}
	var out []gmsl.PDU
	if p, msg := harness.Try(func() {
		out, _ = gmsl.RequestBackfill(context.Background(), "me.org", bf, fedgen.Verifier{}, h.RoomID, gmsl.RoomVersion(c.Version), []string{"$from"}, 100, fedgen.UID)
	}); p {
		return fmt.Errorf("RequestBackfill panics on inputs %v: %s", c.Inputs, msg)
	}
	for _, p := range out {
		if cl := expect[p.EventID()]; cl != "ok" && cl != "SignatureErr" {
			return fmt.Errorf("RequestBackfill returned %s which fails %s", p.EventID()[:8], cl)
		}
	}
	return nil
}

func loadRound(c loadCase, round int, loader *gmsl.EventsLoader, raw []json.RawMessage, expect map[string]string) error {
	var res []gmsl.EventLoadResult
	var lerr error
	if p, msg := harness.Try(func() {
		res, lerr = loader.LoadAndVerify(context.Background(), raw, gmsl.TopologicalOrderByPrevEvents, fedgen.UID)
	}); p {
		return fmt.Errorf("LoadAndVerify panics: %s", msg)
	}
	if lerr != nil {
		return fmt.Errorf("LoadAndVerify error: %v", lerr)
	}
	if len(res) != len(raw) {
		return fmt.Errorf("inputs %v: %d results for %d inputs", c.Inputs, len(res), len(raw))
	}
	seenMal := 0
	distinct := map[string]bool{}
	for i, x := range res {
		if x.Event != nil {
			if distinct[x.Event.EventID()] {
				return fmt.Errorf("inputs %v: two results carry the event %s", c.Inputs, x.Event.EventID()[:8])
			}
			distinct[x.Event.EventID()] = true
		}
		if x.Event == nil {
			if x.Error == nil {
				return fmt.Errorf("inputs %v: result %d carries neither an event nor an error", c.Inputs, i)
			}
			seenMal++
			continue
		}
		cls := "ok"
		switch x.Error.(type) {
		case nil:
		case gmsl.SignatureErr:
			cls = "SignatureErr"
		case gmsl.AuthChainErr:
			cls = "AuthChainErr"
		case gmsl.AuthRulesErr:
			cls = "AuthRulesErr"
		default:
			cls = "other:" + x.Error.Error()
		}
		if want := expect[x.Event.EventID()]; want != cls {
			return fmt.Errorf("inputs %v (faults below them: %v; round %d through one loader): event %s classified %s, the first check it fails is %s", c.Inputs, c.Deep, round, x.Event.EventID()[:8], cls, want)
		}
	}
	return nil
}

type backfiller struct {
	sp       *stateProv
	provider gmsl.EventProvider
	pdus     []json.RawMessage
}

func (b *backfiller) StateIDsBeforeEvent(ctx context.Context, event gmsl.PDU) ([]string, error) {
	return b.sp.StateIDsBeforeEvent(ctx, event)
}
func (b *backfiller) StateBeforeEvent(ctx context.Context, v gmsl.RoomVersion, e gmsl.PDU, ids []string) (map[string]gmsl.PDU, error) {
	return b.sp.StateBeforeEvent(ctx, v, e, ids)
}
func (b *backfiller) Backfill(ctx context.Context, origin, server spec.ServerName, roomID string, limit int, from []string) (gmsl.Transaction, error) {
	return gmsl.Transaction{PDUs: b.pdus}, nil
}
func (b *backfiller) ServersAtEvent(ctx context.Context, roomID, eventID string) []spec.ServerName {
	return []spec.ServerName{"a.org"}
}
func (b *backfiller) ProvideEvents(v gmsl.RoomVersion, ids []string) ([]gmsl.PDU, error) {
	return b.provider(v, ids)
}

func main() { harness.Main("C14", "fault_enumeration", run) }

func run(r *harness.Run) {
	r.Rule("federation responses built from a generated room (create, creator join, power levels, join rules, two joins, a topic) with hash-derived event IDs and reference signatures, room versions 1 and 10: every single and every pair of per-event faults {bad signature, not allowed by its own auth events, auth event missing from the response, wrong room, no state key, duplicate state key, malformed JSON, listed in both lists, listed in both lists with a forged signature on one of the copies (same event ID, different bytes)} x event-provider behaviour {returns event, returns nothing, errors} through CheckStateResponse and CheckSendJoinResponse; send_join responses whose state forbids the join although the auth events the join cites (all part of that state) allow it; VerifyEventAuthChain (with a provider returning exactly the requested events, and one returning their whole auth chains) / VerifyAuthRulesAtState with a missing or disallowed event at every depth x state contents (incl. lists of state IDs that are long and name events twice) x allowValidation; LoadAndVerify / RequestBackfill on every batch of <= 3 inputs over events x {intact, bad signature, disallowed, malformed, listed twice}, batches of <= 2 intact events with a disallowed event one or more levels below them in the auth chain (served by the provider), and the same loader given a batch twice. Oracle recomputed per event from already-checked parts (VerifyEventSignatures, Allowed on an independently assembled auth set).")
	r.Assume("VerifyEventSignatures and Allowed are used as sub-oracles (their own properties are C06 / C07)", "RequestBackfill keeping events whose only failure is the signature check is documented library behaviour")
	r.OnReplay("resp", func(raw json.RawMessage) error {
		var c respCase
		_ = json.Unmarshal(raw, &c)
		return run1(r, c)
	})
	r.OnReplay("sendjoin-state", func(raw json.RawMessage) error {
		var a []string
		if err := json.Unmarshal(raw, &a); err != nil || len(a) != 2 {
			return fmt.Errorf("bad replay input")
		}
		return runStateForbidsJoin(r, a[0], a[1])
	})
	r.OnReplay("chain", func(raw json.RawMessage) error {
		var c chainCase
		_ = json.Unmarshal(raw, &c)
		return runChain(r, c)
	})
	r.OnReplay("load", func(raw json.RawMessage) error {
		var c loadCase
		_ = json.Unmarshal(raw, &c)
		return runLoad(r, c)
	})
	if r.Replaying() {
		return
	}
	var cases []respCase
	for _, v := range []string{"10", "1"} {
		for _, pm := range providerModes {
			cases = append(cases, respCase{v, map[string]string{}, pm})
			for i, n1 := range nicks {
				for _, f1 := range faults[1:] {
					cases = append(cases, respCase{v, map[string]string{n1: f1}, pm})
					for _, n2 := range nicks[i+1:] {
						for _, f2 := range faults[1:] {
							if r.Quick() && pm != "returns-event" && f1 != "auth-missing-from-response" && f2 != "auth-missing-from-response" {
								continue // the provider only matters when something is missing
							}
							cases = append(cases, respCase{v, map[string]string{n1: f1, n2: f2}, pm})
						}
					}
				}
			}
		}
	}
	r.Parallel(len(cases), func(i int) {
		c := cases[i]
		if err := run1(r, c); err != nil {
			var fs []string
			for _, f := range c.Faults {
				fs = append(fs, f)
			}
			sort.Strings(fs)
			r.Violation(fmt.Sprintf("resp:%s/%s:%v:%s", c.Version, strings.Join(fs, "+"), c.Faults, c.Provider), err.Error(), "resp", c)
		}
	})
	r.Count("response_cases", int64(len(cases)))
	var chains []chainCase
	for _, v := range []string{"10", "1"} {
		for _, target := range []string{"topic", "carol", "bob", "jr", "pl"} {
			chains = append(chains, chainCase{v, map[string]string{}, target})
			for i, n1 := range nicks[:6] {
				for _, f1 := range []string{"missing", "stripped", "bare"} {
					if n1 == target && f1 == "missing" {
						continue
					}
					chains = append(chains, chainCase{v, map[string]string{n1: f1}, target})
					for _, n2 := range nicks[i+1 : 6] {
						for _, f2 := range []string{"missing", "stripped", "bare"} {
							if n2 == target && f2 == "missing" {
								continue
							}
							chains = append(chains, chainCase{v, map[string]string{n1: f1, n2: f2}, target})
						}
					}
				}
			}
		}
	}
	r.Parallel(len(chains), func(i int) {
		if err := runChain(r, chains[i]); err != nil {
			r.Violation(fmt.Sprintf("chain:%s:%v:%s", chains[i].Version, chains[i].Fault, chains[i].Target), err.Error(), "chain", chains[i])
		}
	})
	r.Count("chain_cases", int64(len(chains)))
	for _, v := range []string{"1", "6", "10", "12"} {
		for _, mode := range []string{"control", "banned", "invite-only"} {
			if err := runStateForbidsJoin(r, v, mode); err != nil {
				r.Violation(fmt.Sprintf("sendjoin-state:%s:%s", v, mode), err.Error(), "sendjoin-state", []string{v, mode})
			}
		}
	}
	var loads []loadCase
	var inputs []string
	for _, n := range []string{"topic", "carol", "bob", "pl"} {
		for _, f := range []string{"", ":bad-signature", ":stripped", ":bare", ":malformed"} {
			inputs = append(inputs, n+f)
		}
	}
	for _, v := range []string{"10", "1"} {
		for i, a := range inputs {
			loads = append(loads, loadCase{Version: v, Inputs: []string{a}})
			for j, b := range inputs {
				if j < i {
					continue
				}
				loads = append(loads, loadCase{Version: v, Inputs: []string{a, b}})
				if r.Thorough() || (i+j)%3 == 0 {
					for k, c := range inputs {
						if k < j {
							continue
						}
						loads = append(loads, loadCase{Version: v, Inputs: []string{a, b, c}})
					}
				}
			}
		}
	}
	// faults one or more levels below the loaded events (on an ancestor the provider serves), and the same loader used twice
	for _, v := range []string{"10", "1"} {
		plain := []string{"topic", "carol", "bob", "pl", "jr"}
		for _, dn := range []string{"alice", "pl", "jr", "bob"} {
			for _, df := range []string{"stripped", "bare"} {
				for i, a := range plain {
					if a == dn {
						continue
					}
					for _, again := range []bool{false, true} {
						loads = append(loads, loadCase{Version: v, Inputs: []string{a}, Deep: []string{dn + ":" + df}, Again: again})
					}
					for j, b := range plain {
						if j <= i || b == dn {
							continue
						}
						loads = append(loads, loadCase{Version: v, Inputs: []string{a, b}, Deep: []string{dn + ":" + df}}, loadCase{Version: v, Inputs: []string{b, a}, Deep: []string{dn + ":" + df}})
					}
				}
			}
		}
		for _, a := range inputs {
			loads = append(loads, loadCase{Version: v, Inputs: []string{a}, Again: true})
		}
	}
	r.Parallel(len(loads), func(i int) {
		if err := runLoad(r, loads[i]); err != nil {
			what := "misclassified"
			if strings.Contains(err.Error(), "panics") {
				what = "PANIC"
			} else if strings.Contains(err.Error(), "neither") || strings.Contains(err.Error(), "results for") {
				what = "result-count"
			}
			r.Violation(fmt.Sprintf("load:%s/%s:%v:%v:%v", loads[i].Version, what, loads[i].Inputs, loads[i].Deep, loads[i].Again), err.Error(), "load", loads[i])
		}
	})
	r.Count("load_cases", int64(len(loads)))
	r.Sample("resp", cases[len(cases)/3])
	r.Sample("chain", chains[len(chains)/2])
	r.Sample("load", loads[len(loads)/2])
}
