// Package srscn builds state-resolution scenarios (pairs / triples of honest
// branches off the base room) as real PDUs for the library and abstract events
// for refstate. Shared by C10 and C11.
package srscn

import (
	"fmt"
	"sort"
	"strings"

	gmsl "github.com/matrix-org/gomatrixserverlib"

	"verif/mc/authgen"
	"verif/mc/harness"
	"verif/mc/ref/refversions"
	"verif/mc/srgen"
)

type Scenario struct {
	Version        string
	IDMode, TSMode int
	A, B           []string // action names of the two branches
	Third          []string // optional third branch
	Prefix         []string // actions applied to the base room before the fork
	ThirdFromBase  bool     // the third branch forks off the base room, before the prefix
	// Reject, when > 0, marks the event with that creation sequence number as rejected for the caller's rejected-event
	// oracle (IsRejected): the fallback to an event's own auth events must skip it
	Reject int `json:",omitempty"`
}

type Built struct {
	H    *srgen.History
	Sets [][]*srgen.E
	All  []*srgen.E
	Sig  string
	PDUs map[string]gmsl.PDU
}

func byName(version string) map[string]srgen.Action {
	m := map[string]srgen.Action{}
	for _, a := range srgen.Actions(version) {
		m[a.Name] = a
	}
	return m
}

func Build(sc Scenario) *Built {
	acts := byName(sc.Version)
	h, base := srgen.New(sc.Version, sc.IDMode, sc.TSMode)
	tip := []string{h.Order[len(h.Order)-1].ID}
	base0, tip0 := base, tip
	if len(sc.Prefix) > 0 {
		var as []srgen.Action
		for _, n := range sc.Prefix {
			as = append(as, acts[n])
		}
		base, tip, _ = h.Branch(base, tip, as)
	}
	var sets [][]*srgen.E
	var sigs []string
	for bi, br := range [][]string{sc.A, sc.B, sc.Third} {
		if br == nil {
			continue
		}
		var as []srgen.Action
		for _, n := range br {
			as = append(as, acts[n])
		}
		from, ftip := base, tip
		if bi == 2 && sc.ThirdFromBase {
			from, ftip = base0, tip0
		}
		st, _, added := h.Branch(from, ftip, as)
		var set []*srgen.E
		for _, e := range st {
			set = append(set, e)
		}
		sort.Slice(set, func(i, j int) bool { return set[i].Seq < set[j].Seq })
		sets = append(sets, set)
		var names []string
		for _, e := range added {
			names = append(names, e.Type+"/"+e.SK+"/"+e.Sender+"/"+e.Content)
		}
		sigs = append(sigs, strings.Join(names, ";"))
	}
	sort.Strings(sigs)
	if sc.Reject > 0 && sc.Reject < len(h.Order) {
		h.Order[sc.Reject].Rejected = true
		sigs = append(sigs, fmt.Sprint("reject#", sc.Reject))
	}
	return &Built{H: h, Sets: sets, All: h.Order, Sig: strings.Join(sc.Prefix, ";") + fmt.Sprint(sc.ThirdFromBase) + ">>" + strings.Join(sigs, "||")}
}

func AlgoOf(version string) int { return refversions.Get(version).StateRes }

// Materialise builds the PDUs (once).
func (b *Built) Materialise() error {
	if b.PDUs != nil {
		return nil
	}
	b.PDUs = map[string]gmsl.PDU{}
	for _, e := range b.All {
		p, err := b.H.PDU(e)
		if err != nil {
			return fmt.Errorf("harness: %v", err)
		}
		b.PDUs[e.ID] = p
	}
	return nil
}

// V1Auth: the auth-type events on which all state sets agree (what the v1 resolver documents as its authEvents).
func (b *Built) V1Auth() []*srgen.E {
	keyIDs := map[string]map[string]bool{}
	for _, s := range b.Sets {
		for _, e := range s {
			if keyIDs[e.Key()] == nil {
				keyIDs[e.Key()] = map[string]bool{}
			}
			keyIDs[e.Key()][e.ID] = true
		}
	}
	var out []*srgen.E
	for _, e := range b.Sets[0] {
		if len(keyIDs[e.Key()]) != 1 {
			continue
		}
		switch e.Type {
		case "m.room.create", "m.room.power_levels", "m.room.join_rules", "m.room.member", "m.room.third_party_invite":
			out = append(out, e)
		}
	}
	return out
}

// AuthFor returns the auth-event list the resolver of this version is given.
func (b *Built) AuthFor(version string) []*srgen.E {
	if AlgoOf(version) == 1 {
		return b.V1Auth()
	}
	return b.All
}

func (b *Built) IsRejected(id string) bool { return b.H.Events[id] != nil && b.H.Events[id].Rejected }

// PDUList maps abstract events to PDUs.
func (b *Built) PDUList(es []*srgen.E) []gmsl.PDU {
	out := make([]gmsl.PDU, 0, len(es))
	for _, e := range es {
		out = append(out, b.PDUs[e.ID])
	}
	return out
}

func IDs(res []gmsl.PDU) []string {
	var ids []string
	for _, p := range res {
		ids = append(ids, p.EventID())
	}
	sort.Strings(ids)
	return ids
}

// ResolveNew calls the current entry point with the given presentation of the inputs.
func (b *Built) ResolveNew(version string, sets [][]gmsl.PDU, auth []gmsl.PDU) (res []gmsl.PDU, err error) {
	// what PowerLevels() hands out belongs to the caller: scribbling over it must not change what resolution reads
	authgen.ScribblePowerLevels(auth)
	if p, msg := harness.Try(func() {
		res, err = gmsl.ResolveConflictsNew(gmsl.RoomVersion(version), sets, auth, authgen.UID, b.IsRejected)
	}); p {
		return nil, fmt.Errorf("ResolveConflictsNew panics: %s", msg)
	}
	if err != nil {
		return nil, fmt.Errorf("ResolveConflictsNew: %v", err)
	}
	return res, nil
}

// ResolveOld calls the deprecated flat-list entry point.
func (b *Built) ResolveOld(version string, events []gmsl.PDU, auth []gmsl.PDU) (res []gmsl.PDU, err error) {
	if p, msg := harness.Try(func() {
		res, err = gmsl.ResolveConflicts(gmsl.RoomVersion(version), events, auth, authgen.UID, b.IsRejected)
	}); p {
		return nil, fmt.Errorf("ResolveConflicts panics: %s", msg)
	}
	if err != nil {
		return nil, fmt.Errorf("ResolveConflicts: %v", err)
	}
	return res, nil
}
