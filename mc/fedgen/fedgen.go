// Package fedgen turns an srgen history into fully formed federation events:
// correct content hashes, real (hash-derived) event IDs substituted into later
// events' prev/auth lists, and reference signatures by the servers the
// protocol requires - all computed with the reference packages.
package fedgen

import (
	"context"
	"fmt"
	"strings"

	gmsl "github.com/matrix-org/gomatrixserverlib"
	"github.com/matrix-org/gomatrixserverlib/spec"

	"verif/mc/evgen"
	"verif/mc/ref/refevent"
	"verif/mc/ref/refversions"
	"verif/mc/srgen"
)

var Keys = map[string]evgen.Key{
	"a.org": evgen.NewKey("a.org", "ed25519:1", 31), "b.org": evgen.NewKey("b.org", "ed25519:1", 32),
	"c.org": evgen.NewKey("c.org", "ed25519:1", 33), "d.org": evgen.NewKey("d.org", "ed25519:1", 34),
}

// Verifier is a static key ring: it verifies signatures with the fixed keys (key validity is C06/C12's subject).
type Verifier struct{}

func (Verifier) VerifyJSONs(ctx context.Context, reqs []gmsl.VerifyJSONRequest) ([]gmsl.VerifyJSONResult, error) {
	out := make([]gmsl.VerifyJSONResult, len(reqs))
	for i, rq := range reqs {
		k, ok := Keys[string(rq.ServerName)]
		if !ok {
			out[i].Error = fmt.Errorf("unknown server %s", rq.ServerName)
			continue
		}
		out[i].Error = gmsl.VerifyJSON(k.Server, gmsl.KeyID(k.KeyID), k.Pub, rq.Message)
	}
	return out, nil
}

func UID(_ spec.RoomID, s spec.SenderID) (*spec.UserID, error) { return spec.NewUserID(string(s), true) }

// Opt tweaks one event while it is materialised.
type Opt struct {
	BadSignature bool     // corrupt the sender's server signature
	DropAuth     []string // nominal IDs to leave out of auth_events (makes the event unauthorised by its own auth events)
	Room         string   // override room_id
	NoStateKey   bool     // emit without state_key
	ContentOverride string
	StateKey     *string  // override state_key
	Unsigned     bool     // no signatures at all
	TypeOverride string
}

type Real struct {
	Nominal string
	ID      string
	JSON    []byte
	E       *srgen.E
}

// RealRoom is the room ID the materialised events carry.
func RealRoom(h *srgen.History, real map[string]*Real) string {
	if refversions.Get(h.Version).DomainlessRoomIDs {
		if c := real[h.CreateID]; c != nil {
			return "!" + c.ID[1:]
		}
	}
	return h.RoomID
}

// Materialise builds the events of h in creation order. opts is keyed by nominal ID.
func Materialise(h *srgen.History, opts map[string]Opt) (map[string]*Real, []*Real, error) {
	row := refversions.Get(h.Version)
	byNominal := map[string]*Real{}
	var order []*Real
	mapIDs := func(ids []string, drop []string) []string {
		out := []string{}
		for _, id := range ids {
			skip := false
			for _, d := range drop {
				if d == id {
					skip = true
				}
			}
			if skip {
				continue
			}
			if r := byNominal[id]; r != nil {
				out = append(out, r.ID)
			} else {
				out = append(out, id)
			}
		}
		return out
	}
	room := h.RoomID
	for _, e := range h.Order {
		o := opts[e.ID]
		sk := e.SK
		ev := evgen.Ev{Type: e.Type, Sender: e.Sender, RoomID: room, StateKey: &sk, Content: e.Content, Prev: mapIDs(e.Prev, nil), Auth: mapIDs(e.Auth, o.DropAuth), Depth: e.Depth, TS: e.TS, EventID: e.ID}
		if o.Room != "" {
			ev.RoomID = o.Room
		}
		if o.NoStateKey {
			ev.StateKey = nil
		}
		if o.ContentOverride != "" {
			ev.Content = o.ContentOverride
		}
		if o.StateKey != nil {
			ev.StateKey = o.StateKey
		}
		if o.TypeOverride != "" {
			ev.Type = o.TypeOverride
		}
		if row.DomainlessRoomIDs && e.Type == "m.room.create" && e.SK == "" {
			ev.RoomID = ""
		}
		js := ev.JSON(h.Version)
		// required signers: sender's server (+ the event ID's server in v1/v2, + invited user's server)
		servers := map[string]bool{refevent.ServerOf(e.Sender): true}
		if row.EventIDFormat == 1 {
			servers[refevent.ServerOf(e.ID)] = true
		}
		if e.Type == "m.room.member" && strings.Contains(e.Content, `"invite"`) {
			servers[refevent.ServerOf(e.SK)] = true
		}
		var ks []evgen.Key
		for s := range servers {
			k, ok := Keys[s]
			if !ok {
				return nil, nil, fmt.Errorf("no key for server %s", s)
			}
			if o.BadSignature && s == refevent.ServerOf(e.Sender) {
				k = evgen.NewKey(s, k.KeyID, 99) // signed by a key that is not the server's
			}
			ks = append(ks, k)
		}
		if !o.Unsigned {
			js = evgen.SignEvent(h.Version, js, ks...)
		}
		id := e.ID
		if row.EventIDFormat != 1 {
			id = refevent.EventID(h.Version, evgen.MustParse(js))
		}
		if row.DomainlessRoomIDs && e.Type == "m.room.create" && e.SK == "" {
			room = "!" + id[1:] // the room ID is the create event's reference hash
		}
		r := &Real{Nominal: e.ID, ID: id, JSON: js, E: e}
		byNominal[e.ID] = r
		order = append(order, r)
	}
	return byNominal, order, nil
}
