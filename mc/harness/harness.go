// Package harness is the common frame of every check binary: flags, counters,
// violation / known-finding bookkeeping, replay files, evidence output and the
// exit-code contract (0 held, 1 violation, 2 harness error).
package harness

import (
	"bufio"
	"crypto/sha256"
	"encoding/json"
	"flag"
	"fmt"
	"io"
	"os"
	"path/filepath"
	"regexp"
	"runtime"
	"runtime/debug"
	"sort"
	"strconv"
	"strings"
	"sync"
	"sync/atomic"
	"time"

	"github.com/sirupsen/logrus"
)

const Root = "/verif"

// OutRoot is where .work, evidence and replays go: /verif, unless VERIF_OUT relocates a trial run against a scratch copy of the
// library (seeded changes tried in parallel); registered checks never set it.
var OutRoot = func() string {
	if o := os.Getenv("VERIF_OUT"); o != "" {
		return o
	}
	return Root
}()

// Out is the check's real standard output. While a check runs, os.Stdout is nil (writes are refused without a system call) because the
// library itself prints debug lines to it (state resolution v2.1 does); only the harness writes results.
var Out = os.Stdout

type finding struct {
	Key  string
	What string
	hits atomic.Int64
}

type Violation struct {
	Key    string      `json:"key"`
	What   string      `json:"what"`
	Kind   string      `json:"kind"`
	Input  interface{} `json:"input"`
	Replay string      `json:"-"`
}

// Run is the state of one check run.
type Run struct {
	ID, Tier, Level string
	Seed            int64
	ReplayPath      string
	start           time.Time
	deadline        time.Time

	mu          sync.Mutex
	evals       atomic.Int64
	transitions atomic.Int64
	validated   atomic.Int64
	nontrivial  map[[16]byte]struct{}
	states      map[[16]byte]struct{}
	outcomes    map[string]int64
	counters    map[string]int64
	samples     []interface{}
	sampleKinds map[string]int
	violations  []*Violation
	violKeys    map[string]bool
	violClass   map[string]int64
	nViol       int64
	findings    []*finding
	exhaustive  bool
	caps        []string
	rule        string
	assumptions []string
	extra       map[string]interface{}
	replayers   map[string]func(json.RawMessage) error
}

// Main parses flags, runs body and exits with the contract's code.
func Main(id, level string, body func(r *Run)) {
	tier := flag.String("tier", os.Getenv("VERIF_TIER"), "quick|thorough")
	replay := flag.String("replay", "", "replay file")
	flag.Parse()
	logrus.SetOutput(io.Discard)       // the library logs warnings on scripted faults; they are not results
	logrus.SetLevel(logrus.PanicLevel) // and formatting them costs more than the checks themselves
	// a nil *os.File refuses writes without a system call: the library's fmt.Printf calls (v2.1 resolution prints every
	// conflicted subgraph it finds) then cost formatting only
	os.Stdout = nil
	if *tier == "" {
		*tier = "quick"
	}
	seed, _ := strconv.ParseInt(os.Getenv("VERIF_SEED"), 10, 64)
	r := &Run{ID: id, Tier: *tier, Level: level, Seed: seed, ReplayPath: *replay, start: time.Now(),
		nontrivial: map[[16]byte]struct{}{}, states: map[[16]byte]struct{}{}, outcomes: map[string]int64{},
		counters: map[string]int64{}, sampleKinds: map[string]int{}, violKeys: map[string]bool{}, violClass: map[string]int64{},
		exhaustive: true, extra: map[string]interface{}{}, replayers: map[string]func(json.RawMessage) error{}}
	r.loadFindings()
	defer func() {
		if p := recover(); p != nil {
			fmt.Fprintf(os.Stderr, "HARNESS-ERROR %s: panic: %v\n%s\n", id, p, debug.Stack())
			os.Exit(2)
		}
	}()
	body(r)
	r.finish()
}

func (r *Run) Quick() bool    { return r.Tier != "thorough" }
func (r *Run) Thorough() bool { return r.Tier == "thorough" }

// Pick returns q for the quick tier and t for the thorough tier.
func (r *Run) Pick(q, t int) int {
	if r.Thorough() {
		return t
	}
	return q
}

// PickInts is Pick for menus.
func (r *Run) PickInts(q, t []int) []int {
	if r.Thorough() {
		return t
	}
	return q
}

// PickStrings is PickInts for strings.
func (r *Run) PickStrings(q, t []string) []string {
	if r.Thorough() {
		return t
	}
	return q
}

// Budget sets an internal wall-clock budget; Expired reports when it has passed
// (the run then stops enumerating, records a cap and still exits 0).
func (r *Run) Budget(d time.Duration) { r.deadline = r.start.Add(d) }
func (r *Run) Expired() bool {
	return !r.deadline.IsZero() && time.Now().After(r.deadline)
}

// Cap records that an enumeration was cut short.
func (r *Run) Cap(what string) {
	r.mu.Lock()
	defer r.mu.Unlock()
	r.exhaustive = false
	for _, c := range r.caps {
		if c == what {
			return
		}
	}
	r.caps = append(r.caps, what)
}

func (r *Run) Rule(s string)      { r.rule = s }
func (r *Run) Assume(s ...string) { r.assumptions = append(r.assumptions, s...) }
func (r *Run) Extra(k string, v interface{}) {
	r.mu.Lock()
	r.extra[k] = v
	r.mu.Unlock()
}

func (r *Run) Eval()              { r.evals.Add(1) }
func (r *Run) Evals(n int64)      { r.evals.Add(n) }
func (r *Run) Transition(n int64) { r.transitions.Add(n) }
func (r *Run) Validated(n int64)  { r.validated.Add(n) }
func (r *Run) EvalCount() int64   { return r.evals.Load() }

func h16(s string) [16]byte {
	h := sha256.Sum256([]byte(s))
	var o [16]byte
	copy(o[:], h[:16])
	return o
}

// Nontrivial records a distinct non-trivial case identified by key.
func (r *Run) Nontrivial(key string) {
	k := h16(key)
	r.mu.Lock()
	r.nontrivial[k] = struct{}{}
	r.mu.Unlock()
}

// State records a distinct canonical state fingerprint; reports whether new.
func (r *Run) State(key string) bool {
	k := h16(key)
	r.mu.Lock()
	_, ok := r.states[k]
	if !ok {
		r.states[k] = struct{}{}
	}
	r.mu.Unlock()
	return !ok
}

// Outcome counts an observed outcome class (few distinct strings).
func (r *Run) Outcome(o string) {
	r.mu.Lock()
	r.outcomes[o]++
	r.mu.Unlock()
}

func (r *Run) Count(name string, n int64) {
	r.mu.Lock()
	r.counters[name] += n
	r.mu.Unlock()
}

// Sample keeps up to 3 samples per kind.
func (r *Run) Sample(kind string, v interface{}) {
	r.mu.Lock()
	if r.sampleKinds[kind] < 3 {
		r.sampleKinds[kind]++
		r.samples = append(r.samples, map[string]interface{}{"kind": kind, "case": v})
	}
	r.mu.Unlock()
}

// WantSample is a cheap pre-test so callers can avoid building sample values.
func (r *Run) WantSample(kind string) bool {
	r.mu.Lock()
	defer r.mu.Unlock()
	return r.sampleKinds[kind] < 3
}

// OnReplay registers how a violation of the given kind is re-executed from its
// recorded input; fn returns a non-nil error iff the violation reproduces.
func (r *Run) OnReplay(kind string, fn func(json.RawMessage) error) { r.replayers[kind] = fn }

// Replaying handles --replay: returns true if the run was a replay (body should return).
func (r *Run) Replaying() bool {
	if r.ReplayPath == "" {
		return false
	}
	b, err := os.ReadFile(r.ReplayPath)
	if err != nil {
		panic(err)
	}
	var v struct {
		Key, What, Kind string
		Input           json.RawMessage
	}
	if err := json.Unmarshal(b, &v); err != nil {
		panic(err)
	}
	fn := r.replayers[v.Kind]
	if fn == nil {
		panic("no replayer for kind " + v.Kind)
	}
	var first string
	hexAddr := regexp.MustCompile(`0x[0-9a-f]+\??`)
	for i := 0; i < 2; i++ { // determinism: identical observation twice
		// each replay starts from a clean memo: checks that deduplicate states would otherwise skip the second one
		r.mu.Lock()
		r.states, r.nontrivial = map[[16]byte]struct{}{}, map[[16]byte]struct{}{}
		r.mu.Unlock()
		e := fn(v.Input)
		s := "<nil>"
		if e != nil {
			s = hexAddr.ReplaceAllString(e.Error(), "0x?") // stack traces carry addresses
		}
		if i == 0 {
			first = s
		} else if s != first {
			panic("replay not deterministic: " + first + " vs " + s)
		}
	}
	if first != "<nil>" {
		fmt.Fprintf(Out, "replay reproduces: %s\n", first)
		fmt.Fprintf(Out, "VIOLATION property=%s replay=%s\n", r.ID, r.ReplayPath)
		os.Exit(1)
	}
	fmt.Fprintln(Out, "replay: violation does not reproduce on this tree")
	os.Exit(0)
	return true
}

func (r *Run) loadFindings() {
	f, err := os.Open(filepath.Join(Root, "known_findings.txt"))
	if err != nil {
		return
	}
	defer f.Close()
	sc := bufio.NewScanner(f)
	sc.Buffer(make([]byte, 1<<20), 1<<20)
	for sc.Scan() {
		line := strings.TrimSpace(sc.Text())
		if !strings.HasPrefix(line, "finding:") {
			continue // "fixed:" entries and comments suppress nothing
		}
		rest := strings.TrimSpace(strings.TrimPrefix(line, "finding:"))
		fs := strings.SplitN(rest, " ", 3)
		if len(fs) < 3 || fs[0] != "property="+r.ID || !strings.HasPrefix(fs[1], "key=") {
			continue
		}
		key, err := strconv.Unquote(strings.TrimPrefix(fs[1], "key="))
		if err != nil {
			key = strings.TrimPrefix(fs[1], "key=")
		}
		r.findings = append(r.findings, &finding{Key: key, What: fs[2]})
	}
}

// Violation reports a property violation. key identifies the failing input /
// call site / history (it is what known_findings.txt matches on, exactly);
// kind+input allow replay. Returns true if it was new (not a known finding).
func (r *Run) Violation(key, what, kind string, input interface{}) bool {
	for _, f := range r.findings {
		if f.Key == key {
			f.hits.Add(1)
			return false
		}
	}
	r.mu.Lock()
	defer r.mu.Unlock()
	r.nViol++
	class := key
	if i := strings.IndexByte(key, ':'); i >= 0 {
		class = key[:i]
		if j := strings.IndexByte(key[i+1:], ':'); j >= 0 {
			class = key[:i+1+j]
		}
	}
	r.violClass[class]++
	if r.violKeys[key] || len(r.violations) >= 40 || r.violClass[class] > 3 {
		return true
	}
	r.violKeys[key] = true
	r.violations = append(r.violations, &Violation{Key: key, What: what, Kind: kind, Input: input})
	return true
}

func (r *Run) ViolationCount() int64 {
	r.mu.Lock()
	defer r.mu.Unlock()
	return r.nViol
}

// Parallel runs f(i) for i in [0,n) on GOMAXPROCS workers; a panic in f is a harness error.
func (r *Run) Parallel(n int, f func(i int)) {
	w := runtime.GOMAXPROCS(0)
	if w > n {
		w = n
	}
	var wg sync.WaitGroup
	var next atomic.Int64
	var perr atomic.Value
	for k := 0; k < w; k++ {
		wg.Add(1)
		go func() {
			defer wg.Done()
			defer func() {
				if p := recover(); p != nil {
					perr.CompareAndSwap(nil, fmt.Sprintf("%v\n%s", p, debug.Stack()))
				}
			}()
			for {
				i := int(next.Add(1)) - 1
				if i >= n || perr.Load() != nil {
					return
				}
				f(i)
			}
		}()
	}
	wg.Wait()
	if v := perr.Load(); v != nil {
		panic(v)
	}
}

// Try runs f and converts a panic into (true, description).
func Try(f func()) (panicked bool, msg string) {
	defer func() {
		if p := recover(); p != nil {
			panicked = true
			st := string(debug.Stack())
			// keep the frames below the panic, trimmed
			lines := strings.Split(st, "\n")
			var keep []string
			for _, l := range lines {
				if strings.Contains(l, "gomatrixserverlib") && !strings.Contains(l, "verif/mc") {
					keep = append(keep, strings.TrimSpace(l))
					if len(keep) >= 4 {
						break
					}
				}
			}
			msg = fmt.Sprintf("%v @ %s", p, strings.Join(keep, " | "))
		}
	}()
	f()
	return
}

func (r *Run) finish() {
	wall := time.Since(r.start).Seconds()
	_ = os.MkdirAll(filepath.Join(OutRoot, "replays"), 0o755)
	_ = os.MkdirAll(filepath.Join(OutRoot, "evidence"), 0o755)
	for i, v := range r.violations {
		p := filepath.Join(OutRoot, "replays", fmt.Sprintf("%s-%d.json", r.ID, i+1))
		b, _ := json.MarshalIndent(map[string]interface{}{"property": r.ID, "key": v.Key, "what": v.What, "kind": v.Kind, "input": v.Input}, "", " ")
		_ = os.WriteFile(p, b, 0o644)
		v.Replay = p
	}
	evals := r.evals.Load()
	states := int64(len(r.states))
	if states == 0 {
		states = int64(len(r.nontrivial))
	}
	trans := r.transitions.Load()
	if trans == 0 {
		trans = evals
	}
	validated := r.validated.Load()
	if validated == 0 {
		validated = evals
	}
	known := []string{}
	for _, f := range r.findings {
		if n := f.hits.Load(); n > 0 {
			known = append(known, fmt.Sprintf("%s (%d occurrences)", f.Key, n))
		}
	}
	outc := map[string]int64{}
	for k, v := range r.outcomes {
		outc[k] = v
	}
	cov := map[string]interface{}{
		"evaluations": evals, "distinct_nontrivial": len(r.nontrivial), "rule": r.rule,
		"samples": r.samples, "states": states, "transitions": trans,
		"traces_validated_against_impl": validated, "exhaustive": r.exhaustive,
		"caps_hit": r.caps, "outcomes": outc, "counters": r.counters, "known_findings_hit": known,
	}
	for k, v := range r.extra {
		cov[k] = v
	}
	if len(r.samples) == 0 {
		cov["samples"] = []interface{}{"(no sample recorded)"}
	}
	ev := map[string]interface{}{
		"property_id": r.ID, "tier": r.Tier, "seed": r.Seed, "level": r.Level, "coverage": cov,
		"assumptions": r.assumptions, "wall_s": wall, "violations": r.nViol,
	}
	b, _ := json.MarshalIndent(ev, "", " ")
	if err := os.WriteFile(filepath.Join(OutRoot, "evidence", r.ID+".json"), b, 0o644); err != nil {
		fmt.Fprintln(os.Stderr, "HARNESS-ERROR: cannot write evidence:", err)
		os.Exit(2)
	}
	// summary
	keys := make([]string, 0, len(r.counters))
	for k := range r.counters {
		keys = append(keys, k)
	}
	sort.Strings(keys)
	fmt.Fprintf(Out, "%s tier=%s evaluations=%d distinct_nontrivial=%d states=%d transitions=%d outcomes=%d exhaustive=%v wall=%.1fs\n",
		r.ID, r.Tier, evals, len(r.nontrivial), states, trans, len(r.outcomes), r.exhaustive, wall)
	for _, k := range keys {
		fmt.Fprintf(Out, "  %s=%d\n", k, r.counters[k])
	}
	for _, c := range r.caps {
		fmt.Fprintf(Out, "  CAP: %s\n", c)
	}
	for _, f := range r.findings {
		if f.hits.Load() > 0 {
			fmt.Fprintf(Out, "KNOWN-FINDING: property=%s %s [key=%q, %d occurrences]\n", r.ID, f.What, f.Key, f.hits.Load())
		}
	}
	if len(r.violations) > 0 {
		for _, v := range r.violations {
			fmt.Fprintf(Out, "  violation: %s :: %s\n", v.Key, v.What)
		}
		fmt.Fprintf(Out, "  (%d violating cases in total, %d written; by class: %v)\n", r.nViol, len(r.violations), r.violClass)
		for _, v := range r.violations {
			fmt.Fprintf(Out, "VIOLATION property=%s replay=%s\n", r.ID, v.Replay)
		}
		os.Exit(1)
	}
	if evals == 0 {
		fmt.Fprintln(os.Stderr, "HARNESS-ERROR: nothing was evaluated")
		os.Exit(2)
	}
	os.Exit(0)
}

// Vacuous aborts as a harness error when a guard against vacuity fails.
func (r *Run) Vacuous(cond bool, msg string) {
	if cond {
		fmt.Fprintf(os.Stderr, "HARNESS-ERROR %s: vacuous exploration: %s\n", r.ID, msg)
		os.Exit(2)
	}
}

// J renders v as compact JSON (for keys and samples).
func J(v interface{}) string {
	b, _ := json.Marshal(v)
	return string(b)
}
