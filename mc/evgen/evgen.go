// Package evgen builds event JSON for every room version from a small
// description, computing content hashes and signatures with the reference
// packages only (never with the library under test).
package evgen

import (
	"crypto/ed25519"
	"crypto/sha256"
	"encoding/base64"
	"fmt"
	"sort"
	"strings"

	"verif/mc/ref/refevent"
	"verif/mc/ref/refjson"
	"verif/mc/ref/refredact"
	"verif/mc/ref/refversions"
)

type Ev struct {
	Type, Sender, RoomID string
	StateKey             *string
	Content              string // JSON object text
	Prev, Auth           []string
	Depth, TS            int64
	Redacts              string
	Unsigned             string            // JSON text or ""
	EventID              string            // format-1 versions only
	Extra                map[string]string // extra top-level keys: raw JSON text
	NoHash               bool
}

func S(s string) *string { return &s }

func q(s string) string { return string(refjson.AppendString(nil, s)) }

func refs(version string, ids []string) string {
	var parts []string
	for _, id := range ids {
		if refversions.Get(version).EventFormat == 1 {
			h := sha256.Sum256([]byte(id))
			parts = append(parts, fmt.Sprintf(`[%s,{"sha256":%s}]`, q(id), q(base64.RawStdEncoding.EncodeToString(h[:]))))
		} else {
			parts = append(parts, q(id))
		}
	}
	return "[" + strings.Join(parts, ",") + "]"
}

// Raw returns the event as a JSON text (not canonical: keys in insertion order), without hashes.
func (e Ev) members(version string) []string {
	row := refversions.Get(version)
	var m []string
	add := func(k, raw string) { m = append(m, q(k)+":"+raw) }
	add("type", q(e.Type))
	add("sender", q(e.Sender))
	if !(row.DomainlessRoomIDs && e.Type == "m.room.create" && e.StateKey != nil && *e.StateKey == "") || e.RoomID != "" {
		if e.RoomID != "" {
			add("room_id", q(e.RoomID))
		}
	}
	if e.StateKey != nil {
		add("state_key", q(*e.StateKey))
	}
	c := e.Content
	if c == "" {
		c = "{}"
	}
	add("content", c)
	add("prev_events", refs(version, e.Prev))
	add("auth_events", refs(version, e.Auth))
	add("depth", fmt.Sprint(e.Depth))
	add("origin_server_ts", fmt.Sprint(e.TS))
	if e.Redacts != "" {
		add("redacts", q(e.Redacts))
	}
	if e.Unsigned != "" {
		add("unsigned", e.Unsigned)
	}
	if row.EventFormat == 1 {
		id := e.EventID
		if id == "" {
			id = "$ev:" + refevent.ServerOf(e.Sender)
		}
		add("event_id", q(id))
	}
	keys := make([]string, 0, len(e.Extra))
	for k := range e.Extra {
		keys = append(keys, k)
	}
	sort.Strings(keys)
	for _, k := range keys {
		add(k, e.Extra[k])
	}
	return m
}

// JSON returns the event text with a correct content hash (unless NoHash).
func (e Ev) JSON(version string) []byte {
	m := e.members(version)
	text := "{" + strings.Join(m, ",") + "}"
	if e.NoHash {
		return []byte(text)
	}
	v, _, err := refjson.Parse([]byte(text))
	if err != nil {
		panic(fmt.Sprintf("evgen: bad event text %s: %v", text, err))
	}
	h := refevent.ContentHash(v)
	m = append(m, `"hashes":{"sha256":`+q(base64.RawStdEncoding.EncodeToString(h))+`}`)
	return []byte("{" + strings.Join(m, ",") + "}")
}

// Key is a fixed signing identity.
type Key struct {
	Server, KeyID string
	Priv          ed25519.PrivateKey
	Pub           ed25519.PublicKey
}

func NewKey(server, keyID string, seed byte) Key {
	s := make([]byte, ed25519.SeedSize)
	for i := range s {
		s[i] = seed
	}
	p := ed25519.NewKeyFromSeed(s)
	return Key{server, keyID, p, p.Public().(ed25519.PublicKey)}
}

// ObjectSignature is the reference signature of a JSON object: ed25519 over
// the canonical JSON of the object without "signatures" and "unsigned".
func ObjectSignature(obj *refjson.Value, k Key) []byte {
	stripped := &refjson.Value{Kind: refjson.Object}
	for _, m := range obj.Members {
		if m.Key != "signatures" && m.Key != "unsigned" {
			stripped.Members = append(stripped.Members, m)
		}
	}
	return ed25519.Sign(k.Priv, refjson.Canonical(stripped))
}

// EventSignature is the reference signature of an event: over its redacted form.
func EventSignature(version string, ev *refjson.Value, k Key) []byte {
	return ObjectSignature(refredact.Redact(version, ev), k)
}

// WithSignatures returns text with a "signatures" member holding sigs[server][keyID] = base64.
func WithSignatures(text []byte, sigs map[string]map[string][]byte) []byte {
	v, _, err := refjson.Parse(text)
	if err != nil {
		panic(err)
	}
	out := &refjson.Value{Kind: refjson.Object}
	for _, m := range v.Members {
		if m.Key != "signatures" {
			out.Members = append(out.Members, m)
		}
	}
	sv := &refjson.Value{Kind: refjson.Object}
	var servers []string
	for s := range sigs {
		servers = append(servers, s)
	}
	sort.Strings(servers)
	for _, s := range servers {
		kv := &refjson.Value{Kind: refjson.Object}
		var kids []string
		for k := range sigs[s] {
			kids = append(kids, k)
		}
		sort.Strings(kids)
		for _, k := range kids {
			kv.Members = append(kv.Members, refjson.Member{Key: k, Val: &refjson.Value{Kind: refjson.String, Str: base64.RawStdEncoding.EncodeToString(sigs[s][k])}})
		}
		sv.Members = append(sv.Members, refjson.Member{Key: s, Val: kv})
	}
	out.Members = append(out.Members, refjson.Member{Key: "signatures", Val: sv})
	return refjson.Emit(nil, out, true)
}

// SignEvent adds reference signatures by the given keys to an event text.
func SignEvent(version string, text []byte, keys ...Key) []byte {
	v, _, err := refjson.Parse(text)
	if err != nil {
		panic(err)
	}
	sigs := map[string]map[string][]byte{}
	for _, k := range keys {
		if sigs[k.Server] == nil {
			sigs[k.Server] = map[string][]byte{}
		}
		sigs[k.Server][k.KeyID] = EventSignature(version, v, k)
	}
	return WithSignatures(text, sigs)
}

// Get returns member k of a parsed object or nil.
func Get(v *refjson.Value, k string) *refjson.Value {
	if v == nil || v.Kind != refjson.Object {
		return nil
	}
	for _, m := range v.Members {
		if m.Key == k {
			return m.Val
		}
	}
	return nil
}

// MustParse parses or panics.
func MustParse(b []byte) *refjson.Value {
	v, _, err := refjson.Parse(b)
	if err != nil {
		panic(fmt.Sprintf("evgen: %v in %s", err, b))
	}
	return v
}

// B64 is unpadded standard base64.
func B64(b []byte) string { return base64.RawStdEncoding.EncodeToString(b) }

// DecodeB64 decodes unpadded standard base64.
func DecodeB64(s string) ([]byte, error) { return base64.RawStdEncoding.DecodeString(s) }

// CanonOf returns the canonical encoding of a parsed value (interface form for callers that hold *refjson.Value).
func CanonOf(v interface{}) []byte {
	if x, ok := v.(*refjson.Value); ok && x != nil {
		return refjson.Canonical(x)
	}
	return nil
}
