// Package poison makes failed calls precede the calls a check judges: an implementation that recycles scratch structures
// (pools, memoised decoders) must not let what a refused input left behind leak into the next result.
package poison

import (
	gmsl "github.com/matrix-org/gomatrixserverlib"
)

const all = `"type":"m.room.member","state_key":"@poison:a.org","sender":"@poison:a.org","room_id":"!poison:a.org","origin":"poison.org","membership":"join","prev_state":[["$p:a.org",{}]],"redacts":"$poison:a.org","depth":77,"origin_server_ts":77,"hashes":{"sha256":"poison"},"signatures":{"poison.org":{"ed25519:1":"x"}},"prev_events":[["$pp:a.org",{}]],"auth_events":[["$pa:a.org",{}]],"event_id":"$poison:a.org","unsigned":{"age":7,"replaces_state":"$r:a.org"},"age_ts":7`

var docs = [][]byte{
	[]byte(`{` + all + `,"content":[1,2]}`),
	[]byte(`{` + all + `,"content":{"membership":"join","join_rule":"public","creator":"@poison:a.org","n":1e400,"users":{"@poison:a.org":100},"ban":1,"kick":1,"invite":1,"redact":1,"events":{"p":1},"events_default":1,"state_default":1,"users_default":1,"history_visibility":"shared","aliases":["#p:a.org"],"join_authorised_via_users_server":"@poison:a.org","allow":[{"p":1}],"redacts":"$poison:a.org","third_party_invite":{"signed":{"p":1}}}}`),
	[]byte(`{"type":5,"state_key":"poison","sender":"@poison:a.org","room_id":"!poison:a.org","content":{"membership":"join"}}`),
	[]byte(`{` + all + `,"content":"a string"}`),
}

// Redaction runs redactions that are refused (or that at least carry every optional member) in the given room version.
func Redaction(version string) {
	ver, err := gmsl.GetRoomVersion(gmsl.RoomVersion(version))
	if err != nil {
		return
	}
	for _, d := range docs {
		func() {
			defer func() { _ = recover() }()
			_, _ = ver.RedactEventJSON(d)
			_, _ = ver.NewEventFromUntrustedJSON(d)
		}()
	}
}
