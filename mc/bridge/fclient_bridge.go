//go:build verif

package fclient

import (
	"context"
	"net"
	"net/http"
	"time"
)

// In-package access for the verification harness (added by build overlay only).

func VerifIsAllowed(ip net.IP, allow, deny []string) bool { return isAllowed(ip, allow, deny) }

// VerifControl runs the dialer control function for one (network, address).
func VerifControl(allow, deny []string, network, address string) error {
	return allowDenyNetworksControl(allow, deny)(context.Background(), network, address, nil)
}

// VerifDialerHasControl reports whether a client configured with these lists installs a control function at all.
func VerifDialerHasControl(allow, deny []string) bool {
	return newDestinationTripperDialer(allow, deny).ControlContext != nil
}

// VerifTripper exposes the federation transport cache (destinationTripper).
type VerifTripper struct{ f *destinationTripper }

func VerifNewTripper(wellKnownSRV bool) *VerifTripper {
	return &VerifTripper{newDestinationTripper(false, nil, false, wellKnownSRV, nil, nil)}
}

func (t *VerifTripper) RoundTrip(r *http.Request) (*http.Response, error) { return t.f.RoundTrip(r) }

// SetTransport pre-populates the transport used for one TLS server name.
func (t *VerifTripper) SetTransport(sni string, tr *http.Transport) {
	t.f.transportsMutex.Lock()
	defer t.f.transportsMutex.Unlock()
	e := &destinationTripperTransport{Transport: tr}
	e.lastUsed.Store(time.Now())
	t.f.transports[sni] = e
}

// GetTransport is getTransport with the tripper's own dialer.
func (t *VerifTripper) GetTransport(sni string) http.RoundTripper {
	return t.f.getTransport(sni, t.f.dialer)
}

func (t *VerifTripper) Reap() { t.f.reaper() }

func (t *VerifTripper) TransportNames() []string {
	t.f.transportsMutex.Lock()
	defer t.f.transportsMutex.Unlock()
	var out []string
	for k := range t.f.transports {
		out = append(out, k)
	}
	return out
}
