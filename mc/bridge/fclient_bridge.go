//go:build verif

package fclient

import "net"

func VerifIsAllowed(ip net.IP, allow, deny []string) bool { return isAllowed(ip, allow, deny) }
