//go:build verif

package gomatrixserverlib

import "github.com/matrix-org/gomatrixserverlib/spec"

// In-package access for the verification harness (added by build overlay only).

type VerifAllower struct{ a *allowerContext }

func VerifNewAllower(p AuthEventProvider, q spec.UserIDForSender, roomID spec.RoomID) *VerifAllower {
	return &VerifAllower{newAllowerContext(p, q, roomID)}
}
func (v *VerifAllower) Update(p AuthEventProvider) { v.a.update(p) }
func (v *VerifAllower) Allowed(e PDU) error       { return v.a.allowed(e) }

// VerifPowerOrder runs the resolver's reverse topological power ordering on a list of events.
func VerifPowerOrder(events, authEvents []PDU) []PDU {
	r := stateResolverV2{
		authEventMap:       eventMapFromEvents(authEvents),
		powerLevelContents: make(map[string]*PowerLevelContent),
		resolvedCreate:     getCreateEvent(authEvents),
	}
	return r.reverseTopologicalOrdering(events, TopologicalOrderByAuthEvents)
}

// VerifControlList reproduces (for diagnosis only) how ResolveStateConflictsV2New assembles the list of
// control events it hands to the power ordering, duplicates included.
func VerifControlList(stateResAlgo StateResAlgorithm, stateSets [][]PDU, authEvents []PDU) (control, others []PDU) {
	conflicted, unconflicted := splitConflictedUnconflicted(stateResAlgo, stateSets)
	r := stateResolverV2{authEventMap: eventMapFromEvents(authEvents), conflictedEventMap: eventMapFromEvents(conflicted)}
	unconflictedSet := newPDUSet(unconflicted)
	fullConflictedSet := append(conflicted, r.calculateAuthDifferenceNew(stateResAlgo, newPDUSet(conflicted), stateSets)...)
	visited := map[string]struct{}{}
	var fullControlSet func(event PDU) []PDU
	fullControlSet = func(event PDU) []PDU {
		events := []PDU{event}
		for _, authEventID := range event.AuthEventIDs() {
			if _, ok := visited[authEventID]; ok {
				continue
			}
			if event, ok := r.conflictedEventMap[authEventID]; ok {
				events = append(events, fullControlSet(event)...)
			}
			visited[authEventID] = struct{}{}
		}
		return events
	}
	pulled := map[string]struct{}{}
	for _, p := range fullConflictedSet {
		if unconflictedSet.Contains(p) {
			continue
		}
		if isControlEvent(p) {
			rel := fullControlSet(p)
			for _, e := range rel {
				pulled[e.EventID()] = struct{}{}
			}
			control = append(control, rel...)
		}
	}
	for _, p := range fullConflictedSet {
		if unconflictedSet.Contains(p) || isControlEvent(p) {
			continue
		}
		if _, ok := pulled[p.EventID()]; !ok {
			others = append(others, p)
		}
	}
	return
}

// VerifConflictedSubgraph runs the v2 / v2.1 auth-chain walk of one state set: the full auth chain and (v2.1) the
// conflicted subgraph, as event IDs.
func VerifConflictedSubgraph(stateResAlgo StateResAlgorithm, stateSet, conflicted, authEvents []PDU) (full, subgraph []string) {
	r := stateResolverV2{authEventMap: eventMapFromEvents(authEvents), conflictedEventMap: eventMapFromEvents(conflicted)}
	f, s := r.calculateFullAuthChainAndConflictedSubgraph(stateResAlgo, stateSet, newPDUSet(conflicted))
	for _, p := range f.Slice() {
		full = append(full, p.EventID())
	}
	for _, p := range s.Slice() {
		subgraph = append(subgraph, p.EventID())
	}
	return
}
