//go:build verif

package gomatrixserverlib

import "github.com/matrix-org/gomatrixserverlib/spec"

// In-package access for the verification harness (added by build overlay only).

type VerifAllower struct{ a *allowerContext }

func VerifNewAllower(p AuthEventProvider, q spec.UserIDForSender, roomID spec.RoomID) *VerifAllower {
	return &VerifAllower{newAllowerContext(p, q, roomID)}
}
func (v *VerifAllower) Update(p AuthEventProvider) { v.a.update(p) }
func (v *VerifAllower) Allowed(e PDU) error       { return v.a.allowed(e) }
