//go:build verif

package fclient

import (
	"context"
	"net"
	"sort"
	"time"
)

// In-package access to the DNS cache for the concurrency check (instrumented flavour only).

// VerifResolver scripts the resolver behind a DNSCache.
type VerifResolver func(ctx context.Context, host string) ([]net.IPAddr, error)

type verifResolver struct{ f VerifResolver }

func (r verifResolver) LookupIPAddr(ctx context.Context, host string) ([]net.IPAddr, error) {
	return r.f(ctx, host)
}

type VerifDNS struct{ C *DNSCache }

// VerifNewDNSCache builds a real DNSCache over a scripted resolver. Every network is denied, so that DialContext fails in
// the dialer's control function, before any packet could leave.
func VerifNewDNSCache(size int, d time.Duration, r VerifResolver) *VerifDNS {
	c := NewDNSCache(size, d, nil, []string{"0.0.0.0/0", "::/0"})
	c.resolver = verifResolver{r}
	return &VerifDNS{c}
}

func (v *VerifDNS) Lookup(host string) (addrs []net.IPAddr, expires time.Time, cached, ok bool) {
	e, cached := v.C.lookup(context.Background(), host)
	if e == nil {
		return nil, time.Time{}, cached, false
	}
	return e.addrs, e.expires, cached, true
}

func (v *VerifDNS) Dial(address string) error {
	conn, err := v.C.DialContext(context.Background(), "tcp", address)
	if conn != nil {
		_ = conn.Close()
	}
	return err
}

// Len reads the entry count without the lock: for a harness that runs under the cooperative scheduler (or after joining).
func (v *VerifDNS) Len() int { return len(v.C.entries) }

type VerifDNSEntry struct {
	Host    string
	Addrs   []net.IPAddr
	Expires time.Time
}

// Entries is an unsynchronised snapshot (same caveat as Len).
func (v *VerifDNS) Entries() []VerifDNSEntry {
	var out []VerifDNSEntry
	for h, e := range v.C.entries {
		out = append(out, VerifDNSEntry{h, e.addrs, e.expires})
	}
	sort.Slice(out, func(i, j int) bool { return out[i].Host < out[j].Host })
	return out
}

// VerifTransportSNI reports the TLS server name a transport returned by GetTransport was built for, and its identity.
func VerifTransportSNI(rt interface{}) (sni string, id interface{}) {
	t, ok := rt.(*destinationTripperTransport)
	if !ok || t.TLSClientConfig == nil {
		return "", nil
	}
	return t.TLSClientConfig.ServerName, t
}
