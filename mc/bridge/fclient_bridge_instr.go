//go:build verif

package fclient

import (
	"context"
	"net"
	"net/http"
	"sort"
	"time"

	"github.com/matrix-org/gomatrixserverlib/spec"
)

// In-package access to the DNS cache for the concurrency check (instrumented flavour only).

// VerifResolver scripts the resolver behind a DNSCache.
type VerifResolver func(ctx context.Context, host string) ([]net.IPAddr, error)

type verifResolver struct{ f VerifResolver }

func (r verifResolver) LookupIPAddr(ctx context.Context, host string) ([]net.IPAddr, error) {
	return r.f(ctx, host)
}

type VerifDNS struct{ C *DNSCache }

// VerifNewDNSCache builds a real DNSCache over a scripted resolver. Every network is denied, so that DialContext fails in
// the dialer's control function, before any packet could leave.
func VerifNewDNSCache(size int, d time.Duration, r VerifResolver) *VerifDNS {
	c := NewDNSCache(size, d, nil, []string{"0.0.0.0/0", "::/0"})
	c.resolver = verifResolver{r}
	return &VerifDNS{c}
}

func (v *VerifDNS) Lookup(host string) (addrs []net.IPAddr, expires time.Time, cached, ok bool) {
	e, cached := v.C.lookup(context.Background(), host)
	if e == nil {
		return nil, time.Time{}, cached, false
	}
	return e.addrs, e.expires, cached, true
}

func (v *VerifDNS) Dial(address string) error {
	conn, err := v.C.DialContext(context.Background(), "tcp", address)
	if conn != nil {
		_ = conn.Close()
	}
	return err
}

// Len reads the entry count without the lock: for a harness that runs under the cooperative scheduler (or after joining).
func (v *VerifDNS) Len() int { return len(v.C.entries) }

type VerifDNSEntry struct {
	Host    string
	Addrs   []net.IPAddr
	Expires time.Time
}

// Entries is an unsynchronised snapshot (same caveat as Len).
func (v *VerifDNS) Entries() []VerifDNSEntry {
	var out []VerifDNSEntry
	for h, e := range v.C.entries {
		out = append(out, VerifDNSEntry{h, e.addrs, e.expires})
	}
	sort.Slice(out, func(i, j int) bool { return out[i].Host < out[j].Host })
	return out
}

// VerifTransportSNI reports the TLS server name a transport returned by GetTransport was built for, and its identity.
func VerifTransportSNI(rt interface{}) (sni string, id interface{}) {
	t, ok := rt.(*destinationTripperTransport)
	if !ok || t.TLSClientConfig == nil {
		return "", nil
	}
	return t.TLSClientConfig.ServerName, t
}

// ---- final hop of destinationTripper.RoundTrip (concurrency check of the resolution cache)

// VerifRoundTripHook, when set, answers the last hop of destinationTripper.RoundTrip in place of the real http.Transport, so
// that RoundTrip can be driven under the cooperative scheduler without sockets. The method below shadows the RoundTrip
// promoted from the embedded *http.Transport; with the hook unset it is the promoted method.
var VerifRoundTripHook func(sni string, r *http.Request) (*http.Response, error)

func (t *destinationTripperTransport) RoundTrip(r *http.Request) (*http.Response, error) {
	if h := VerifRoundTripHook; h != nil {
		sni := ""
		if t.Transport != nil && t.TLSClientConfig != nil {
			sni = t.TLSClientConfig.ServerName
		}
		return h(sni, r)
	}
	return t.Transport.RoundTrip(r)
}

// ResolutionCache is an unsynchronised dump of the tripper's resolution cache (for a harness under the cooperative scheduler,
// or after joining).
func (t *VerifTripper) ResolutionCache() map[string][]ResolutionResult {
	out := map[string][]ResolutionResult{}
	t.f.resolutionCache.Range(func(k, v interface{}) bool {
		n, _ := k.(spec.ServerName)
		rs, _ := v.([]ResolutionResult)
		out[string(n)] = append([]ResolutionResult(nil), rs...)
		return true
	})
	return out
}

// VerifNewDNSCacheWith is VerifNewDNSCache with the caller's allow / deny lists (a harness with a loopback listener lets
// exactly that address through, so that DialContext can succeed on one address of an entry and be refused on another).
func VerifNewDNSCacheWith(size int, d time.Duration, allow, deny []string, r VerifResolver) *VerifDNS {
	c := NewDNSCache(size, d, allow, deny)
	c.resolver = verifResolver{r}
	return &VerifDNS{c}
}

// DialAddr dials through the cache and reports the remote address of the connection it got.
func (v *VerifDNS) DialAddr(address string) (string, error) {
	conn, err := v.C.DialContext(context.Background(), "tcp", address)
	if err != nil {
		return "", err
	}
	defer conn.Close() // nolint: errcheck
	return conn.RemoteAddr().String(), nil
}
