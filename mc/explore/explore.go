// Package explore is a stateless, deviation-bounded choice-tree explorer.
//
// A harness body makes every nondeterministic or enumerated decision through
// Ctx.Choose / Ctx.Free. The explorer replays a recorded prefix of choices,
// takes alternative 0 at every later point, and then recurses over every
// alternative of every point after the prefix, charging one deviation for each
// non-default alternative of a Choose point (Free points are always fully
// expanded at no cost). Every execution is visited exactly once.
package explore

import (
	"fmt"
	"runtime"
	"sync"
	"sync/atomic"
)

// Point is one decision taken by an execution.
type Point struct {
	N     int
	Label string
	Free  bool
}

// Ctx is handed to the body for one execution.
type Ctx struct {
	prefix  []int
	Choices []int
	Points  []Point
	// User may stash per-execution data here.
	User interface{}
}

// ErrNondeterminism is the panic value used when a replayed prefix does not
// match the body's behaviour: nondeterminism that the harness does not own.
type ErrNondeterminism struct{ Msg string }

func (e ErrNondeterminism) Error() string { return "nondeterminism not owned: " + e.Msg }

func (c *Ctx) choose(n int, label string, free bool) int {
	if n <= 0 {
		panic(fmt.Sprintf("explore: Choose(%d,%q)", n, label))
	}
	i := len(c.Choices)
	v := 0
	if i < len(c.prefix) {
		v = c.prefix[i]
		if v >= n {
			panic(ErrNondeterminism{fmt.Sprintf("replayed choice %d out of range %d at point %d (%s)", v, n, i, label)})
		}
	}
	c.Choices = append(c.Choices, v)
	c.Points = append(c.Points, Point{n, label, free})
	return v
}

// Choose returns an alternative in [0,n); non-zero alternatives cost one deviation.
func (c *Ctx) Choose(n int, label string) int { return c.choose(n, label, false) }

// Free returns an alternative in [0,n) of a pure enumeration dimension (cost 0).
func (c *Ctx) Free(n int, label string) int { return c.choose(n, label, true) }

// Deviations counts the non-default non-free choices taken so far.
func (c *Ctx) Deviations() int {
	d := 0
	for i, v := range c.Choices {
		if v != 0 && !c.Points[i].Free {
			d++
		}
	}
	return d
}

// Stats reports what an exploration covered.
type Stats struct {
	Executions  int64
	ChoicePts   int64 // total choice points met (transitions)
	MaxDepth    int64
	BoundDone   int
	Interrupted bool
}

// Options configures an exploration.
type Options struct {
	Bound    int           // max deviations per execution
	Workers  int           // 0 = GOMAXPROCS; 1 = sequential in caller's goroutine
	Stop     func() bool   // polled between executions; true = stop early (interrupted)
	NewUser  func() interface{}
	CostFunc func(p Point, alt int) int // optional custom cost (default 1 for non-free, non-zero)
}

// Run executes body once with the given prefix then defaults.
func Run(prefix []int, body func(*Ctx)) *Ctx {
	c := &Ctx{prefix: prefix}
	body(c)
	if len(c.Choices) < len(prefix) {
		panic(ErrNondeterminism{fmt.Sprintf("execution ended after %d points, prefix has %d", len(c.Choices), len(prefix))})
	}
	return c
}

type explorer struct {
	opt   Options
	body  func(*Ctx)
	execs atomic.Int64
	pts   atomic.Int64
	depth atomic.Int64
	stop  atomic.Bool
}

func (e *explorer) cost(p Point, alt int) int {
	if alt == 0 || p.Free {
		return 0
	}
	if e.opt.CostFunc != nil {
		return e.opt.CostFunc(p, alt)
	}
	return 1
}

func (e *explorer) runOne(prefix []int) *Ctx {
	c := Run(prefix, e.body)
	e.execs.Add(1)
	e.pts.Add(int64(len(c.Points)))
	for {
		d := e.depth.Load()
		if int64(len(c.Points)) <= d || e.depth.CompareAndSwap(d, int64(len(c.Points))) {
			break
		}
	}
	return c
}

// children lists the prefixes of the subtrees hanging off execution c, which
// itself was produced from a prefix of length plen.
func (e *explorer) children(c *Ctx, plen int) [][]int {
	var out [][]int
	used := 0
	for i := 0; i < plen; i++ {
		used += e.cost(c.Points[i], c.Choices[i])
	}
	for i := plen; i < len(c.Points); i++ {
		p := c.Points[i]
		for alt := 1; alt < p.N; alt++ {
			if used+e.cost(p, alt) > e.opt.Bound {
				continue
			}
			np := make([]int, i+1)
			copy(np, c.Choices[:i])
			np[i] = alt
			out = append(out, np)
		}
		// choices after plen are all 0: no cost accrues
	}
	return out
}

func (e *explorer) dfs(prefix []int) {
	if e.stop.Load() {
		return
	}
	if e.opt.Stop != nil && e.opt.Stop() {
		e.stop.Store(true)
		return
	}
	c := e.runOne(prefix)
	for _, ch := range e.children(c, len(prefix)) {
		e.dfs(ch)
	}
}

// Explore visits every execution of body with at most opt.Bound deviations.
// With Workers != 1 the body must be safe to run concurrently with itself.
func Explore(opt Options, body func(*Ctx)) Stats {
	e := &explorer{opt: opt, body: body}
	w := opt.Workers
	if w == 0 {
		w = runtime.GOMAXPROCS(0)
	}
	if w == 1 {
		e.dfs(nil)
	} else {
		// expand two levels sequentially, then farm subtrees out
		root := e.runOne(nil)
		var tasks [][]int
		for _, ch := range e.children(root, 0) {
			c := e.runOne(ch)
			tasks = append(tasks, e.children(c, len(ch))...)
		}
		var wg sync.WaitGroup
		var next atomic.Int64
		var perr atomic.Value
		for i := 0; i < w; i++ {
			wg.Add(1)
			go func() {
				defer wg.Done()
				defer func() {
					if r := recover(); r != nil {
						perr.CompareAndSwap(nil, fmt.Sprint(r))
						e.stop.Store(true)
					}
				}()
				for {
					k := int(next.Add(1)) - 1
					if k >= len(tasks) {
						return
					}
					e.dfs(tasks[k])
				}
			}()
		}
		wg.Wait()
		if v := perr.Load(); v != nil {
			panic(v)
		}
	}
	return Stats{Executions: e.execs.Load(), ChoicePts: e.pts.Load(), MaxDepth: e.depth.Load(), BoundDone: opt.Bound, Interrupted: e.stop.Load()}
}

// Perms returns all permutations of 0..n-1 in lexicographic order (identity first).
func Perms(n int) [][]int {
	var out [][]int
	p := make([]int, n)
	for i := range p {
		p[i] = i
	}
	var rec func(k int)
	used := make([]bool, n)
	cur := make([]int, 0, n)
	rec = func(k int) {
		if k == n {
			out = append(out, append([]int(nil), cur...))
			return
		}
		for i := 0; i < n; i++ {
			if !used[i] {
				used[i] = true
				cur = append(cur, i)
				rec(k + 1)
				cur = cur[:len(cur)-1]
				used[i] = false
			}
		}
	}
	rec(0)
	return out
}

// OrderMenu is the menu of orders offered for a collection of k elements:
// all k! permutations for k<=4, else identity, reverse, rotations and adjacent swaps.
func OrderMenu(k int) [][]int {
	if k <= 4 {
		return Perms(k)
	}
	id := make([]int, k)
	for i := range id {
		id[i] = i
	}
	out := [][]int{id}
	rev := make([]int, k)
	for i := range rev {
		rev[i] = k - 1 - i
	}
	out = append(out, rev)
	for r := 1; r < k; r++ {
		p := make([]int, k)
		for i := range p {
			p[i] = (i + r) % k
		}
		out = append(out, p)
	}
	for s := 0; s+1 < k; s++ {
		p := append([]int(nil), id...)
		p[s], p[s+1] = p[s+1], p[s]
		out = append(out, p)
	}
	return out
}
